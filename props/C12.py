"""C12 - signature files round-trip exactly and foreign files are refused."""
import z3
from pyvc.values import *
from pyvc.interp import Obligation
from pyvc.libspec.core import LIB as _CORE
from pyvc.libspec import np as _np, h5 as _h5
from pyvc.contracts import *
from contracts import specns, hdf5c
from contracts.hdf5c import *

from pyvc.libspec import conc as _conc
LIB = dict(_CORE)
SPECNS = specns.NS


def targets(tier):
	t = [(H5 + 'write_metadata',), (H5 + 'HDF5Signatures._init_attrs',)]
	for nm, pat in READ_INSTANCES.items():
		t.append((H5 + 'read_metadata', nm, {'group': attrs_instance(pat)}))
	t.append((H5 + 'load_signatures_hdf5',))
	return t


TRUSTED = []
ASSUMPTIONS = []


def register(reg):
	hdf5c.register(reg)
	hdf5c.register_read(reg)
	hdf5c.register_load(reg)


def bounded(run, run_oracle):
	return run_oracle('C12', run.repo_root, {'op': 'bounded', 'tier': run.tier, 'seed': run.seed})


TRUSTED = [
	'h5py store model: group.attrs is a name -> value store (h5py.Empty for "no value"); File(path) without mode opens read-only; open(path, "rb").read(8) returns the first bytes; json.loads(json.dumps(x)) == x for JSON values',
	'HDF5Signatures.__init__ refuses a group without the marker (its body and the dataset accessors are exercised by the bounded run only)',
	'BOUNDED only (real dump/load, labelled): HDF5Signatures._init_datasets (ids dtype dispatch, values/bounds on both write paths, cumulative bounds), create(), HDF5Signatures.__init__ reading, compression filters, indexing of the loaded collection (C20) - checked by dump/load/compare on generated collections (k in 1..32, <= 30 signatures, 4 ID kinds, Unicode metadata with nested extra data, gzip/lzf) and six kinds of foreign files',
]
ASSUMPTIONS = TRUSTED
