"""C11 - every export format is a faithful image of the query results."""
import z3
from pyvc.values import *
from pyvc.interp import Obligation
from pyvc.libspec.core import LIB as _CORE
from pyvc.libspec import np as _np, cli as _cli
from pyvc.contracts import *
from contracts import specns, taxonomy, results
from contracts.results import *

LIB = dict(_CORE)
LIB['class:Taxon'] = 'gambit.db.models.Taxon'
LIB['class:AnnotatedGenome'] = 'gambit.db.models.AnnotatedGenome'
SPECNS = specns.NS
_cli.install_csv11(LIB)


def targets(tier):
	return [(RS + 'CSVResultsExporter.get_header',), (RS + 'CSVResultsExporter.get_row',), (RS + 'JSONResultsExporter._item_to_json',),
	        (RS + 'JSONResultsExporter._taxon_to_json',), (RS + 'ResultsArchiveWriter._taxon_to_json',), (RS + 'ResultsArchiveWriter._genome_to_json',), (RS + 'JSONResultsExporter._genome_to_json',),
	        (RS + 'CSVResultsExporter.__init__', None, {'format_opts': {}}, results.register_export), (RS + 'CSVResultsExporter.export', None, None, results.register_export)]


TRUSTED = []
ASSUMPTIONS = []


def register(reg):
	taxonomy.register(reg)
	results.register(reg)


def bounded(run, run_oracle):
	return run_oracle('C11', run.repo_root, {'op': 'bounded', 'tier': run.tier, 'seed': run.seed})


TRUSTED = [
	'csv module (Python 3.12): writerow appends one row; under QUOTE_MINIMAL a field is quoted iff it contains the delimiter, the quote character or a character of the configured lineterminator; the reader ends a record at an unquoted \\r or \\n and un-doubles quotes',
	'json.dump with a default hook, attrs.asdict(recurse=False), functools.singledispatchmethod dispatch on the argument type; cattrs structure/unstructure round trip and the ORM look-ups by key used by ResultsArchiveReader',
	'BOUNDED only (labelled): the read-back side - CSV/JSON parsed back and the archive reconstructed through ResultsArchiveReader and compared with == including float32 distance bits, warnings, errors, params - on results of real queries with hostile names, unreportable taxa, strict mode and missing files',
]
ASSUMPTIONS = TRUSTED


def replay(run, result, model, run_oracle):
	if 'fields-that-break-parsing-are-quoted' in result.name and model is not None:
		field = None
		for d in model.decls():
			if d.name().startswith('field'):
				try:
					field = model[d].as_string()
				except Exception:
					pass
		if field is not None:
			import codecs
			try:
				field = codecs.decode(field.replace('\\\\u{', '\\\\x').replace('}', ''), 'unicode_escape') if '\\\\u{' in field else field
			except Exception:
				pass
			for f in (field, 'bare\rcarriage return'):
				case = {'fmt': 'csv', 'seed': 5, 'n': 2, 'rename': True, 'strings': [f]}
				r = run_oracle('C11', run.repo_root, {'op': 'case', 'case': case})
				if r.get('ok') is False:
					cls = 'bare-CR' if ('\r' in f and '\n' not in f and ',' not in f and '"' not in f) else 'other'
					return {'reproduced': True, 'case': case, 'expected': r.get('expected'), 'actual': r.get('actual'), 'class': cls,
					        'how': 'counter-model field (an unquoted character that ends a record) written by the real exporter and parsed back with csv.reader'}
	return {'reproduced': False}
