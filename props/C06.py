"""C06 - a genome's signature depends only on its biological content.

Deductive part = lemmas over the C01 contract of calc_signature (result = sorted, duplicate-free array of exactly the
x with sigany(kmerspec, seqs, x), sigany = "x is in sig() of ONE of the sequences"), plus the file glue:

  union / no k-mer across contigs   : IS the calc_signature postcondition (re-verified here, default accumulator)
  contig order                      : lemma perm  (sigany is invariant under rearrangement of signature-equivalent contigs)
  reverse complement of a contig    : lemma rc    (sig(RC(s)) == sig(s); inductive lemma encrc(RC(s)) == enc(s))
  letter case                       : lemma case  (sig depends on s through up(s[j]) only)
  same set => same array            : lemma canon (two strictly increasing arrays with the same members are equal)
  compression from content          : contracts of guess_compression / _open_auto / open_compressed / SequenceFile.open / parse
  file -> calc_signature            : contract of calc_file_signature (records in file order, every record's seq)
  line width / CRLF / final newline : Bio.SeqIO FASTA parser (external): BOUNDED stand-in only

The lemma statements are built with the SAME functions (contracts.specns.sig / sigany) that build the contract clauses."""
import z3
from pyvc.values import *
from pyvc.ops import truth
from pyvc.interp import Obligation
from pyvc import spec as S
from pyvc.libspec.core import LIB as _CORE
from pyvc.contracts import *
from contracts import specns, cython_kmers, py_seq, kmers_calc, fileio
from contracts.fileio import IO, SQ
from pyvc.libspec import fio as _fio, conc as _conc
from contracts.kmers_calc import KM, CA

LIB = dict(_CORE)
SPECNS = specns.NS


class _PE:
	"""minimal stand-in for the clause evaluator: records are dicts"""
	bound = {}

	def attr(self, rec, name):
		return rec[name]

	def deref(self, v):
		return v


PE = _PE()


_OPAQUE = {}


def _opaque(t, funs):
	"""t with the recursive spec functions in `funs` replaced by uninterpreted symbols: what is proved without a definition
	holds for every interpretation, in particular the defined one (keeps the solver from unfolding definitions the step does not need)"""
	for f in funs:
		if f.name() not in _OPAQUE:
			_OPAQUE[f.name()] = z3.Function(f.name() + '_opaque', *[f.domain(i) for i in range(f.arity())], f.range())
		g = _OPAQUE[f.name()]
		t = z3.substitute_funs(t, (f, g(*[z3.Var(i, f.domain(i)) for i in range(f.arity())])))
	return t


def _ob(name, hyps, goal, opaque=(), **meta):
	if opaque:
		hyps, goal = [_opaque(h, opaque) for h in hyps], _opaque(goal, opaque)
	return Obligation(f'C06/lemma/{name}', list(hyps), goal, meta)


def inst(q, *terms):
	"""the instance of the universally quantified formula q at the given terms (sound: an instance of a hypothesis)"""
	assert z3.is_quantifier(q) and q.is_forall() and q.num_vars() == len(terms)
	return z3.substitute_vars(q.body(), *reversed(terms))


def _bytes(name):
	"""a whole bytes object (origin 0) with its byte-range type invariant"""
	v = SArr.fresh(name, None, 'bytes')
	j = z3.Int(fresh_name('j'))
	return v, [v.length >= 0, z3.ForAll([j], z3.And(z3.Select(v.arr, j) >= 0, z3.Select(v.arr, j) <= 255))]


def _kspec():
	P, tyP = _bytes('P')
	k = z3.Int('k')
	ks = {'k': SInt(k), 'prefix': P, 'prefix_len': SInt(P.length), 'total_len': SInt(k + P.length), 'nkmers': SInt(S.pow4(k))}
	return ks, k, P, tyP + [truth(specns.wf_kspec(PE, ks))]


def _defs(ks, k, P, a, positions_f=(), positions_r=()):
	"""definitions of the spec functions at the terms a proof step talks about (occ / occrc / kvalid / kindex are opaque in contracts)"""
	L = P.length
	U = S.uparr(a.arr)
	jj = z3.Int(fresh_name('jj'))
	out = []
	for p in positions_f:
		out.append(S.occ(U, 0, P.arr, 0, L, p) == z3.ForAll([jj], z3.Implies(z3.And(jj >= 0, jj < L), z3.Select(U, p + jj) == z3.Select(P.arr, jj))))
		out.append(truth(specns.reveal_k(PE, ks, a, p, False)))
	for q in positions_r:
		out.append(S.occrc(U, 0, P.arr, 0, L, q) == z3.ForAll([jj], z3.Implies(z3.And(jj >= 0, jj < L), z3.Select(U, q + jj) == S.comp(z3.Select(P.arr, L - 1 - jj)))))
		out.append(truth(specns.reveal_k(PE, ks, a, q + L - 1, True)))
	return out


def _F(ks, k, P, a, x, p):
	"""forward disjunct of sig() at witness p (same conjuncts as contracts.specns.sig)"""
	L, n = P.length, a.length
	return z3.And(p >= 0, p + L + k <= n, S.occ(S.uparr(a.arr), 0, P.arr, 0, L, p),
	              specns.KVALID(a.arr, 0, k, L, p, z3.BoolVal(False)), x == specns.KINDEX(a.arr, 0, k, L, p, z3.BoolVal(False)))


def _R(ks, k, P, a, x, q):
	L, n = P.length, a.length
	return z3.And(q >= k, q + L <= n, S.occrc(S.uparr(a.arr), 0, P.arr, 0, L, q),
	              specns.KVALID(a.arr, 0, k, L, q + L - 1, z3.BoolVal(True)), x == specns.KINDEX(a.arr, 0, k, L, q + L - 1, z3.BoolVal(True)))


def _sig(ks, a, x):
	return truth(specns.sig(PE, ks, a, SInt(x)))


def lemmas(tier):
	S.CANON_BOUND = True
	try:
		return _lemmas(tier)
	finally:
		S.CANON_BOUND = False


def _lemmas(tier):
	out = []
	reset_names()
	ks, k, P, wf = _kspec()
	L = P.length
	a, tya = _bytes('a')
	b, tyb = _bytes('b')
	n = a.length
	x, p, q, m, t, j = z3.Ints('x p q m t j')
	o, o2 = z3.Ints('o o2')
	A, Bv = a.arr, b.arr

	# ---- (1) enc / encrc under mirroring-with-complement: induction on the number m of digits --------------------
	mirror = z3.ForAll([t], z3.Implies(z3.And(t >= 0, t < k), z3.Select(Bv, o2 + k - 1 - t) == S.comp(z3.Select(A, o + t))))
	nucA = S.allnuc(A, o, k)
	nucB = S.allnuc(Bv, o2, k)
	claim = lambda mm: S.encrc(Bv, o2, k, mm) == S.enc(A, o, mm)
	out.append(_ob('rc/enc-mirror/base', [k >= 1], claim(z3.IntVal(0))))
	# step m-1 -> m: digit m is b[o2+k-m] = comp(a[o+m-1]) (hypotheses instantiated at t = j = m-1)
	out.append(_ob('rc/enc-mirror/step', [k >= 1, k <= 32, m >= 1, m <= k, inst(mirror, m - 1), inst(nucA, m - 1), claim(m - 1)], claim(m)))
	# complementing keeps "is a nucleotide", in both directions (pointwise at a free index j)
	out.append(_ob('rc/allnuc-mirror', [k >= 1, j >= 0, j < k, inst(mirror, k - 1 - j), inst(nucA, k - 1 - j)], S.isnuc(z3.Select(Bv, o2 + j))))
	out.append(_ob('rc/allnuc-mirror-back', [k >= 1, j >= 0, j < k, inst(mirror, j), inst(nucB, k - 1 - j)], S.isnuc(z3.Select(A, o + j))))

	# ---- (2) b = RC(a): every match of a is the mirrored match of b on the other strand, same k-mer index ---------
	isrc = z3.And(b.length == n, z3.ForAll([j], z3.Implies(z3.And(j >= 0, j < n), z3.Select(Bv, n - 1 - j) == S.comp(z3.Select(A, j)))))
	isrc_back = z3.And(a.length == b.length, z3.ForAll([j], z3.Implies(z3.And(j >= 0, j < n), z3.Select(A, n - 1 - j) == S.comp(z3.Select(Bv, j)))))
	rcq, rcq_back = isrc.arg(1), isrc_back.arg(1)
	UA, UB = S.uparr(A), S.uparr(Bv)
	upax = S.AXIOMS['uparr']()
	base = wf + tya + tyb + [isrc]
	jj = z3.Int('jj')
	occ_body = lambda U_, pos: z3.ForAll([jj], z3.Implies(z3.And(jj >= 0, jj < L), z3.Select(U_, pos + jj) == z3.Select(P.arr, jj)))
	occrc_body = lambda U_, pos: z3.ForAll([jj], z3.Implies(z3.And(jj >= 0, jj < L), z3.Select(U_, pos + jj) == S.comp(z3.Select(P.arr, L - 1 - jj))))
	window = lambda arrA, oA, arrB, oB: z3.ForAll([t], z3.Implies(z3.And(t >= 0, t < k), z3.Select(arrB, oB + k - 1 - t) == S.comp(z3.Select(arrA, oA + t))))
	ENC = lambda arrA, oA, arrB, oB: z3.Implies(z3.And(window(arrA, oA, arrB, oB), S.allnuc(arrA, oA, k)),
		z3.And(S.encrc(arrB, oB, k, k) == S.enc(arrA, oA, k), S.allnuc(arrB, oB, k)))
	ENC2 = lambda arrA, oA, arrB, oB: z3.Implies(z3.And(window(arrA, oA, arrB, oB), S.allnuc(arrB, oB, k)),
		z3.And(S.encrc(arrB, oB, k, k) == S.enc(arrA, oA, k), S.allnuc(arrA, oA, k)))
	Pnuc = wf[-1]    # wf_kspec: includes "every prefix byte is one of ACGT"
	# forward match of a at p  ->  reverse match of b at qq = n - p - L
	qq = n - p - L
	pos_f = [p >= 0, p + L + k <= n, L >= 1, k >= 1, b.length == n]
	#   prefix: pointwise at a free index jj (hypotheses instantiated by hand)
	out.append(_ob('rc/forward-to-reverse/prefix', wf + tya + tyb + pos_f + [jj >= 0, jj < L, inst(rcq, p + L - 1 - jj), inst(occ_body(UA, p), L - 1 - jj), upax],
	               z3.Select(UB, qq + jj) == S.comp(z3.Select(P.arr, L - 1 - jj))))
	#   k-mer window: pointwise at a free index t
	out.append(_ob('rc/forward-to-reverse/window', tya + tyb + pos_f + [t >= 0, t < k, inst(rcq, p + L + t)],
	               z3.Select(Bv, (qq - k) + k - 1 - t) == S.comp(z3.Select(A, (p + L) + t))))
	out.append(_ob('rc/forward-to-reverse', wf + tya + tyb + [b.length == n] + _defs(ks, k, P, a, positions_f=[p]) + _defs(ks, k, P, b, positions_r=[qq]) +
	               [ENC(A, p + L, Bv, qq - k), z3.Implies(z3.And(*pos_f, occ_body(UA, p)), occrc_body(UB, qq)), z3.Implies(z3.And(*pos_f), window(A, p + L, Bv, qq - k))],
	               z3.Implies(_F(ks, k, P, a, x, p), _R(ks, k, P, b, x, qq)), opaque=(S.enc, S.encrc, S.pow4)))
	# reverse match of a at q  ->  forward match of b at pp = n - q - L
	pp = n - q - L
	pos_r = [q >= k, q + L <= n, L >= 1, k >= 1, b.length == n]
	out.append(_ob('rc/reverse-to-forward/prefix', wf + tya + tyb + pos_r + [jj >= 0, jj < L, inst(rcq, q + L - 1 - jj), inst(occrc_body(UA, q), L - 1 - jj), upax],
	               z3.Select(UB, pp + jj) == z3.Select(P.arr, jj)))
	out.append(_ob('rc/reverse-to-forward/window', tya + tyb + pos_r + [t >= 0, t < k, inst(rcq, q - 1 - t), z3.Select(A, q - 1 - t) >= 0, z3.Select(A, q - 1 - t) <= 255],
	               z3.Select(A, (q - k) + k - 1 - t) == S.comp(z3.Select(Bv, (pp + L) + t))))
	out.append(_ob('rc/reverse-to-forward', wf + tya + tyb + [b.length == n] + _defs(ks, k, P, a, positions_r=[q]) + _defs(ks, k, P, b, positions_f=[pp]) +
	               [ENC2(Bv, pp + L, A, q - k), z3.Implies(z3.And(*pos_r, occrc_body(UA, q)), occ_body(UB, pp)), z3.Implies(z3.And(*pos_r), window(Bv, pp + L, A, q - k))],
	               z3.Implies(_R(ks, k, P, a, x, q), _F(ks, k, P, b, x, pp)), opaque=(S.enc, S.encrc, S.pow4)))
	# RC is an involution on byte strings, so the two statements also hold with a and b exchanged
	out.append(_ob('rc/involution', tya + tyb + [isrc], isrc_back))
	# assembly: sig(a, x) <=> sig(b, x)
	f2r = lambda u, v: z3.ForAll([p], z3.Implies(_F(ks, k, P, u, x, p), _R(ks, k, P, v, x, n - p - L)))
	r2f = lambda u, v: z3.ForAll([q], z3.Implies(_R(ks, k, P, u, x, q), _F(ks, k, P, v, x, n - q - L)))
	out.append(_ob('rc/signature-invariant', wf + [b.length == n, f2r(a, b), r2f(a, b), f2r(b, a), r2f(b, a)], _sig(ks, a, x) == _sig(ks, b, x)))

	# ---- (3) letter case: b differs from a only in case ------------------------------------------------------------
	samecase = z3.And(b.length == n, z3.ForAll([j], z3.Implies(z3.And(j >= 0, j < n), S.up(z3.Select(Bv, j)) == S.up(z3.Select(A, j)))))
	same_o = z3.ForAll([t], z3.Implies(z3.And(t >= 0, t < k), S.up(z3.Select(Bv, o + t)) == S.up(z3.Select(A, o + t))))
	out.append(_ob('case/enc/step', [k >= 1, same_o, m >= 1, m <= k, S.enc(Bv, o, m - 1) == S.enc(A, o, m - 1)], S.enc(Bv, o, m) == S.enc(A, o, m)))
	out.append(_ob('case/encrc/step', [k >= 1, same_o, m >= 1, m <= k, S.encrc(Bv, o, k, m - 1) == S.encrc(A, o, k, m - 1)], S.encrc(Bv, o, k, m) == S.encrc(A, o, k, m)))
	out.append(_ob('case/allnuc', [k >= 1, same_o], S.allnuc(Bv, o, k) == S.allnuc(A, o, k)))
	CASE = lambda oo: z3.Implies(z3.ForAll([t], z3.Implies(z3.And(t >= 0, t < k), S.up(z3.Select(Bv, oo + t)) == S.up(z3.Select(A, oo + t)))),
		z3.And(S.enc(Bv, oo, k) == S.enc(A, oo, k), S.encrc(Bv, oo, k, k) == S.encrc(A, oo, k, k), S.allnuc(Bv, oo, k) == S.allnuc(A, oo, k)))
	upeq = z3.ForAll([j], z3.Implies(z3.And(j >= 0, j < n), z3.Select(UB, j) == z3.Select(UA, j)))
	out.append(_ob('case/upper-equal', tya + tyb + [b.length == n, j >= 0, j < n, inst(samecase.arg(1), j), upax], z3.Select(UB, j) == z3.Select(UA, j)))
	win = lambda oo: z3.ForAll([t], z3.Implies(z3.And(t >= 0, t < k), S.up(z3.Select(Bv, oo + t)) == S.up(z3.Select(A, oo + t))))
	CASE = lambda oo: z3.Implies(win(oo), z3.And(S.enc(Bv, oo, k) == S.enc(A, oo, k), S.encrc(Bv, oo, k, k) == S.encrc(A, oo, k, k), S.allnuc(Bv, oo, k) == S.allnuc(A, oo, k)))
	out.append(_ob('case/window', tya + tyb + [b.length == n, o >= 0, o + k <= n, t >= 0, t < k, inst(samecase.arg(1), o + t)],
	               S.up(z3.Select(Bv, o + t)) == S.up(z3.Select(A, o + t))))
	WIN = lambda oo: z3.Implies(z3.And(oo >= 0, oo + k <= n), win(oo))
	eqwin = lambda pos: z3.ForAll([jj], z3.Implies(z3.And(jj >= 0, jj < L), z3.Select(UB, pos + jj) == z3.Select(UA, pos + jj)))
	out.append(_ob('case/prefix-window', [b.length == n, o >= 0, o + L <= n, jj >= 0, jj < L, inst(upeq, o + jj)], z3.Select(UB, o + jj) == z3.Select(UA, o + jj)))
	occeq = lambda pos: z3.And(occ_body(UA, pos) == occ_body(UB, pos), occrc_body(UA, pos) == occrc_body(UB, pos))
	out.append(_ob('case/occ-equal', [L >= 1, eqwin(o)], occeq(o)))
	OCCEQ = lambda pos: z3.Implies(z3.And(pos >= 0, pos + L <= n), occeq(pos))
	cbase = wf + tya + tyb + [b.length == n]
	out.append(_ob('case/forward', cbase + _defs(ks, k, P, a, positions_f=[p]) + _defs(ks, k, P, b, positions_f=[p]) + [CASE(p + L), WIN(p + L), OCCEQ(p)],
	               _F(ks, k, P, a, x, p) == _F(ks, k, P, b, x, p), opaque=(S.enc, S.encrc, S.pow4)))
	out.append(_ob('case/reverse', cbase + _defs(ks, k, P, a, positions_r=[q]) + _defs(ks, k, P, b, positions_r=[q]) + [CASE(a.off + (q + L - 1) - L - k + 1), WIN(a.off + (q + L - 1) - L - k + 1), OCCEQ(q)],
	               _R(ks, k, P, a, x, q) == _R(ks, k, P, b, x, q), opaque=(S.enc, S.encrc, S.pow4)))
	out.append(_ob('case/signature-invariant', wf + [b.length == n,
	               z3.ForAll([p], _F(ks, k, P, a, x, p) == _F(ks, k, P, b, x, p)), z3.ForAll([q], _R(ks, k, P, a, x, q) == _R(ks, k, P, b, x, q))],
	               _sig(ks, a, x) == _sig(ks, b, x)))

	# ---- (4) contig order / per-contig variants: the union over signature-equivalent rearrangements -------------------------
	# proved for an ARBITRARY predicate PHI(contig, x) in place of sig(kmerspec, contig, x): sigany(seqs, x) = exists j. PHI(seqs[j], x)
	TS = TSeq(TArr(None, 'bytes'))
	G, H = TS.fresh('G'), TS.fresh('H')
	PHI = z3.Function('PHI', TS.T.sort, I, B)
	i, i2 = z3.Ints('i i2')
	y = z3.Int('y')
	el = lambda X, idx: z3.Select(X.arr, idx)
	covers = lambda X, Y: z3.ForAll([i], z3.Implies(z3.And(i >= 0, i < X.length),
		z3.Exists([i2], z3.And(i2 >= 0, i2 < Y.length, z3.ForAll([y], PHI(el(Y, i2), y) == PHI(el(X, i), y))))))
	anyof = lambda X, xx: z3.Exists([i], z3.And(i >= 0, i < X.length, PHI(el(X, i), xx)))
	out.append(_ob('perm/union-invariant', [G.length >= 0, H.length >= 0, covers(G, H), covers(H, G)], anyof(G, x) == anyof(H, x)))

	# ---- (5) canonical form: strictly increasing arrays with the same members are the same array ---------------------
	r1, r2 = SArr.fresh('r1', None, 'ndarray'), SArr.fresh('r2', None, 'ndarray')
	n1, n2 = r1.length, r2.length
	inc = lambda r: S.strictly_increasing(r.arr, 0, r.length)
	mem = lambda r, v: z3.Exists([i], z3.And(i >= 0, i < r.length, z3.Select(r.arr, i) == v))
	same = z3.ForAll([y], mem(r1, y) == mem(r2, y))
	ih = z3.ForAll([i], z3.Implies(z3.And(i >= 0, i < j), z3.Select(r1.arr, i) == z3.Select(r2.arr, i)))
	out.append(_ob('canon/element-step', [n1 >= 0, n2 >= 0, inc(r1), inc(r2), same, j >= 0, j < n1, j < n2, ih], z3.Select(r1.arr, j) == z3.Select(r2.arr, j)))
	pref = z3.ForAll([i], z3.Implies(z3.And(i >= 0, i < n1, i < n2), z3.Select(r1.arr, i) == z3.Select(r2.arr, i)))
	# if r2 were longer, its element number n1 would have to occur in r1, i.e. earlier in r2 (and symmetrically)
	out.append(_ob('canon/length/not-shorter', [n1 >= 0, n2 >= 0, inc(r1), inc(r2), inst(same, z3.Select(r2.arr, n1)), pref], z3.Not(n1 < n2)))
	out.append(_ob('canon/length/not-longer', [n1 >= 0, n2 >= 0, inc(r1), inc(r2), inst(same, z3.Select(r1.arr, n2)), pref], z3.Not(n2 < n1)))

	# ---- (6) the theorem over the calc_signature postcondition (default accumulator: nothing there before) --------------
	# ANYG / ANYH stand for sigany(kmerspec, G, .) and sigany(kmerspec, H, .)
	ANYG, ANYH = z3.Function('ANYG', I, B), z3.Function('ANYH', I, B)
	post = lambda r, ANY: [r.length >= 0, inc(r),
		z3.ForAll([i], z3.Implies(z3.And(i >= 0, i < r.length), ANY(z3.Select(r.arr, i)))),
		z3.ForAll([y], z3.Implies(ANY(y), mem(r, y)))]
	union_inv = z3.ForAll([y], ANYG(y) == ANYH(y))
	out.append(_ob('theorem/same-members', post(r1, ANYG) + post(r2, ANYH) + [union_inv], same))
	return out


def targets(tier):
	t = []
	t.append((CA + 'calc_signature', 'list,default', {'seqs': SeqOf(Arr('bytes'), ref=True), 'accumulator': Const(None)}))
	t.append((IO + 'guess_compression',))
	for mode in ('rt', 'rb', 'wt', 'at'):
		t.append((IO + '_open_auto', mode, {'mode': Const(mode), 'kwargs': {'encoding': 'ascii'} if mode == 'rt' else {}}))
	for mode in ('rt', 'rb', 'wt', 'r', 'rtb', 'zt'):
		for comp in ('none', 'gzip', 'auto', 'bz2'):
			t.append((IO + 'open_compressed', f'{mode},{comp}', {'mode': Const(mode), 'compression': Const(comp), 'kwargs': {}}))
	cf = lambda reg: (register(reg), fileio.register_calc_file(reg))
	cf.specns = {'sig': specns.sig_opaque}     # caller level: sig is an arbitrary predicate here (its definition is used by C01 and by the lemmas)
	t.append((CA + 'calc_file_signature', None, None, cf))
	for m in ('close', '__exit__', '__enter__'):
		t.append((IO + 'ClosingIterator.' + m, None, None, lambda reg: (register(reg), fileio.register_closing(reg))))
	for comp in (None, 'none', 'gzip', 'auto'):
		regfn = (lambda c: (lambda reg: (register(reg), fileio.register_seqfile(reg, c))))(comp)
		t.append((SQ + 'SequenceFile.open', str(comp), {'self': fileio.SeqFileT(comp), 'mode': Const('rt'), 'kwargs': {}}, regfn))
		t.append((SQ + 'SequenceFile.parse', str(comp), {'self': fileio.SeqFileT(comp), 'kwargs': {}}, regfn))
	return t


def register(reg):
	fileio.register(reg)
	cython_kmers.register(reg)
	py_seq.register(reg)
	kmers_calc.register(reg)
	reg.contracts['gambit.seq.seq_to_bytes'].inline = True


TRUSTED = [
	'C01 trusted base (the contract of calc_signature is re-verified here for the default accumulator; its callees by C01)',
	'induction over a natural number as a proof rule: a lemma proved for 0 and from m-1 to m holds for every m (base/step obligations)',
]
ASSUMPTIONS = list(TRUSTED)


def bounded(run, run_oracle):
	return run_oracle('C06', run.repo_root, {'op': 'bounded', 'tier': run.tier, 'seed': run.seed})


TRUSTED = [
	'C01 trusted base (the contract of calc_signature is re-verified here for the default accumulator; its callees by C01)',
	'induction over a natural number as a proof rule: a lemma proved for 0 and for the step m-1 -> m holds for every m (base/step obligations); a lemma proved with an uninterpreted symbol in place of a defined function holds for the defined one',
	'stream model (pyvc/libspec/fio.py): open() positions at 0, read(n) returns the first min(n, size) content bytes, seek(0) rewinds; GzipFile / gzip.open / TextIOWrapper / Bio.SeqIO.parse are opaque stream constructors whose meaning (decompression, decoding, FASTA parsing) is NOT modelled',
	'BOUNDED only (labelled): invariance under line width, CRLF/LF, final newline, gzip and the extension of the file name is decided by Bio.SeqIO / gzip / TextIOWrapper, external code; covered by the bounded run of the real calc_file_signature on generated files',
]
ASSUMPTIONS = TRUSTED + ['sequences shorter than 2^31, 1 <= k <= 32 (C01 preconditions)', 'one sequence file per verified function (ghost records_of)']
