"""C17 - the tree command outputs the UPGMA dendrogram of the pairwise distances."""
import z3
from pyvc.values import *
from pyvc.interp import Obligation
from pyvc.libspec.core import LIB as _CORE
from pyvc.contracts import *
from pyvc.libspec import conc as _conc, cli as _cli
from pyvc.libspec import tree as _tree      # after cli: its subscript hook chains to the one cli installed
from contracts import specns, treec, calc_files, cli, distcmd
from contracts.treec import CL

LIB = dict(_CORE)
treec.install_hclust_lib(LIB)
SPECNS = specns.NS


def _reg_cmd(reg):
	calc_files.register(reg)
	treec.register_cmd(reg)


def targets(tier):
	t = [(CL + 'linkage_to_bio_tree',), (CL + 'hclust', None, None, treec.register_hclust)]
	for sn, stt in (('sigfile', Str), ('files', Const(None))):
		t.append(('gambit.cli.tree.tree_cmd', sn, {'sigfile': stt}, _reg_cmd))
	return t


def register(reg):
	treec.register(reg)


def bounded(run, run_oracle):
	return run_oracle('C17', run.repo_root, {'op': 'bounded', 'tier': run.tier, 'seed': run.seed})


TRUSTED = []
ASSUMPTIONS = []


# ---- lemmas over the postcondition of linkage_to_bio_tree ---------------------------------------------------------------------
def _ob(name, hyps, goal, **meta):
	return Obligation(f'C17/lemma/{name}', list(hyps), goal, meta)


def lemmas(tier):
	out = []
	R = z3.RealSort()
	m, c0 = z3.Ints('m c0')
	n = m + 1
	L, Rr = z3.Const('L', IntArr), z3.Const('R', IntArr)
	H = z3.Const('H', z3.ArraySort(I, R))
	BL = z3.Const('BL', z3.ArraySort(I, R))       # branch_length by clade identity
	par = z3.Function('par', I, I)                 # the row (as a node id) in which a node is merged
	v, w, i, t = z3.Ints('v w i t')
	hgt = lambda x: z3.If(x < n, z3.RealVal(0), z3.Select(H, x - n))
	# postcondition of linkage_to_bio_tree (BLS clause), as hypotheses
	post_bl = z3.ForAll([i], z3.Implies(z3.And(i >= 0, i < m), z3.And(
		z3.Select(BL, c0 + z3.Select(L, i)) == z3.Select(H, i) - hgt(z3.Select(L, i)),
		z3.Select(BL, c0 + z3.Select(Rr, i)) == z3.Select(H, i) - hgt(z3.Select(Rr, i)))))
	# what SciPy's linkage guarantees (assumed): rows refer to earlier nodes; every node but the last is merged in exactly one
	# row (par); average linkage has no inversions (a cluster is never lower than its parts)
	wf = z3.ForAll([i], z3.Implies(z3.And(i >= 0, i < m), z3.And(z3.Select(L, i) >= 0, z3.Select(L, i) < n + i, z3.Select(Rr, i) >= 0, z3.Select(Rr, i) < n + i)))
	merged = z3.ForAll([v], z3.Implies(z3.And(v >= 0, v < 2 * m), z3.And(par(v) >= n, par(v) <= 2 * m,
		z3.Or(z3.Select(L, par(v) - n) == v, z3.Select(Rr, par(v) - n) == v))), patterns=[par(v)])
	mono = z3.ForAll([i], z3.Implies(z3.And(i >= 0, i < m), z3.And(z3.Select(H, i) >= hgt(z3.Select(L, i)), z3.Select(H, i) >= hgt(z3.Select(Rr, i)), z3.Select(H, i) >= 0)))
	base = [m >= 1, post_bl, wf, merged, mono]
	nonroot = z3.And(v >= 0, v < 2 * m)
	# every edge: branch length = height of the parent - height of the node, and it is not negative; the parent has a larger id
	edge = z3.Select(BL, c0 + v) == hgt(par(v)) - hgt(v)
	out.append(_ob('edge/length-is-height-difference', base + [nonroot], edge))
	# (uses the previous lemma at v and the monotonicity of the row par(v) - n)
	out.append(_ob('edge/non-negative', [m >= 1, nonroot, edge, z3.substitute_vars(merged.body(), v), z3.substitute_vars(mono.body(), par(v) - n)], z3.Select(BL, c0 + v) >= 0))
	out.append(_ob('edge/parent-is-later', base + [nonroot], par(v) > v))
	# path sums telescope: up(v, t) = t-th ancestor, plen(v, t) = sum of the first t branch lengths on the way up
	up = z3.RecFunction('up', I, I, I)
	z3.RecAddDefinition(up, [v, t], z3.If(t <= 0, v, par(up(v, t - 1))))
	plen = z3.RecFunction('plen', I, I, R)
	z3.RecAddDefinition(plen, [v, t], z3.If(t <= 0, z3.RealVal(0), plen(v, t - 1) + z3.Select(BL, c0 + up(v, t - 1))))
	EDGE = z3.ForAll([w], z3.Implies(z3.And(w >= 0, w < 2 * m), z3.Select(BL, c0 + w) == hgt(par(w)) - hgt(w)))     # = edge lemma, generalised
	claim = lambda tt: plen(v, tt) == hgt(up(v, tt)) - hgt(v)
	out.append(_ob('path/telescope/base', [m >= 1], claim(z3.IntVal(0))))
	out.append(_ob('path/telescope/step', [m >= 1, EDGE, t >= 1, claim(t - 1), up(v, t - 1) >= 0, up(v, t - 1) < 2 * m], claim(t)))
	# consequences for leaves x, y (height 0): distance to an ancestor = its height; two leaves meeting at a common ancestor u
	x, y, t1, t2 = z3.Ints('x y t1 t2')
	TEL = lambda a, tt: plen(a, tt) == hgt(up(a, tt)) - hgt(a)
	leaf = lambda a: z3.And(a >= 0, a < n)
	out.append(_ob('leaves/equidistant-from-root', [m >= 1, leaf(x), leaf(y), TEL(x, t1), TEL(y, t2), up(x, t1) == 2 * m, up(y, t2) == 2 * m], plen(x, t1) == plen(y, t2)))
	out.append(_ob('leaves/pair-path-is-twice-merge-height', [m >= 1, leaf(x), leaf(y), TEL(x, t1), TEL(y, t2), up(x, t1) == up(y, t2)],
	               plen(x, t1) + plen(y, t2) == 2 * hgt(up(x, t1))))
	return out


TRUSTED = [
	'scipy.cluster.hierarchy.linkage(method="average") returns the UPGMA dendrogram in linkage-matrix form: row i merges two earlier nodes, every node but the last is merged in exactly one row, heights are monotone (no inversions) and the height of the row that first joins two leaves is their UPGMA merge height (cophenetic distance); ids are floats holding exact integers',
	'scipy.spatial.distance.squareform(dmat) is the condensed form of a symmetric matrix in the order linkage expects',
	'Biopython: Clade(name=, clades=) / branch_length attribute / Tree(root=, rooted=) store what they are given; Phylo.write(tree, stream, "newick") prints that tree (parsed back in the bounded run)',
	'distances and heights are treated as mathematical reals (float64 subtraction error is ignored; the bounded run uses a 1e-6 tolerance)',
	'induction over the number of steps t as a proof rule (base/step obligations of the telescoping lemma)',
]
ASSUMPTIONS = TRUSTED
