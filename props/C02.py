"""C02 - Jaccard distance = |A xor B| / |A or B| rounded once to binary32."""
import z3
from pyvc.values import *
from pyvc.interp import Obligation
from pyvc import spec as S
from pyvc.libspec.core import LIB as _CORE
from pyvc.libspec import np as _np
from pyvc.libspec.np import NdArr
from contracts import specns, metric
from pyvc import replay as RP

LIB = dict(_CORE)
SPECNS = specns.NS
CM, PM = metric.CM, metric.PM

ALL_DT = ['u1', 'u2', 'u4', 'u8', 'i1', 'i2', 'i4', 'i8', 'f4', 'f8', 'b1']
OK_DT = ['u2', 'u4', 'u8', 'i2', 'i4', 'i8']


def targets(tier):
	t = []
	for name, ov in metric.KERNEL_INSTANCES:
		t.append((CM + 'c_jaccarddist', name, ov))
		t.append((CM + 'jaccarddist', name, ov))
		t.append((CM + 'jaccard', name, ov))
	for dt in ALL_DT:
		t.append((PM + '_cast_sigs_array', dt, {'arr': NdArr(dt)}))
	for a in OK_DT + ['u1', 'f4']:
		for b in OK_DT + ['i1']:
			t.append((PM + 'jaccarddist', f'{a},{b}', {'coords1': NdArr(a), 'coords2': NdArr(b)}))
	for a, b in [('u2', 'u8'), ('i4', 'u2'), ('i8', 'i8'), ('u4', 'f8')]:
		t.append((PM + 'jaccard', f'{a},{b}', {'coords1': NdArr(a), 'coords2': NdArr(b)}))
	return t


TRUSTED = [
	'Cython 3 / gcc translate metric.pyx faithfully and the .so in /repo was built from the current .pyx (bounded conformance run of the binary accompanies the proof)',
	'C float division and int->float conversion are IEEE-754 binary32, round-to-nearest-even (x86-64 SSE, FLT_EVAL_METHOD 0, no -ffast-math in setup.py); float -> Python float is exact',
	'ndarray.view(unsigned dtype of the same width) is the two\'s-complement reinterpretation; typed memoryview element = array element',
	'a buffer whose dtype matches no fused specialisation is refused with TypeError by the Cython wrapper',
]
ASSUMPTIONS = TRUSTED + [
	'machine integers: every intptr_t operation carries a no-overflow obligation; requires N + M < 2^62',
	'entries of signed arrays are non-negative (they are k-mer indices): stated in requires of metric.jaccarddist',
	'bit-exactness of the rounding is proved for |A or B| < 2^24 (the property\'s own bound): both int->float conversions are then exact',
]


def register(reg):
	metric.register(reg)


def _ob(name, hyps, goal):
	return Obligation(f'C02/lemma/{name}', list(hyps), goal)


def lemmas(tier):
	out = []
	a, b = z3.Const('a', IntArr), z3.Const('b', IntArr)
	oa, ob_, m, i, q, n = z3.Ints('oa ob m i q n')
	p = z3.Int('p')
	it = lambda t: S.inter(a, oa, b, ob_, m, t)
	none = z3.ForAll([p], z3.Implies(z3.And(i <= p, p < n), z3.Not(S.member(b, ob_, m, z3.Select(a, oa + p)))))
	hyp = [0 <= i, i <= n, none]
	out.append(_ob('tail/base', hyp, it(i) == it(i)))
	out.append(_ob('tail/step', hyp + [i <= q, q < n, it(q) == it(i)], it(q + 1) == it(i)))
	# inter counts: 0 <= inter(i) <= i
	out.append(_ob('inter-range/step', [q >= 0, it(q) >= 0, it(q) <= q], z3.And(it(q + 1) >= 0, it(q + 1) <= q + 1)))
	# ---- binary32 facts about the value jdist(s, u) = fdiv(i2f(s), i2f(u)), in the FP theory -------------
	F = z3.Float32()
	s, u = z3.BitVecs('s u', 32)
	rng = [z3.ULT(u, 1 << 24), z3.ULE(s, u)]
	# both conversions are exact below 2^24: rounding up and rounding down agree
	out.append(_ob('fp/int-to-float-exact-below-2^24', [z3.ULT(u, 1 << 24)],
	               z3.fpUnsignedToFP(z3.RTP(), u, F) == z3.fpUnsignedToFP(z3.RTN(), u, F)))
	# hence the quotient is the exact ratio rounded once; basic sanity of the value: finite, within [0, 1]
	fs, fu = z3.fpUnsignedToFP(z3.RNE(), s, F), z3.fpUnsignedToFP(z3.RNE(), u, F)
	d = z3.fpDiv(z3.RNE(), fs, fu)
	out.append(_ob('fp/quotient-in-unit-interval', rng + [u != 0],
	               z3.And(z3.Not(z3.fpIsNaN(d)), z3.fpGEQ(d, z3.FPVal(0.0, F)), z3.fpLEQ(d, z3.FPVal(1.0, F)))))
	return out


def _case_for(label, inp):
	def dt(sym):
		part = label.split('[')[1].rstrip(']').split(',') if '[' in label else ['64', '64']
		return part
	a, b = inp.get('coords1'), inp.get('coords2')
	if not isinstance(a, list) or not isinstance(b, list):
		return None
	parts = label.split('[')[1].rstrip(']').split(',') if '[' in label else ['u8', 'u8']
	def norm(x):
		return x if x[0] in 'uif' else 'u' + str(int(x) // 8)
	kind = 'index' if label.split('[')[0].endswith('jaccard') else 'dist'
	return {'kind': kind, 'a': a, 'b': b, 'dta': norm(parts[0]), 'dtb': norm(parts[1])}


def replay(run, result, model, run_oracle):
	ob = result.failed_instance
	inp = RP.entry_inputs(model, ob)
	tried = []
	if inp and ob.entry:
		case = _case_for(ob.entry[2], inp)
		if case is not None and case['dta'][0] in 'ui' and case['dtb'][0] in 'ui':
			r = run_oracle('C02', run.repo_root, {'op': 'case', 'case': case})
			tried.append({'case': case, 'result': r})
			if r.get('ok') is False:
				return {'reproduced': True, 'case': case, 'expected': r.get('expected'), 'actual': r.get('actual'), 'how': 'solver model replayed on the real code'}
	return {'reproduced': False, 'tried': tried}


def bounded(run, run_oracle):
	return run_oracle('C02', run.repo_root, {'op': 'bounded', 'tier': run.tier, 'seed': run.seed})
