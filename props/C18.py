"""C18 - using a reference database never modifies it."""
import z3
from pyvc.values import *
from pyvc.interp import Obligation
from pyvc.libspec.core import LIB as _CORE
from pyvc.libspec import fio as _fio, sqla as _sqla, conc as _conc
from pyvc.contracts import *
from pyvc.modules import ClassRef, ExtRef
from pyvc.libspec import h5 as _h5
from contracts import specns, readonly, hdf5c
LIB_OVERRIDE = {'builtins.open': _h5._open, 'method:read': _h5._read}     # the file model with the recorded open mode
from contracts.readonly import SA

LIB = dict(_CORE)
LIB.update(LIB_OVERRIDE)
SPECNS = specns.NS


def targets(tier):
	t = [(SA + 'ReadOnlySession.flush',), (SA + 'ReadOnlySession.commit',)]
	PLAIN = ExtRef('sqlalchemy.orm.Session')
	for name, cls in (('default', Const(None)), ('plain', Const(PLAIN)), ('readonly', Const(readonly.RO))):
		t.append((SA + 'file_sessionmaker', name, {'cls': cls}))
	t.append(('gambit.db.refdb.load_genomeset',))
	t.append((hdf5c.H5 + 'load_signatures_hdf5', 'default-mode', None, lambda reg: (hdf5c.register(reg), hdf5c.register_read(reg), hdf5c.register_load(reg))))
	rc = lambda reg: (register(reg), readonly.register_cli(reg))
	t.append((readonly.CC + 'CLIContext._init_genomes', 'fresh', {'self': readonly.CtxT(True)}, rc))
	t.append((readonly.CC + 'CLIContext._init_genomes', 'initialised', {'self': readonly.CtxT(False)}, rc))
	return t


def register(reg):
	readonly.register(reg)


def bounded(run, run_oracle):
	return run_oracle('C18', run.repo_root, {'op': 'bounded', 'tier': run.tier, 'seed': run.seed})


TRUSTED = [
	'SQLAlchemy: create_engine(url) opens nothing by itself; sessionmaker(engine, class_=C)() is a session of class C on that engine; Session.flush / Session.commit are the only ways pending ORM changes reach the file; a SELECT does not modify an SQLite file (no WAL/journal side files are left behind: checked by the bounded run through the directory listing)',
	'h5py.File(path) without a mode opens read-only ("r") in h5py >= 3',
	'BOUNDED only (labelled): the history clause over CLI commands and library calls (sha256 + size of both files and the directory listing after every step of generated histories, session probes)',
]
ASSUMPTIONS = TRUSTED
