"""C07 - k-mer/index conversion is the base-4 bijection, consistent with revcomp."""
import z3
from pyvc.values import *
from pyvc.interp import Obligation
from pyvc import spec as S
from pyvc.libspec.core import LIB as _CORE
from contracts import specns, cython_kmers, py_seq
from pyvc import replay as RP

LIB = dict(_CORE)
SPECNS = specns.NS
K = 'gambit._cython.kmers.'

TARGETS = [
	(K + 'c_kmer_to_index',), (K + 'kmer_to_index',),
	(K + 'c_kmer_to_index_rc',), (K + 'kmer_to_index_rc',),
	(K + 'c_index_to_kmer',), (K + 'index_to_kmer',),
	(K + 'c_revcomp',), (K + 'revcomp',),
	# the names under which the library itself uses the reverse complement (re-exports are followed to their definition on every run)
	('gambit.seq.revcomp',), ('gambit.kmers.revcomp',), ('gambit.kmers.index_to_kmer',),
] + [('gambit.seq.seq_to_bytes', t, {'seq': ts}) for t, ts in py_seq.SEQ_INSTANCES.items()] + [
	('gambit.seq.validate_dna_seq_bytes', None, {'seq': py_seq.SEQ_INSTANCES['bytes']}),
] + [('gambit.kmers.kmer_to_index', t, {'kmer': ts}) for t, ts in py_seq.SEQ_INSTANCES.items()] + [
	('gambit.kmers.kmer_to_index_rc', t, {'kmer': ts}) for t, ts in py_seq.SEQ_INSTANCES.items()]

TRUSTED = [
	'Cython 3 / gcc translate kmers.pyx faithfully and the .so in /repo was built from the current .pyx (cannot be regenerated here; bounded conformance run of the binary against the executable spec accompanies the proof)',
	'C integer semantics as modelled: usual arithmetic conversions, no wrap of uint64_t / int (each operation carries a no-overflow obligation)',
	'typed memoryview element access = array element; bytearray(k) is k zero bytes; bytes(buf) copies',
	'str.encode("ascii") raises UnicodeEncodeError exactly on code points > 127 and otherwise keeps the code points; bytes(Bio.Seq.Seq) returns the sequence data',
	'Python object -> C integer argument conversion raises OverflowError exactly when out of range',
]
ASSUMPTIONS = TRUSTED + [
	'sequence lengths < 2^31 for revcomp (C int counters; stated in requires)',
	'termination proved by decreases clauses on all five loops',
]


def register(reg):
	cython_kmers.register(reg)
	py_seq.register(reg)
	# whatever gambit.seq.revcomp / gambit.kmers.revcomp are bound to must satisfy the contract of the reverse complement
	for alias in ('gambit.seq.revcomp', 'gambit.kmers.revcomp'):
		reg.contracts[alias] = reg.contracts[K + 'revcomp']
	reg.contracts['gambit.kmers.index_to_kmer'] = reg.contracts[K + 'index_to_kmer']


# ---- lemmas over the contracts ------------------------------------------------------------------------

def _ob(name, hyps, goal):
	return Obligation(f'C07/lemma/{name}', list(hyps), goal)


def _digit(x, m):
	return (x / S.pow4(m)) % 4


def lemmas(tier):
	out = []
	x, y = z3.Int('x'), z3.Int('y')
	byte = [x >= 0, x <= 255]
	# the complement is an involution that swaps A/T, C/G keeping case and fixes every other byte
	out.append(_ob('comp/involution', byte, S.comp(S.comp(x)) == x))
	out.append(_ob('comp/case-preserved-and-pairs', byte, z3.And(
		z3.Implies(S.isnuc(x), z3.And(S.isnuc(S.comp(x)), S.dig(S.up(S.comp(x))) == 3 - S.dig(S.up(x)),
		                              (S.comp(x) >= 97) == (x >= 97))),
		z3.Implies(z3.Not(S.isnuc(x)), S.comp(x) == x))))
	out.append(_ob('encoder/accepts-exactly-ACGTacgt', byte, S.isnuc(x) == z3.And(S.dig(S.up(x)) >= 0, S.dig(S.up(x)) <= 3)))
	out.append(_ob('encoder/case-ignored', byte, z3.Implies(S.isnuc(x), S.dig(S.up(x)) == S.dig(S.up(S.up(x))))))
	# reverse complement twice is the identity (over the revcomp contract)
	a, b, c = z3.Const('a', IntArr), z3.Const('b', IntArr), z3.Const('c', IntArr)
	n, j = z3.Int('n'), z3.Int('j')
	jj = z3.Int('jj')
	rc_ab = z3.ForAll([jj], z3.Implies(z3.And(jj >= 0, jj < n), b[n - 1 - jj] == S.comp(a[jj])))
	rc_bc = z3.ForAll([jj], z3.Implies(z3.And(jj >= 0, jj < n), c[n - 1 - jj] == S.comp(b[jj])))
	out.append(_ob('revcomp/involution', [n >= 0, rc_ab, rc_bc, j >= 0, j < n], c[j] == a[j]))
	# index of the reverse complement == index obtained by reverse-complementing first
	w, o = z3.Const('w', IntArr), z3.Const('o', IntArr)
	k, m = z3.Int('k'), z3.Int('m')
	valid = z3.ForAll([jj], z3.Implies(z3.And(jj >= 0, jj < k), S.isnuc(w[jj])))
	isrc = z3.ForAll([jj], z3.Implies(z3.And(jj >= 0, jj < k), o[k - 1 - jj] == S.comp(w[jj])))
	hyp = [k >= 0, k <= 32, valid, isrc]
	P = lambda t: S.enc(o, 0, t) == S.encrc(w, 0, k, t)
	out.append(_ob('rc-index/base', hyp, P(z3.IntVal(0))))
	out.append(_ob('rc-index/step', hyp + [m >= 0, m < k, P(m)], P(m + 1)))
	# enc o dec = id: digits of x written out encode x
	dgt = z3.ForAll([jj], z3.Implies(z3.And(jj >= 0, jj < k), z3.And(z3.Or(w[jj] == 65, w[jj] == 67, w[jj] == 71, w[jj] == 84),
	                                                               S.dig(w[jj]) == _digit(x, k - 1 - jj))))
	hyp2 = [k >= 0, k <= 32, x >= 0, x < S.pow4(k), dgt]
	Q = lambda t: S.enc(w, 0, t) == x / S.pow4(k - t)
	out.append(_ob('enc-dec/base', hyp2, Q(z3.IntVal(0))))
	out.append(_ob('enc-dec/step', hyp2 + [m >= 0, m < k, Q(m)], Q(m + 1)))
	out.append(_ob('enc-dec/conclusion', hyp2 + [Q(k)], S.enc(w, 0, k) == x))
	# dec o enc = upper: every prefix code is the top part of the full code X (downward induction), so the
	# letter at position j is the (k-1-j)-th digit of X
	hyp3 = [k >= 0, k <= 32, valid]
	X = S.enc(w, 0, k)
	U = lambda t: S.enc(w, 0, t) == X / S.pow4(k - t)
	out.append(_ob('dec-enc/base', hyp3, U(k)))
	out.append(_ob('dec-enc/step', hyp3 + [m > 0, m <= k, U(m), S.enc(w, 0, m - 1) >= 0], U(m - 1)))
	dec_post = z3.ForAll([jj], z3.Implies(z3.And(jj >= 0, jj < k), z3.And(z3.Or(o[jj] == 65, o[jj] == 67, o[jj] == 71, o[jj] == 84),
	                                                                    S.dig(o[jj]) == _digit(X, k - 1 - jj))))
	out.append(_ob('dec-enc/conclusion', hyp3 + [j >= 0, j < k, U(j + 1), S.enc(w, 0, j) >= 0, dec_post], o[j] == S.up(w[j])))
	# range: valid k-mers encode into 0 .. 4^k - 1 (bijection onto that range together with the two inverses)
	R = lambda t: z3.And(S.enc(w, 0, t) >= 0, S.enc(w, 0, t) < S.pow4(t))
	out.append(_ob('enc-range/base', hyp3, R(z3.IntVal(0))))
	out.append(_ob('enc-range/step', hyp3 + [m >= 0, m < k, R(m)], R(m + 1)))
	return out


# ---- replay -------------------------------------------------------------------------------------------

def _case_for(label, inp):
	fn = label.split('[')[0].split('.')[-1]
	def arr(name):
		v = inp.get(name)
		return v if isinstance(v, list) else None
	if fn in ('c_kmer_to_index', 'kmer_to_index') and arr('kmer') is not None:
		return {'kind': 'py_enc' if label.startswith('kmers.') else 'enc', 'w': arr('kmer')}
	if fn in ('c_kmer_to_index_rc', 'kmer_to_index_rc') and arr('kmer') is not None:
		return {'kind': 'py_encrc' if label.startswith('kmers.') else 'encrc', 'w': arr('kmer')}
	if fn in ('c_revcomp', 'revcomp') and arr('seq') is not None:
		return {'kind': 'rc', 'w': arr('seq')}
	if fn == 'index_to_kmer' and isinstance(inp.get('index'), int):
		return {'kind': 'dec', 'index': inp['index'], 'k': inp.get('k', 0)}
	if fn == 'c_index_to_kmer' and isinstance(inp.get('index'), int) and arr('out') is not None:
		return {'kind': 'dec', 'index': inp['index'], 'k': len(arr('out'))}
	return None


def replay(run, result, model, run_oracle):
	ob = result.failed_instance
	inp = RP.entry_inputs(model, ob)
	tried = []
	if inp and ob.entry:
		case = _case_for(ob.entry[2], inp)
		if case is not None:
			if 'w' in case:
				case['w'] = [b % 256 for b in case['w']]
			r = run_oracle('C07', run.repo_root, {'op': 'case', 'case': case})
			tried.append({'case': case, 'result': r})
			if r.get('ok') is False:
				return {'reproduced': True, 'case': case, 'expected': r.get('expected'), 'actual': r.get('actual'), 'how': 'solver model replayed on the real code'}
	return {'reproduced': False, 'tried': tried,
	        'note': 'the counter-model does not fail on the compiled kernel (kernels are pre-built: a change to the .pyx text is not reflected in the .so here)'}


def bounded(run, run_oracle):
	return run_oracle('C07', run.repo_root, {'op': 'bounded', 'tier': run.tier, 'seed': run.seed})
