"""C03 - default classification follows the closest genome's lineage and thresholds."""
import z3
from pyvc.values import *
from pyvc.interp import Obligation
from pyvc import spec as S
from pyvc.libspec.core import LIB as _CORE
from pyvc.libspec import np as _np
from pyvc.contracts import *
from contracts import specns, taxonomy
from contracts.taxonomy import *

LIB = dict(_CORE)
LIB['class:Taxon'] = 'gambit.db.models.Taxon'
LIB['class:AnnotatedGenome'] = 'gambit.db.models.AnnotatedGenome'
SPECNS = specns.NS

TARGETS = [
	(MD + 'Taxon.ancestors',), (CL + 'matching_taxon',), (MD + 'reportable_taxon',),
	(CL + 'GenomeMatch.next_taxon',), (CL + 'GenomeMatch._matched_taxon_default',),
	(CL + 'classify', 'nonstrict', {'strict': Const(False)}),
]
TRUSTED = [
	'ORM attribute reads (taxon.parent, .distance_threshold, .report, genome.taxon) are pure and return the stored row',
	'numpy.argmin returns the index of the first minimum (NaN-free input); float32 -> float comparisons are exact (distances and thresholds treated as reals)',
	'attrs-generated __init__ stores its arguments; @x.default methods run at construction',
	'the taxonomy is a finite forest (ghost depth function; acyclic parent relation) - stated as requires/axiom wf_forest',
]
ASSUMPTIONS = TRUSTED + ['midx(t, d) (least lineage index whose threshold covers d) is a defined spec function; anc-depth lemma proved by induction']


def register(reg):
	taxonomy.register(reg)
	taxonomy.register_classify(reg)
	taxonomy.register_query(reg)


def _ob(name, hyps, goal):
	return Obligation(f'C03/lemma/{name}', list(hyps), goal)


def lemmas(tier):
	out = []
	t = z3.Const('t', TTaxon.sort)
	i = z3.Int('i')
	wf = taxonomy.wf_forest()
	out.append(_ob('anc-depth/base', [wf], taxonomy.anc_depth_stmt(t, z3.IntVal(0))))
	out.append(_ob('anc-depth/step', [wf, i >= 0, taxonomy.anc_depth_stmt(t, i)], taxonomy.anc_depth_stmt(t, i + 1)))
	# increasing the distance can only keep or coarsen the prediction (or lose it)
	d1, d2 = z3.Reals('d1 d2')
	out.append(_ob('monotone/coarsens', [taxonomy.forest_axioms(), taxonomy.midx_axiom(), t != NONE_T, d1 <= d2],
	               taxonomy.midx(t, d1) <= taxonomy.midx(t, d2)))
	out.append(_ob('anc-depth/top', [wf, t != NONE_T, taxonomy.anc_depth_stmt(t, depth(t))], anc(t, depth(t) + 1) == NONE_T))
	return out


def bounded(run, run_oracle):
	return run_oracle('C03', run.repo_root, {'op': 'bounded', 'tier': run.tier, 'seed': run.seed})
