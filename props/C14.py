"""C14 - signatures built with different k-mer parameters are never compared silently."""
import z3
from pyvc.values import *
from pyvc.interp import Obligation
from pyvc.libspec.core import LIB as _CORE
from pyvc.libspec import conc as _conc, cli as _cli
from pyvc.contracts import *
from contracts import specns, calc_files, py_seq, cli
from contracts.cli import *

LIB = dict(_CORE)
LIB['rectype:gambit.query.QueryInput'] = TRec('QueryInput', 'gambit.query.QueryInput', {'label': TStr}, consts={'file': None})
SPECNS = specns.NS


def targets(tier):
	t = []
	for kn, kt in (('k', Int), ('nok', Const(None))):
		for pn, pt in (('prefix', ArrStr()), ('noprefix', Const(None))):
			t.append((CC + 'kspec_from_params', f'{kn},{pn}', {'k': kt, 'prefix': pt}))
	for kn, kk, pp in (('k', Int, ArrStr()), ('nok', Const(None), Const(None))):
		for qn, qt in (('qs', Str), ('noqs', Const(None))):
			for rn, rt in (('rs', Str), ('nors', Const(None))):
				t.append(('gambit.cli.dist.dist_cmd', f'{kn},{qn},{rn}', {'k': kk, 'prefix': pp, 'qs': qt, 'rs': rt}))
	for sn, stt in (('sigfile', Str), ('files', Const(None))):
		t.append(('gambit.cli.query.query_cmd', sn, {'sigfile': stt}))
	t.append(('gambit.query.query_parse',))
	return t


TRUSTED = []
ASSUMPTIONS = []


def register(reg):
	py_seq.register(reg)
	calc_files.register(reg)
	cli.register(reg)
	cli.register_glue(reg)
	cli.register_commands(reg)


TRUSTED = [
	'click: parameters arrive with the declared types/defaults; a raised ClickException ends the command with a non-zero status before any later statement runs',
	'load_signatures returns the stored signatures with their stored k-mer spec (C12); calc_file_signatures returns signatures carrying the spec it was given (C13); get_sequence_files / from_paths / progress helpers have no effect on k-mer specs',
	'KmerSpec values are compared by KmerSpec.__eq__ on (k, upper-cased prefix): modelled as an opaque constructor mkspec(k, prefix)',
	'the ghost precondition "both sides carry the same k-mer spec" on jaccarddist_matrix and query() is the property itself; the distance code does not look at specs',
]
ASSUMPTIONS = TRUSTED + ['prefix option is ASCII text']

CANON = {
	'query_cmd': [{'kind': 'query_sigfile', 'k': 7, 'prefix': 'AT'}, {'kind': 'query_sigfile', 'k': 6, 'prefix': 'AC'}],
	'dist_cmd': [{'kind': 'dist', 'qs': (6, 'AT'), 'rs': (7, 'AT')}, {'kind': 'dist', 'qs': (6, 'AT'), 'use_db': True, 'kp': (7, 'AT')},
	             {'kind': 'dist', 'qs': (7, 'AT'), 'use_db': True}, {'kind': 'dist', 'qs': (6, 'AT'), 'square': True, 'kp': (6, 'AC')},
	             {'kind': 'dist', 'qs': (6, 'AT'), 'rs': (6, 'AT'), 'kp': (9, 'ATG')},
	             {'kind': 'dist', 'qs': (6, 'AT'), 'rs': (6, 'AC'), 'kp': (6, 'AT')}, {'kind': 'dist', 'qs': (6, 'AT'), 'rs': (6, 'AC'), 'kp': (6, 'AC')},
	             {'kind': 'dist', 'qs': (7, 'AT'), 'use_db': True, 'kp': (7, 'AT')}, {'kind': 'dist', 'qs': (6, 'AT'), 'rs': (7, 'AT'), 'kp': (6, 'AT')}],
}


def replay(run, result, model, run_oracle):
	"""the k-mer specs are opaque in the counter-model; canonical command lines for the failing command are run
	on the real CLI instead"""
	tried = []
	for fn, cases in CANON.items():
		if fn in result.name:
			for case in cases:
				r = run_oracle('C14', run.repo_root, {'op': 'case', 'case': case})
				tried.append({'case': case, 'result': r})
				if r.get('ok') is False:
					return {'reproduced': True, 'case': case, 'expected': r.get('expected'), 'actual': r.get('actual'),
					        'how': 'canonical foreign-parameter command line for the failing command, run on the real CLI in-process'}
	return {'reproduced': False, 'tried': tried}


def bounded(run, run_oracle):
	return run_oracle('C14', run.repo_root, {'op': 'bounded', 'tier': run.tier, 'seed': run.seed})
