"""C20 - signature collections index like NumPy sequences and compare by content."""
import z3
from pyvc.values import *
from pyvc.interp import Obligation
from pyvc.libspec.core import LIB as _CORE
from pyvc.libspec import np as _np
from pyvc.contracts import *
from contracts import specns, indexing
from contracts.indexing import *
from pyvc.libspec.np import NdArr

LIB = dict(_CORE)
SPECNS = specns.NS

def targets(tier):
	t = [(IX + '_check_index',), (IX + '_getitem_slice', None, {'index': SliceT(Int, Int, Int)}), (IX + '_getitem_bool_array', None, {'index': NdArr('b1')})]
	t.append((IX + '__getitem__', 'int', {'index': Int}))
	for nm, f in (('N', Const(None)), ('I', Int)):
		for nm2, f2 in (('N', Const(None)), ('I', Int)):
			for nm3, f3 in (('N', Const(None)), ('I', Int)):
				t.append((IX + '__getitem__', f'slice[{nm}{nm2}{nm3}]', {'index': SliceT(f, f2, f3)}))
	t.append((IX + '__getitem__', 'slice[bad]', {'index': SliceT(Int, Str, Const(None))}))
	for dt in ('i1', 'i2', 'i4', 'i8', 'u1', 'u2', 'u8', 'b1', 'f8'):
		t.append((IX + '__getitem__', f'ndarray[{dt}]', {'index': NdArr(dt)}))
	t.append((IX + '__getitem__', 'list', {'index': SeqOf(Int, ref=True)}))
	for q in ('SignatureList.__len__', 'SignatureList._getitem_int', 'SignatureList.__setitem__', 'ConcatenatedSignatureArray.__len__', 'ConcatenatedSignatureArray._getitem_int'):
		t.append((SB + q, None, None, indexing.register_hooks))
	t.append((IX + '__getitem__', 'emptylist', {'index': indexing._EmptyList()}))
	return t
TRUSTED = []
ASSUMPTIONS = []


def register(reg):
	indexing.register(reg)
	indexing.register_getitem(reg)


def bounded(run, run_oracle):
	return run_oracle('C20', run.repo_root, {'op': 'bounded', 'tier': run.tier, 'seed': run.seed})


TRUSTED = [
	'NumPy: asarray of a list of ints (int64), array < scalar (element-wise), ndarray.any, astype (C conversion, new array), np.add(out=, where=) in the output dtype\'s fixed width, flatnonzero (increasing positions of the non-zero entries), arange; slice.indices (PySlice_AdjustIndices); basic slicing of a 1-d array is a view',
	'len() of a sequence is < 2^63 (Py_ssize_t)',
	'the hooks a subclass provides are abstract in the mixin proof (ITEM / clen); SignatureList.__len__/_getitem_int/__setitem__ and ConcatenatedSignatureArray.__len__/_getitem_int are verified to implement them over the list / (values, bounds) representation',
	'BOUNDED only (real code against plain lists, labelled): _getitem_int_array of both containers, the contiguous-slice fast path, SignatureArray construction, HDF5-backed collections, __delitem__/insert, equality (sigarray_eq / __eq__), 2-d and object index arrays',
]
ASSUMPTIONS = TRUSTED
