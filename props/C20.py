"""C20 - signature collections index like NumPy sequences and compare by content."""
import z3
from pyvc.values import *
from pyvc.interp import Obligation
from pyvc.libspec.core import LIB as _CORE
from pyvc.libspec import np as _np
from pyvc.contracts import *
from contracts import specns, indexing
from contracts.indexing import *
from pyvc.libspec.np import NdArr

LIB = dict(_CORE)
SPECNS = specns.NS

def targets(tier):
	t = [(IX + '_check_index',), (IX + '_getitem_slice', None, {'index': SliceT(Int, Int, Int)}), (IX + '_getitem_bool_array', None, {'index': NdArr('b1')})]
	t.append((IX + '__getitem__', 'int', {'index': Int}))
	for nm, f in (('N', Const(None)), ('I', Int)):
		for nm2, f2 in (('N', Const(None)), ('I', Int)):
			for nm3, f3 in (('N', Const(None)), ('I', Int)):
				t.append((IX + '__getitem__', f'slice[{nm}{nm2}{nm3}]', {'index': SliceT(f, f2, f3)}))
	t.append((IX + '__getitem__', 'slice[bad]', {'index': SliceT(Int, Str, Const(None))}))
	for dt in ('i1', 'i2', 'i4', 'i8', 'u1', 'u2', 'u8', 'b1', 'f8'):
		t.append((IX + '__getitem__', f'ndarray[{dt}]', {'index': NdArr(dt)}))
	t.append((IX + '__getitem__', 'list', {'index': SeqOf(Int, ref=True)}))
	t.append((IX + '__getitem__', 'emptylist', {'index': indexing._EmptyList()}))
	return t
TRUSTED = []
ASSUMPTIONS = []


def register(reg):
	indexing.register(reg)
	indexing.register_getitem(reg)


def bounded(run, run_oracle):
	return run_oracle('C20', run.repo_root, {'op': 'bounded', 'tier': run.tier, 'seed': run.seed})
