"""C16 - the distance-matrix command labels and fills every cell correctly."""
import z3
from pyvc.values import *
from pyvc.interp import Obligation
from pyvc.libspec.core import LIB as _CORE
from pyvc.libspec import conc as _conc, cli as _cli
from pyvc.contracts import *
from contracts import specns, calc_files, cli, distcmd
from contracts.distcmd import *

LIB = dict(_CORE)
SPECNS = specns.NS


def targets(tier):
	t = []
	for qn, qt in (('qs', Str), ('noqs', Const(None))):
		for rn, rt in (('rs', Str), ('nors', Const(None))):
			t.append(('gambit.cli.dist.dist_cmd', f'{qn},{rn}', {'qs': qt, 'rs': rt}))
	t.append(('gambit.cluster.dump_dmat_csv', 'writer', None, distcmd.register_csv))
	return t


TRUSTED = []
ASSUMPTIONS = []


def register(reg):
	calc_files.register(reg)
	distcmd.register(reg)


TRUSTED = [
	'click parsing (exactly one source per side); load_signatures returns the stored ids with the stored signatures (C12); get_sequence_files derives ids and files together (C08); calc_file_signatures keeps file order (C13)',
	'C05: jaccarddist_matrix cell (i, j) = D(queries[i], refs[j]); jaccarddist_pairwise = the same for sigs x sigs, symmetric with zero diagonal',
	'csv.writer.writerow appends one row of fields (quoting is the library\'s); format(float32, "0.4f") is the correctly rounded 4-decimal rendering (uninterpreted FMT4)',
	'maybe_open yields a file object for the path; str() of an ID is its text',
]
ASSUMPTIONS = TRUSTED + ['provenance is tracked with opaque values: rowsrc/colsrc of a matrix and ids of a signature collection; the ghost precondition of dump_dmat_csv (labels = ids of the sources of the cells) is the property']


def bounded(run, run_oracle):
	return run_oracle('C16', run.repo_root, {'op': 'bounded', 'tier': run.tier, 'seed': run.seed})
