"""C08 - query output rows: one per input, in order, correctly labelled, context-free."""
import z3
from pyvc.values import *
from pyvc.interp import Obligation
from pyvc.libspec.core import LIB as _CORE
from pyvc.libspec import conc as _conc, cli as _cli
from pyvc.contracts import *
from contracts import specns, labels
from contracts.labels import *

LIB = dict(_CORE)
SPECNS = specns.NS


def targets(tier):
	return [(CC + 'get_file_id',)]


TRUSTED = []
ASSUMPTIONS = []


def register(reg):
	labels.register(reg)
