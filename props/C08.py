"""C08 - query output rows: one per input, in order, correctly labelled, context-free."""
import z3
from pyvc.values import *
from pyvc.interp import Obligation
from pyvc.libspec.core import LIB as _CORE
from pyvc.libspec import conc as _conc, cli as _cli
from pyvc.contracts import *
from contracts import specns, labels, queryglue, calc_files
from contracts.queryglue import *
from contracts.labels import *

LIB = dict(_CORE)
LIB['rectype:gambit.query.QueryInput'] = TQInput
LIB['class:SequenceFile'] = 'gambit.seq.SequenceFile'
SPECNS = specns.NS


def targets(tier):
	return [(CC + 'get_file_id',),
	        (QR + 'query', 'inputs', {'inputs': SeqOf(TSpec(TQInput))}),
	        (QR + 'query', 'noinputs', {'inputs': Const(None)}),
	        (QR + 'query', 'fileinputs', {'inputs': SeqOf(File)}),
	        (QR + 'query', 'strinputs', {'inputs': SeqOf(Str)}),
	        (QR + 'query_parse', 'labels', {'file_labels': SeqOf(Str)}),
	        (QR + 'query_parse', 'nolabels', {'file_labels': Const(None)}),
	        (CC + 'get_sequence_files', 'explicit', {'explicit': SeqOf(Str), 'listfile': Const(None), 'listfile_dir': Str}),
	        (CC + 'get_sequence_files', 'listfile', {'explicit': Const(None), 'listfile': Obj('ListFile'), 'listfile_dir': Str}),
	        ('gambit.seq.SequenceFile.from_paths',)]


TRUSTED = []
ASSUMPTIONS = []


def register(reg):
	labels.register(reg)
	labels.register_files(reg)
	calc_files.register(reg)
	queryglue.register(reg)
	queryglue.register_parse(reg)


TRUSTED = [
	'click parsing; os.path.basename (POSIX); pathlib: str(Path(s)) and Path(d) / s as uninterpreted normalisation/joining functions; text-file iteration (read_lines) and str.strip',
	'C05 in row form: row i of jaccarddist_matrix is a function of queries[i], the reference signatures and the selected indices only (independent of chunk size, batch, threads); C03/C09/C10: get_result_item is a function of (db, params, row, input); C13: calc_file_signatures returns the single-file results in file order',
	'gambit.util.progress helpers wrap iterables in order and do not touch values; attrs-generated constructors; zip(strict=True)',
	'exporters write one row/item per result item in order (C11); query_cmd passes ids/files from get_sequence_files to query_parse (checked as part of C14\'s query_cmd obligations and by the bounded CLI run)',
]
ASSUMPTIONS = TRUSTED + ['the end-to-end clause (same row alone or in any batch/channel/compression/cores/progress) is additionally exercised by a BOUNDED run of the real CLI; compression handling is C06']


def replay(run, result, model, run_oracle):
	from pyvc import replay as RP
	ob = result.failed_instance
	inp = RP.entry_inputs(model, ob)
	if inp and isinstance(inp.get('path'), str) and 'get_file_id' in result.name:
		case = {'kind': 'label', 'path': inp['path']}
		r = run_oracle('C08', run.repo_root, {'op': 'case', 'case': case})
		if r.get('ok') is False:
			return {'reproduced': True, 'case': case, 'expected': r.get('expected'), 'actual': r.get('actual'), 'how': 'solver model (path string) replayed on the real get_file_id'}
		return {'reproduced': False, 'tried': [{'case': case, 'result': r}]}
	return {'reproduced': False}


def bounded(run, run_oracle):
	return run_oracle('C08', run.repo_root, {'op': 'bounded', 'tier': run.tier, 'seed': run.seed})
