"""C04 - each reference genome is compared through its own signature, matched by ID."""
import z3
from pyvc.values import *
from pyvc.interp import Obligation
from pyvc.libspec.core import LIB as _CORE
from pyvc.contracts import *
from contracts import specns, taxonomy, refdb
from contracts.refdb import *

LIB = dict(_CORE)
LIB['class:AnnotatedGenome'] = 'gambit.db.models.AnnotatedGenome'
SPECNS = specns.NS


def targets(tier):
	return [(RD + 'genomes_by_id', 'strict', {'strict': Const(True)}), (RD + 'genomes_by_id', 'lenient', {'strict': Const(False)}),
	        (RD + 'genomes_by_id_subset',),
	        (RD + 'ReferenceDatabase.__init__', 'id_attr', {'signatures': RefSigs(Str)}),
	        (RD + 'ReferenceDatabase.__init__', 'no_id_attr', {'signatures': RefSigs(Const(None))})]


TRUSTED = []
ASSUMPTIONS = []


def register(reg):
	refdb.register(reg)
	refdb.register_db(reg)


TRUSTED = [
	'the three SQLAlchemy query helpers of refdb.py (_check_genome_id_attr, _check_genomes_have_ids, _map_ids_to_genomes) and genomeset.genomes.count(): the ID map has exactly one entry per genome of the set keyed by the attribute value; count() is the number of genomes',
	'pigeonhole step: n matched, pairwise different genomes of an n-element set cover the set (signature IDs unique)',
	'locate_files is covered by a BOUNDED stand-in only (real function on generated directory layouts): its set-comprehension/cardinality logic is not under contract',
	'the distance matrix takes its columns at ref_indices (C05) and classify pairs column j with genomes[j] (C03/C09): composition checked in the bounded run through the real query()',
]
ASSUMPTIONS = TRUSTED


def bounded(run, run_oracle):
	return run_oracle('C04', run.repo_root, {'op': 'bounded', 'tier': run.tier, 'seed': run.seed})
