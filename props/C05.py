"""C05 - bulk and parallel distance computations agree bit-for-bit with the pairwise one."""
import z3
from pyvc.values import *
from pyvc.interp import Obligation
from pyvc.libspec.core import LIB as _CORE
from pyvc.libspec import np as _np
from pyvc.contracts import *
from contracts import specns, metric
from contracts.metric import *

LIB = dict(_CORE)
SPECNS = specns.NS


def targets(tier):
	t = [(UM + 'chunk_slices',), (PM + 'num_pairs',)]
	for name, ov in PAR_INSTANCES:
		t.append((CM + '_jaccarddist_parallel', name, ov))
	from pyvc.libspec.np import NdArr, F32Arr
	for rn, rt in (('sigarray', SigArrT('u2')), ('sigarray_i4', SigArrT('i4')), ('seq', SeqOf(TSpec(TArr(CTYPES['uint16_t'], 'ndarray'))))):
		for on, ot in (('noout', Const(None)), ('out', F32Arr()), ('out_f8', NdArr('i8'))):
			t.append((PM + 'jaccarddist_array', f'{rn},{on}', {'query': NdArr('u2'), 'refs': rt, 'out': ot}))
	t.append((PM + 'jaccarddist_array', 'badquery', {'query': NdArr('u1'), 'refs': SigArrT('u2'), 'out': Const(None)}))
	return t


TRUSTED = []
ASSUMPTIONS = []


def register(reg):
	metric.register(reg)
	metric.register_bulk(reg)
	metric.register_array(reg)


def bounded(run, run_oracle):
	return run_oracle('C05', run.repo_root, {'op': 'bounded', 'tier': run.tier, 'seed': run.seed})


TRUSTED = [
	'C02 trusted base: D(a, b) is THE value of the compiled kernel for two sorted arrays (a function of the two element sequences), so "bit-identical" is equality of terms',
	'OpenMP / Cython implement prange as documented: iterations in any interleaving, scalars assigned in the loop are lastprivate; the frame obligations (each iteration writes only its own output cell, reads no written array, views do not alias) then make every schedule and thread count equal to the sequential loop; omp_set_num_threads only sets the thread count',
	'NumPy: empty, astype(copy=False), shape/dtype attributes, basic-slice views write through to the parent',
	'BOUNDED only (real code, float32 bits compared, labelled): jaccarddist_matrix (chunk loop, ref_indices, caller buffers) and jaccarddist_pairwise (square mirror / condensed offsets), HDF5-backed and list containers, thread counts 1..16 with repetitions',
]
ASSUMPTIONS = TRUSTED + ['requires: sorted duplicate-free non-negative signatures; len(out) == number of references; fewer than 2^31 references (C int loop counter); a SignatureArray satisfies its representation invariant (C20)']
