"""C05 - bulk and parallel distance computations agree bit-for-bit with the pairwise one."""
import z3
from pyvc.values import *
from pyvc.interp import Obligation
from pyvc.libspec.core import LIB as _CORE
from pyvc.libspec import np as _np
from pyvc.contracts import *
from contracts import specns, metric, bulkc
from pyvc.libspec import bulk as _bulk, conc as _conc
from contracts.metric import *

LIB = dict(_CORE)
SPECNS = specns.NS


def targets(tier):
	t = [(UM + 'chunk_slices',), (PM + 'num_pairs',)]
	for name, ov in PAR_INSTANCES:
		t.append((CM + '_jaccarddist_parallel', name, ov))
	from pyvc.libspec.np import NdArr, F32Arr
	for rn, rt in (('sigarray', SigArrT('u2')), ('sigarray_i4', SigArrT('i4')), ('seq', SeqOf(TSpec(TArr(CTYPES['uint16_t'], 'ndarray'))))):
		for on, ot in (('noout', Const(None)), ('out', F32Arr()), ('out_f8', NdArr('i8'))):
			t.append((PM + 'jaccarddist_array', f'{rn},{on}', {'query': NdArr('u2'), 'refs': rt, 'out': ot}))
	t.append((PM + 'jaccarddist_array', 'wide-query', {'query': NdArr('u8'), 'refs': SigArrT('u2'), 'out': Const(None)}))
	t.append((PM + 'jaccarddist_array', 'wide-query-seq', {'query': NdArr('u8'), 'refs': SeqOf(TSpec(TArr(CTYPES['uint16_t'], 'ndarray'))), 'out': Const(None)}))
	t.append((PM + 'jaccarddist_array', 'badquery', {'query': NdArr('u1'), 'refs': SigArrT('u2'), 'out': Const(None)}))
	rm = bulkc.register_matrix
	rm.lib = _bulk.BULK_LIB
	for idn, idt in (('all', Const(None)), ('selection', SeqOf(Int))):
		for cn, ct in (('onechunk', Const(None)), ('chunked', Int)):
			t.append((PM + 'jaccarddist_matrix', f'{idn},{cn}', {'ref_indices': idt, 'chunksize': ct}, rm))
	rp = bulkc.register_pairwise
	rp.lib = _bulk.BULK_LIB
	t.append((PM + 'jaccarddist_pairwise', 'square,all', {'indices': Const(None)}, rp))
	t.append((PM + 'jaccarddist_pairwise', 'square,selection', {'indices': SeqOf(Int)}, rp))
	rf = bulkc.register_pairwise_flat
	rf.lib = _bulk.BULK_LIB
	t.append((PM + 'jaccarddist_pairwise', 'flat,all', {'indices': Const(None)}, rf))
	t.append((PM + 'jaccarddist_pairwise', 'flat,selection', {'indices': SeqOf(Int)}, rf))
	return t


TRUSTED = []
ASSUMPTIONS = []


def register(reg):
	metric.register(reg)
	metric.register_bulk(reg)
	metric.register_array(reg)


def lemmas(tier):
	"""poff-closed-form: the row offset the flat contract is stated with (defined by recursion on the row) IS the offset of
	scipy.spatial.distance.squareform, n*a - a(a+1)/2 - so the proved layout is the documented condensed layout"""
	n, a = z3.Ints('n a')
	ax = bulkc._poff_axiom()
	return [Obligation('C05/lemma/poff-closed-form/base', [ax], bulkc.poff_closed_form(n, z3.IntVal(0))),
	        Obligation('C05/lemma/poff-closed-form/step', [ax, a >= 0, bulkc.poff_closed_form(n, a)], bulkc.poff_closed_form(n, a + 1))]


def bounded(run, run_oracle):
	return run_oracle('C05', run.repo_root, {'op': 'bounded', 'tier': run.tier, 'seed': run.seed})


TRUSTED = [
	'C02 trusted base: D(a, b) is THE value of the compiled kernel for two sorted arrays (a function of the two element sequences), so "bit-identical" is equality of terms',
	'OpenMP / Cython implement prange as documented: iterations in any interleaving, scalars assigned in the loop are lastprivate; the frame obligations (each iteration writes only its own output cell, reads no written array, views do not alias) then make every schedule and thread count equal to the sequential loop; omp_set_num_threads only sets the thread count',
	'NumPy: empty, astype(copy=False), shape/dtype attributes, basic-slice views write through to the parent',
	'jaccarddist_matrix is verified over an ABSTRACT model (pyvc/libspec/bulk.py): opaque signatures with DV(a, b) = THE two-signature distance, an opaque AbstractSignatureArray whose indexing obeys the C20 contract (item r of refs[a:b] / refs[index list] is the selected item), a 2-d float32 array with row views that write through; its callee jaccarddist_array is used through the caller view of the contract verified on the concrete representations',
	'jaccarddist_pairwise is verified over the same abstract model for out=None, progress=None and an AbstractSignatureArray argument, square and flat, with and without an index selection: np.fill_diagonal, the mirror assignment out[i+1:n, i] = out[i, i+1:n] (right-hand side read before anything is written) and basic-slice views of a 1-d array are modelled in pyvc/libspec/bulk.py; the flat layout is stated with the row offset poff(n, a) defined by recursion, and lemma poff-closed-form proves it equal to the squareform offset n*a - a(a+1)/2; a collection has fewer than 2^63 items',
	'BOUNDED only (real code, float32 bits compared, labelled): caller-supplied buffers (out=...) and plain-list arguments of jaccarddist_matrix / jaccarddist_pairwise, HDF5-backed and list containers, thread counts 1..16 with repetitions',
]
ASSUMPTIONS = TRUSTED + ['requires: sorted duplicate-free non-negative signatures; len(out) == number of references; fewer than 2^31 references (C int loop counter); a SignatureArray satisfies its representation invariant (C20)']
