"""C09 - the closest-genomes list is the deterministic (distance, reference order) prefix."""
import z3
from pyvc.values import *
from pyvc.interp import Obligation
from pyvc.libspec.core import LIB as _CORE
from pyvc.libspec import np as _np
from pyvc.contracts import *
from contracts import specns, taxonomy
from contracts.taxonomy import *

LIB = dict(_CORE)
LIB['class:Taxon'] = 'gambit.db.models.Taxon'
LIB['class:AnnotatedGenome'] = 'gambit.db.models.AnnotatedGenome'
LIB['rectype:gambit.classify.GenomeMatch'] = TGenomeMatch
SPECNS = specns.NS

TARGETS = [(QR + 'get_result_item',)]
TRUSTED = []
ASSUMPTIONS = []


def register(reg):
	taxonomy.register(reg)
	taxonomy.register_classify(reg)
	taxonomy.register_query(reg)
	taxonomy.register_result_item(reg)


def bounded(run, run_oracle):
	return run_oracle('C09', run.repo_root, {'op': 'bounded', 'tier': run.tier, 'seed': run.seed})


TRUSTED = [
	'numpy.argsort(kind="stable"): a permutation of 0..n-1 sorting the values in non-decreasing order with equal values in index order (the default kind promises no order among equal values); numpy.argmin: first minimum',
	'basic slicing [:N] of a 1-d array clamps like a list slice',
	'C03 trusted base (ORM reads pure, distances as reals, attrs constructors)',
	'list comprehension over an array: element expression evaluated for a generic index (obligations proved for the arbitrary index), results collected in order',
]
ASSUMPTIONS = TRUSTED + ['params.report_closest >= 0; non-strict classification (the strict branch is C10)',
                         'determinism across CPU dispatch / threads / chunk sizes is a corollary: the postcondition is a function of the distance row, which is a function of the inputs (C05)']


def _ob(name, hyps, goal):
	return Obligation(f'C09/lemma/{name}', list(hyps), goal)


def lemmas(tier):
	"""the derived clause that the argsort contract states for the solver's benefit follows from its basic clauses"""
	out = []
	d = z3.Const('d', z3.ArraySort(I, R))
	r = z3.Const('r', IntArr)
	inv = z3.Function('rank', I, I)
	n, p, q, j = z3.Ints('n p q j')
	base = [n > 0,
		z3.ForAll([j], z3.Implies(z3.And(0 <= j, j < n), z3.And(0 <= r[j], r[j] < n, inv(r[j]) == j))),
		z3.ForAll([j], z3.Implies(z3.And(0 <= j, j < n), z3.And(0 <= inv(j), inv(j) < n, r[inv(j)] == j))),
		z3.ForAll([p, q], z3.Implies(z3.And(0 <= p, p < q, q < n), d[r[p]] <= d[r[q]])),
		z3.ForAll([p, q], z3.Implies(z3.And(0 <= p, p < q, q < n, d[r[p]] == d[r[q]]), r[p] < r[q]))]
	out.append(_ob('argsort-stable/first-is-minimum', base + [0 <= j, j < n], d[r[0]] <= d[j]))
	out.append(_ob('argsort-stable/first-is-first-minimum', base + [0 <= j, j < r[0]], d[r[0]] < d[j]))
	return out
