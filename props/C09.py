"""C09 - the closest-genomes list is the deterministic (distance, reference order) prefix."""
import z3
from pyvc.values import *
from pyvc.interp import Obligation
from pyvc.libspec.core import LIB as _CORE
from pyvc.libspec import np as _np
from pyvc.contracts import *
from contracts import specns, taxonomy
from contracts.taxonomy import *

LIB = dict(_CORE)
LIB['class:Taxon'] = 'gambit.db.models.Taxon'
LIB['class:AnnotatedGenome'] = 'gambit.db.models.AnnotatedGenome'
LIB['rectype:gambit.classify.GenomeMatch'] = TGenomeMatch
SPECNS = specns.NS

TARGETS = [(QR + 'get_result_item',)]
TRUSTED = []
ASSUMPTIONS = []


def register(reg):
	taxonomy.register(reg)
	taxonomy.register_classify(reg)
	taxonomy.register_query(reg)
	taxonomy.register_result_item(reg)


def bounded(run, run_oracle):
	return run_oracle('C09', run.repo_root, {'op': 'bounded', 'tier': run.tier, 'seed': run.seed})


TRUSTED = [
	'numpy.argsort(kind="stable"): a permutation of 0..n-1 sorting the values in non-decreasing order with equal values in index order (the default kind promises no order among equal values); numpy.argmin: first minimum',
	'basic slicing [:N] of a 1-d array clamps like a list slice',
	'C03 trusted base (ORM reads pure, distances as reals, attrs constructors)',
	'list comprehension over an array: element expression evaluated for a generic index (obligations proved for the arbitrary index), results collected in order',
]
ASSUMPTIONS = TRUSTED + ['params.report_closest >= 0; non-strict classification (the strict branch is C10)',
                         'determinism across CPU dispatch / threads / chunk sizes is a corollary: the postcondition is a function of the distance row, which is a function of the inputs (C05)']


def _ob(name, hyps, goal):
	return Obligation(f'C09/lemma/{name}', list(hyps), goal)


def lemmas(tier):
	"""the single rank clause of the contract implies the sub-clauses of the property"""
	from pyvc.libspec.np import LEXRANK, lexrank_axioms
	out = []
	d = z3.Const('d', z3.ArraySort(I, R))
	n, i, k, r, s_, m = z3.Ints('n i k r s m')
	ax = lexrank_axioms(d, n)
	rk = lambda x: LEXRANK(d, n, x)
	lt = lambda x, y: z3.Or(d[x] < d[y], z3.And(d[x] == d[y], x < y))
	inr = lambda x: z3.And(0 <= x, x < n)
	# order: entries at positions r < s hold references i, k with (d[i], i) < (d[k], k): non-decreasing distance, ties by reference order
	out.append(_ob('rank/order', [ax, inr(i), inr(k), rk(i) == r, rk(k) == s_, r < s_], lt(i, k)))
	out.append(_ob('rank/distances-non-decreasing', [ax, inr(i), inr(k), rk(i) == r, rk(k) == s_, r < s_], d[i] <= d[k]))
	# determinism: a position determines the reference (two references cannot share a rank)
	out.append(_ob('rank/unique', [ax, inr(i), inr(k), rk(i) == rk(k)], i == k))
	# completeness: a reference that is not among the first m ranks comes after every listed one
	out.append(_ob('rank/nothing-closer-left-out', [ax, inr(i), inr(k), rk(i) < m, rk(k) >= m], lt(i, k)))
	return out
