"""C10 - strict classification reports an order-independent consensus of all matches."""
import z3
from pyvc.values import *
from pyvc.interp import Obligation
from pyvc.libspec.core import LIB as _CORE
from pyvc.libspec import np as _np
from pyvc.contracts import *
from contracts import specns, taxonomy
from contracts.taxonomy import *

LIB = dict(_CORE)
LIB['class:Taxon'] = 'gambit.db.models.Taxon'
LIB['class:AnnotatedGenome'] = 'gambit.db.models.AnnotatedGenome'
SPECNS = specns.NS

TARGETS = [(CL + 'find_matches',)]
TRUSTED = []
ASSUMPTIONS = []


def register(reg):
	taxonomy.register(reg)
	taxonomy.register_classify(reg)
	taxonomy.register_consensus(reg)
	taxonomy.register_find_matches(reg)


def bounded(run, run_oracle):
	return run_oracle('C10', run.repo_root, {'op': 'bounded', 'tier': run.tier, 'seed': run.seed})


TRUSTED = [
	'C03 trusted base (ORM reads pure, finite-forest axiom, distances as reals); zip_strict / enumerate; dict insertion semantics for setdefault(k, []).append(v) (recognised idiom: d[k] := d.get(k, []) ++ [v])',
	'BOUNDED STAND-IN (not proved): consensus_taxon and the strict branch of classify (consensus, warning, primary match, failure flag) are checked by running the real classify(strict=True) under EVERY permutation of the reference genomes on forests of <= 6 taxa with <= 4 genomes (5 in the thorough tier) against a set-based specification. A contract for consensus_taxon (deepest taxon comparable with every matched taxon; hence a function of the set) is written in contracts/taxonomy.py, but its forest obligations do not discharge within the solver budget and it is therefore not part of the claimed obligations.',
]
ASSUMPTIONS = TRUSTED


def lemmas(tier):
	"""anc-compose: the j-th ancestor of the i-th ancestor is the (i+j)-th ancestor (used by the consensus contract)"""
	t = z3.Const('t', TTaxon.sort)
	i, j = z3.Ints('i j')
	wf = taxonomy.wf_forest()
	return [Obligation('C10/lemma/anc-compose/base', [wf, i >= 0], taxonomy.anc_compose_stmt(t, i, z3.IntVal(0))),
	        Obligation('C10/lemma/anc-compose/step', [wf, i >= 0, j >= 0, taxonomy.anc_compose_stmt(t, i, j)], taxonomy.anc_compose_stmt(t, i, j + 1))]
