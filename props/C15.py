"""C15 - the genomic distance behaves as a metric on signatures (lemmas over the C02 contract)."""
import z3
from pyvc.values import *
from pyvc.interp import Obligation
from pyvc import spec as S
from pyvc.libspec.core import LIB as _CORE
from contracts import specns, metric

LIB = dict(_CORE)
SPECNS = specns.NS
CM = metric.CM


def targets(tier):
	# the kernel's postcondition carries symmetry and width independence for all nine type pairings
	t = [(CM + 'c_jaccarddist', name, ov) for name, ov in metric.KERNEL_INSTANCES]
	# ... and the Python entry point users call must hand the kernel the SAME values whatever the two widths are
	# (contract: result == D(coords1, coords2) as sets of mathematical integers, for every pair of integer dtypes)
	from pyvc.libspec.np import NdArr
	from props.C02 import OK_DT, PM
	for a in OK_DT:
		for b in OK_DT:
			t.append((PM + 'jaccarddist', f'{a},{b}', {'coords1': NdArr(a), 'coords2': NdArr(b)}))
	return t


TRUSTED = [
	'C02 trusted base (compiled kernel, IEEE-754 binary32 RNE division and conversion)',
	'standard model of correctly rounded arithmetic for normal results: fl(x) = x(1+d), |d| <= 2^-24, hence |fl(x) - x| <= 2^-25 on [0,1] (used for the triangle slack and for strict decrease above the bit-precisely checked range)',
	'set arithmetic linking sets to the pair (|A xor B|, |A or B|): adding one k-mer absent from both sets keeps |A xor B| and increases |A or B| by one; Venn-region decomposition of three sets',
]
ASSUMPTIONS = TRUSTED + [
	'FP clauses are proved for |A or B| < 2^24 (0/1 characterisation) and for all sizes < 2^62 (range, zero)',
	'strict decrease: proved for |A or B| + 1 <= 2^23; it FAILS above (known finding, see known_findings.json)',
]


def register(reg):
	metric.register(reg)


def _ob(name, hyps, goal, **meta):
	return Obligation(f'C15/lemma/{name}', list(hyps), goal, meta)


def lemmas(tier):
	out = []
	# ---- set level: what the intersection count says about the two sets -------------------------------------
	a, b = z3.Const('a', IntArr), z3.Const('b', IntArr)
	oa, ob_, m, q, n = z3.Ints('oa ob m q n')
	p = z3.Int('p')
	it = lambda t: S.inter(a, oa, b, ob_, m, t)
	mem = lambda t: S.member(b, ob_, m, z3.Select(a, oa + t))
	allin = lambda t: z3.ForAll([p], z3.Implies(z3.And(0 <= p, p < t), mem(p)))
	nonein = lambda t: z3.ForAll([p], z3.Implies(z3.And(0 <= p, p < t), z3.Not(mem(p))))
	rng = lambda t: z3.And(it(t) >= 0, it(t) <= t)
	out.append(_ob('inter/range-base', [], rng(z3.IntVal(0))))
	out.append(_ob('inter/range-step', [q >= 0, rng(q)], rng(q + 1)))
	# inter(i) == i  <=>  every one of the first i elements of A is in B
	out.append(_ob('inter/full-iff-subset/base', [], (it(z3.IntVal(0)) == 0) == allin(z3.IntVal(0))))
	out.append(_ob('inter/full-iff-subset/step', [q >= 0, rng(q), (it(q) == q) == allin(q)], (it(q + 1) == q + 1) == allin(q + 1)))
	# inter(i) == 0  <=>  none of them is
	out.append(_ob('inter/zero-iff-disjoint/step', [q >= 0, rng(q), (it(q) == 0) == nonein(q)], (it(q + 1) == 0) == nonein(q + 1)))
	# conclusions over the kernel's postcondition: s = N+M-2I, u = N+M-I, I = inter(A,B,N) = inter(B,A,M)
	N, M, I_ = z3.Ints('N M I')
	s_, u_ = N + M - 2 * I_, N + M - I_
	facts = [N >= 0, M >= 0, I_ >= 0, I_ <= N, I_ <= M]
	out.append(_ob('sets/sym-diff-zero-iff-both-subsets', facts, (s_ == 0) == z3.And(I_ == N, I_ == M)))
	out.append(_ob('sets/disjoint-iff-s-equals-u', facts, z3.And(s_ == u_, u_ > 0) == z3.And(I_ == 0, N + M > 0)))
	out.append(_ob('sets/s-le-u', facts, z3.And(0 <= s_, s_ <= u_)))
	# ---- binary32: the value F(s, u) = fdiv(i2f(s), i2f(u)) -------------------------------------------------------
	F = z3.Float32()
	for W, bound, tag in ((64, 62, '<2^62'),):
		s, u = z3.BitVecs('s u', W)
		d = z3.fpDiv(z3.RNE(), z3.fpUnsignedToFP(z3.RNE(), s, F), z3.fpUnsignedToFP(z3.RNE(), u, F))
		pre = [z3.ULE(s, u), u != 0, z3.ULT(u, 1 << bound)]
		out.append(_ob(f'fp/range[{tag}]', pre, z3.And(z3.Not(z3.fpIsNaN(d)), z3.fpGEQ(d, z3.FPVal(0.0, F)), z3.fpLEQ(d, z3.FPVal(1.0, F)))))
		out.append(_ob(f'fp/zero-iff-s-zero[{tag}]', pre, z3.fpIsZero(d) == (s == 0)))
	s, u = z3.BitVecs('s u', 32)
	fs = z3.fpUnsignedToFP(z3.RNE(), s, F)
	d = z3.fpDiv(z3.RNE(), fs, z3.fpUnsignedToFP(z3.RNE(), u, F))
	d1 = z3.fpDiv(z3.RNE(), fs, z3.fpUnsignedToFP(z3.RNE(), u + 1, F))
	pre = [z3.ULE(s, u), u != 0, z3.ULT(u, 1 << 24)]
	out.append(_ob('fp/one-iff-s-equals-u[<2^24]', pre, (d == z3.FPVal(1.0, F)) == (s == u)))
	# strict decrease when a common new k-mer is added: F(s, u+1) < F(s, u) for s > 0
	# (one query per exponent band of u: the bit-blasted divisions grow with the number of (s, u) pairs, and a single query for u < 2^12
	#  does not finish within any budget - the thorough tier goes one band further than the quick one, each band its own obligation)
	out.append(_ob('fp/strict-decrease/bit-precise[u+1<=2^8]', [z3.ULE(s, u), s != 0, z3.ULT(u, 1 << 8)], z3.fpLT(d1, d)))
	if tier != 'quick':
		for kb in (8,):        # (the band 2^9..2^10 takes ~90 s unloaded: too close to the wall budget when 16 cores are busy)
			out.append(_ob(f'fp/strict-decrease/bit-precise[2^{kb}<=u<2^{kb + 1}]', [z3.ULE(s, u), s != 0, z3.UGE(u, 1 << kb), z3.ULT(u, 1 << (kb + 1))], z3.fpLT(d1, d)))
	# ... in the standard model of rounding for every u with 2u+1 < 2^24
	rs, ru, e0, e1 = z3.Reals('rs ru e0 e1')
	eps = z3.RealVal(1) / (1 << 24)
	out.append(_ob('fp/strict-decrease/standard-model[u+1<=2^23]',
	               [rs > 0, rs <= ru, ru >= 1, 2 * ru + 1 < (1 << 24), e0 >= -eps, e0 <= eps, e1 >= -eps, e1 <= eps],
	               ru * (1 + e1) < (ru + 1) * (1 + e0)))     # <=> (s/(u+1))(1+e1) < (s/u)(1+e0) for s > 0
	# ... and the property's unrestricted claim inside its own exactness domain: expected to FAIL (known finding)
	out.append(_ob('fp/strict-decrease/above-2^23', [z3.ULE(s, u), s != 0, z3.UGE(u, (1 << 23)), z3.ULT(u, (1 << 24) - 1)], z3.fpLT(d1, d)))
	# ---- triangle inequality ---------------------------------------------------------------------------------------
	import sympy
	names = ['a', 'b', 'c', 'ab', 'ac', 'bc', 'abc']   # sizes of the seven Venn regions of A, B, C
	V = z3.Reals(' '.join('r_' + x for x in names))
	sv = sympy.symbols(' '.join(names))
	def dist(vs, only_x, only_y, x_z, y_z, xy, xyz):
		num = vs[only_x] + vs[x_z] + vs[only_y] + vs[y_z]
		return num, num + vs[xy] + vs[xyz]
	idx = {n_: i for i, n_ in enumerate(names)}
	def parts(vs):
		g = lambda k: vs[idx[k]]
		nab, uab = g('a') + g('ac') + g('b') + g('bc'), g('a') + g('b') + g('ab') + g('ac') + g('bc') + g('abc')
		nbc, ubc = g('b') + g('ab') + g('c') + g('ac'), g('b') + g('c') + g('ab') + g('ac') + g('bc') + g('abc')
		nac, uac = g('a') + g('ab') + g('c') + g('bc'), g('a') + g('c') + g('ab') + g('ac') + g('bc') + g('abc')
		return nab, uab, nbc, ubc, nac, uac
	nab, uab, nbc, ubc, nac, uac = parts(list(sv))
	poly = sympy.Poly(sympy.expand(nab * ubc * uac + nbc * uab * uac - nac * uab * ubc), *sv)
	terms = poly.terms()
	znab, zuab, znbc, zubc, znac, zuac = parts(V)
	P = znab * zubc * zuac + znbc * zuab * zuac - znac * zuab * zubc
	mono = lambda mexp: z3.Product([V[i] for i, e in enumerate(mexp) for _ in range(int(e))] or [z3.RealVal(1)])
	expanded = z3.Sum([z3.RealVal(int(c)) * mono(mexp) for mexp, c in terms])
	nonneg = [v >= 0 for v in V]
	out.append(_ob('triangle/polynomial-identity', [], P == expanded))
	out.append(_ob('triangle/coefficients-nonnegative', [], z3.BoolVal(all(int(c) >= 0 for _, c in terms) and len(terms) > 0)))
	ms = z3.Reals(' '.join(f'm{i}' for i in range(len(terms))))
	out.append(_ob('triangle/sum-of-nonnegative-monomials', [mv >= 0 for mv in ms], z3.Sum([z3.RealVal(int(c)) * mv for (_, c), mv in zip(terms, ms)]) >= 0))
	for i, (mexp, c) in enumerate(terms):
		if sum(int(e) for e in mexp) >= 2 and i % (1 if tier != 'quick' else 4) == 0:
			out.append(_ob(f'triangle/monomial-nonnegative#{i}', nonneg, mono(mexp) >= 0))
	# exact triangle inequality from P >= 0 (unions positive), and the degenerate cases
	dab, dbc, dac = z3.Reals('dab dbc dac')
	out.append(_ob('triangle/exact', nonneg + [zuab > 0, zubc > 0, zuac > 0, P >= 0, dab * zuab == znab, dbc * zubc == znbc, dac * zuac == znac], dac <= dab + dbc))
	out.append(_ob('triangle/degenerate-empty-union', nonneg + [zuab == 0], z3.And(znac == znbc, zuac == zubc)))
	# three roundings of at most 2^-25 each stay within the stated slack 2^-22
	fab, fbc, fac = z3.Reals('fab fbc fac')
	h = z3.RealVal(1) / (1 << 25)
	close = lambda f, x: z3.And(f - x <= h, x - f <= h)
	out.append(_ob('triangle/rounding-slack', [dac <= dab + dbc, close(fab, dab), close(fbc, dbc), close(fac, dac)], fac <= fab + fbc + z3.RealVal(1) / (1 << 22)))
	return out


def replay(run, result, model, run_oracle):
	name = result.name
	if '/fp/strict-decrease' in name:
		# candidates: the solver's counter-model if one was extracted, then the recorded witness of the known finding
		# (the in-process model extraction for this floating-point query is slow and can time out; the verdict must not depend on it)
		cands = []
		if model is not None:
			vals = {d.name(): model[d] for d in model.decls()}
			try:
				cands.append((vals['s'].as_long(), vals['u'].as_long(), 'solver model (s, u) turned into two sorted arrays and run through the real kernel'))
			except Exception:
				pass
		if 'above-2^23' in name:
			cands.append((6978181, 11222215, 'recorded witness of the known finding re-run through the real kernel'))
		tried = []
		for s_, u_, how in cands:
			case = {'kind': 'decrease', 's': s_, 'u': u_}
			r = run_oracle('C15', run.repo_root, {'op': 'case', 'case': case})
			if r.get('ok') is False:
				return {'reproduced': True, 'case': case, 'expected': r.get('expected'), 'actual': r.get('actual'),
				        'class': 'above-2^23' if u_ + 1 > (1 << 23) else 'below-2^23', 'how': how}
			tried.append({'case': case, 'result': r})
		return {'reproduced': False, 'tried': tried}
	return {'reproduced': False}


def bounded(run, run_oracle):
	return run_oracle('C15', run.repo_root, {'op': 'bounded', 'tier': run.tier, 'seed': run.seed})
