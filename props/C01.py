"""C01 - a signature is exactly the set of prefix-anchored k-mers on both strands."""
import z3
from pyvc.values import *
from pyvc.interp import Obligation
from pyvc import spec as S
from pyvc.libspec.core import LIB as _CORE
from pyvc.libspec import np as _np
from pyvc.contracts import *
from contracts import specns, cython_kmers, py_seq, kmers_calc
from contracts.kmers_calc import KM, CA, KSpecT, MatchT, AccT
from contracts.py_seq import SEQ_INSTANCES
from pyvc import replay as RP

LIB = dict(_CORE)
SPECNS = specns.NS


def targets(tier):
	t = []
	t.append((KM + 'nkmers',))
	t.append((KM + 'index_dtype',))
	for name, ts in SEQ_INSTANCES.items():
		t.append((KM + 'find_kmers', name, {'seq': ts}))
		t.append((KM + 'KmerMatch.kmer_index', name, {'self': MatchT(ts)}))
		t.append((KM + 'KmerSpec.__init__', name, {'prefix': ts}))
	for cls in ('ArrayAccumulator', 'SetAccumulator'):
		t.append((CA + cls + '.__init__',))
		for dt in (1, 2, 4, 8):
			kind = 'array' if cls.startswith('Array') else 'set'
			arg = 'i' if kind == 'array' else 'index'
			t.append((CA + cls + '.add', f'u{dt}', {'self': AccT(kind, dt), arg: Int}))
			t.append((CA + cls + '.signature', f'u{dt}', {'self': AccT(kind, dt)}))
	for name, ts in SEQ_INSTANCES.items():
		for kind, dt in (('array', 2), ('set', 8)):
			t.append((CA + 'accumulate_kmers', f'{name},{kind}', {'seq': ts, 'accumulator': AccT(kind, dt)}))
	t.append((CA + 'default_accumulator',))
	SEQS = dict(SEQ_INSTANCES)
	SEQS['list'] = SeqOf(Arr('bytes'), ref=True)
	for name, ts in SEQS.items():
		for aname, acc in (('default', Const(None)), ('array', AccT('array', 4)), ('set', AccT('set', 8))):
			t.append((CA + 'calc_signature', f'{name},{aname}', {'seqs': ts, 'accumulator': acc}))
	return t


TRUSTED = []
ASSUMPTIONS = []


def register(reg):
	cython_kmers.register(reg)
	py_seq.register(reg)
	kmers_calc.register(reg)
	reg.contracts['gambit.seq.seq_to_bytes'].inline = True


def _ob(name, hyps, goal):
	return Obligation(f'C01/lemma/{name}', list(hyps), goal)


def lemmas(tier):
	out = []
	h, P, R = z3.Const('h', IntArr), z3.Const('P', IntArr), z3.Const('R', IntArr)
	n, L, p, j = z3.Ints('n L p j')
	ho = no = ro = z3.IntVal(0)   # the lemma instances used by the contracts are for whole arrays (origin 0)
	jj = z3.Int('jj')
	U = S.uparr(h)
	occ_body = lambda H: z3.ForAll([jj], z3.Implies(z3.And(jj >= 0, jj < L), z3.Select(H, p + jj) == z3.Select(P, jj)))
	occrc_body = lambda H: z3.ForAll([jj], z3.Implies(z3.And(jj >= 0, jj < L), z3.Select(H, p + jj) == S.comp(z3.Select(P, L - 1 - jj))))
	defs = [S.occ(H, ho, P, no, L, p) == occ_body(H) for H in (h, U)] + [S.occrc(H, ho, P, no, L, p) == occrc_body(H) for H in (h, U)]
	upper_prefix = z3.ForAll([j], z3.Implies(z3.And(j >= 0, j < L), z3.Or(*[z3.Select(P, j) == c for c in b'ACGT'])))
	nolower = z3.ForAll([j], z3.Implies(z3.And(j >= 0, j < n), z3.And(*[z3.Select(h, j) != c for c in b'acgt'])))
	hyp = defs + [S.AXIOMS['uparr'](), upper_prefix, nolower, p >= 0, p + L <= n, L >= 1]
	# the definitions of occ / occrc (spec functions) are instantiated by hand for the two haystacks
	out.append(_ob('hay-equiv/forward', hyp, S.occ(h, ho, P, no, L, p) == S.occ(U, ho, P, no, L, p)))
	out.append(_ob('hay-equiv/reverse', hyp, S.occrc(h, ho, P, no, L, p) == S.occrc(U, ho, P, no, L, p)))
	# an occurrence of the byte string revcomp(prefix) is an occurrence of the reverse complement of the prefix
	isrc = z3.ForAll([j], z3.Implies(z3.And(j >= 0, j < L), z3.Select(R, L - 1 - j) == S.comp(z3.Select(P, j))))
	occR = z3.ForAll([jj], z3.Implies(z3.And(jj >= 0, jj < L), z3.Select(h, p + jj) == z3.Select(R, jj)))
	out.append(_ob('rc-equiv', [S.occ(h, ho, R, ro, L, p) == occR, S.occrc(h, ho, P, no, L, p) == occrc_body(h), isrc, L >= 1],
	               S.occ(h, ho, R, ro, L, p) == S.occrc(h, ho, P, no, L, p)))
	return out


TRUSTED = [
	'C07 trusted base (compiled kernels, C integer model) through the contracts of kmer_to_index / kmer_to_index_rc / revcomp',
	'bytes.find(sub, start, end): lowest index in the clamped range where sub occurs, else -1; bytes.upper is byte-wise ASCII upper-casing; slicing clamps like PySlice_AdjustIndices',
	'numpy: zeros, flatnonzero (increasing indices of non-zero entries), astype (C conversion), fromiter over a set (each element once), ndarray.sort (sorted permutation), dtype.type(i) (value if it fits else OverflowError)',
	'a generator whose body writes only its own locals is treated as the finite sequence it yields (find_kmers); its first-iteration exception is raised at the call',
	'attrs-generated __init__ / __attrs_init__ store their arguments in the fields',
]
ASSUMPTIONS = TRUSTED + [
	'k <= 32 and 1 <= len(prefix) < 2^31, len(seq) < 2^31 (machine-integer bounds, in requires)',
	'str inputs are ASCII (otherwise UnicodeEncodeError is raised, which is part of the contracts)',
	'kvalid/kindex are opaque spec functions in the callers; their definitions are revealed only in KmerMatch.kmer_index',
]


def _kspec_case(ks):
	if not isinstance(ks, dict) or not isinstance(ks.get('k'), int) or not isinstance(ks.get('prefix'), list):
		return None
	return ks['k'], [b % 256 for b in ks['prefix']]


def _case_for(label, inp):
	fn = label.split('[')[0].split('.')[-1]
	inst = label.split('[')[1].rstrip(']').split(',') if '[' in label else ['bytes']
	typ = inst[0] if inst[0] in ('bytes', 'bytearray', 'str', 'Seq') else 'bytes'
	acc = inst[1] if len(inst) > 1 and inst[1] in ('array', 'set', 'default') else 'default'
	if fn == 'kmer_index':
		s = inp.get('self')
		if not isinstance(s, dict):
			return None
		kc = _kspec_case(s.get('kmerspec'))
		seq = s.get('seq')
	else:
		kc = _kspec_case(inp.get('kmerspec'))
		seq = inp.get('seq', inp.get('seqs'))
	if kc is None or not isinstance(seq, list):
		return None
	seqs = seq if (seq and isinstance(seq[0], list)) else [seq]
	mod = 128 if typ == 'str' else 256
	seqs = [[b % mod for b in s] for s in seqs]
	return {'k': kc[0], 'prefix': kc[1], 'seqs': seqs, 'type': typ, 'acc': acc, 'single': not (seq and isinstance(seq[0], list))}


def replay(run, result, model, run_oracle):
	ob = result.failed_instance
	inp = RP.entry_inputs(model, ob)
	tried = []
	if inp and ob.entry:
		case = _case_for(ob.entry[2], inp)
		if case is not None and 1 <= case['k'] <= 12 and case['prefix'] and all(b in b'ACGTacgt' for b in case['prefix']):
			r = run_oracle('C01', run.repo_root, {'op': 'case', 'case': case})
			tried.append({'case': case, 'result': r})
			if r.get('ok') is False:
				return {'reproduced': True, 'case': case, 'expected': r.get('expected'), 'actual': r.get('actual'), 'how': 'solver model replayed on the real code'}
	return {'reproduced': False, 'tried': tried}


def bounded(run, run_oracle):
	return run_oracle('C01', run.repo_root, {'op': 'bounded', 'tier': run.tier, 'seed': run.seed})
