"""C13 - multi-file signature computation keeps file order under every completion order."""
import z3
from pyvc.values import *
from pyvc.interp import Obligation
from pyvc.libspec.core import LIB as _CORE
from pyvc.libspec import conc as _conc
from pyvc.contracts import *
from contracts import specns, calc_files
from contracts.calc_files import *

LIB = dict(_CORE)
SPECNS = specns.NS


def targets(tier):
	t = []
	for conc in (None, 'threads', 'processes', 'bogus'):
		t.append((CA + 'calc_file_signatures', f'{conc},own-executor', {'concurrency': Const(conc), 'executor': Const(None)}))
	from pyvc.interp import ExtObj
	t.append((CA + 'calc_file_signatures', 'caller-executor', {'concurrency': Const('processes'), 'executor': Const(ExtObj('executor'))}))
	return t


TRUSTED = [
	'concurrent.futures: submit returns a fresh future standing for the call; as_completed yields every future of the collection exactly once in an ARBITRARY order; result() returns the value of the call or re-raises its exception; leaving the executor context does not alter results; pickling of arguments/results in process mode is faithful',
	'calc_file_signature(kspec, file) is a function of its arguments (filesig) - its content is C01/C06',
	'gambit.util.progress helpers (iter_progress / get_progress / meter.increment) wrap the iterable in order and have no effect on program values',
	'SignatureList.__init__ stores the list and kmerspec (abstract contract; verified against the real constructor in C20)',
]
ASSUMPTIONS = TRUSTED


def register(reg):
	calc_files.register(reg)


def bounded(run, run_oracle):
	return run_oracle('C13', run.repo_root, {'op': 'bounded', 'tier': run.tier, 'seed': run.seed})
