"""Executable check for C04 on the real SQLite/HDF5 test database: permuted and padded signature IDs, completeness
violations, id_attr absent, directory layouts for locate_files (bounded stand-in for locate_files)."""
import os
import random
import shutil
import tempfile


def _dbdir():
	import gambit
	here = os.path.dirname(os.path.dirname(os.path.dirname(gambit.__file__)))
	for cand in (os.path.join(here, 'tests', 'data', 'testdb_210818'), '/repo/tests/data/testdb_210818'):
		if os.path.isdir(cand):
			return cand
	raise RuntimeError('test database not found')


_cache = {}


def _load():
	if 'x' not in _cache:
		from gambit.db import ReferenceDatabase
		from gambit.sigs import SignatureArray
		db = ReferenceDatabase.load_from_dir(_dbdir())
		sigs = SignatureArray(db.signatures)
		_cache['x'] = (db, sigs, list(db.signatures.ids), db.signatures.meta)
	return _cache['x']


def run_case(case):
	import numpy as np
	from gambit.db import ReferenceDatabase
	from gambit.db.refdb import DatabaseLoadError
	from gambit.sigs import SignatureList, AnnotatedSignatures, SignaturesMeta
	from gambit.metric import jaccarddist
	from gambit.query import query, QueryParams
	kind = case['kind']
	if kind == 'locate':
		tmp = tempfile.mkdtemp(prefix='c04_')
		try:
			for name in case['files']:
				open(os.path.join(tmp, name), 'w').close()
			for name in case.get('dirs', []):
				os.mkdir(os.path.join(tmp, name))
			ng = sum(1 for f in case['files'] + case.get('dirs', []) if os.path.splitext(f)[1] in ('.gdb', '.db'))
			ns = sum(1 for f in case['files'] + case.get('dirs', []) if os.path.splitext(f)[1] in ('.gs', '.h5'))
			try:
				g, s = ReferenceDatabase.locate_files(tmp)
				act = 'found'
				okfound = os.path.splitext(g)[1] in ('.gdb', '.db') and os.path.splitext(s)[1] in ('.gs', '.h5')
			except DatabaseLoadError:
				act, okfound = 'DatabaseLoadError', True
			exp = 'found' if (ng == 1 and ns == 1) else 'DatabaseLoadError'
			return {'ok': exp == act and okfound, 'expected': exp, 'actual': act}
		finally:
			shutil.rmtree(tmp, ignore_errors=True)
	if kind == 'idattr':
		return _idattr_case(case)
	db, sigs, ids, meta = _load()
	rnd = random.Random(case.get('seed', 0))
	n = len(ids)
	order = list(range(n))
	rnd.shuffle(order)
	entries = [(ids[i], sigs[i]) for i in order]
	for x in range(case.get('extra', 0)):
		entries.insert(rnd.randrange(len(entries) + 1), (f'unrelated-{x}', np.array(sorted(rnd.sample(range(4096), 20)), dtype=sigs.dtype)))
	drop = case.get('drop', 0)
	dropped = 0
	if drop:
		keep = []
		for e in entries:
			if dropped < drop and not str(e[0]).startswith('unrelated'):
				dropped += 1
				continue
			keep.append(e)
		entries = keep
	id_attr = meta.id_attr if case.get('id_attr', True) else None
	new = AnnotatedSignatures(SignatureList([e[1] for e in entries], sigs.kmerspec), np.array([e[0] for e in entries]), SignaturesMeta(id_attr=id_attr))
	try:
		db2 = ReferenceDatabase(db.genomeset, new)
	except TypeError:
		return {'ok': id_attr is None, 'expected': 'TypeError iff id_attr is None', 'actual': 'TypeError'}
	except ValueError:
		return {'ok': bool(drop) and id_attr is not None, 'expected': 'ValueError iff a genome has no signature', 'actual': 'ValueError'}
	if drop or id_attr is None:
		return {'ok': False, 'expected': 'an error', 'actual': 'database constructed'}
	problems = []
	if len(db2.genomes) != n or len(db2.sig_indices) != n:
		problems.append('wrong number of genomes')
	if list(db2.sig_indices) != sorted(set(db2.sig_indices)):
		problems.append('sig_indices not strictly increasing')
	for g, si in zip(db2.genomes, db2.sig_indices):
		if getattr(g, meta.id_attr) != new.ids[si]:
			problems.append(f'genome {g.key} paired with signature id {new.ids[si]}')
			break
	if set(g.key for g in db2.genomes) != set(g.key for g in db.genomes):
		problems.append('not every genome of the set is present')
	# every reported distance comes from the genome's own signature
	q = sigs[rnd.randrange(n)]
	res = query(db2, [q], QueryParams(chunksize=case.get('chunksize', 7), report_closest=n))
	by_key = {ids[i]: float(jaccarddist(q, sigs[i])) for i in range(n)}
	for m in res.items[0].closest_genomes:
		if float(m.distance) != by_key[getattr(m.genome, meta.id_attr)]:
			problems.append(f'distance reported for {m.genome.key} is not the distance to its own signature')
			break
	return {'ok': not problems, 'expected': 'each genome paired with the signature carrying its ID', 'actual': problems or 'ok'}


def _idattr_case(case):
	"""a fresh genome set (in-memory SQLite) paired through one of the four identifier attributes; optionally two genomes that
	share the identifier value (possible for ncbi_id: unique only together with ncbi_db) or a genome without a value"""
	import numpy as np
	from sqlalchemy import create_engine
	from sqlalchemy.orm import sessionmaker
	from gambit.db import ReferenceDatabase
	from gambit.db.models import Base, ReferenceGenomeSet, Genome, AnnotatedGenome, Taxon
	from gambit.db.sqla import ReadOnlySession
	from gambit.kmers import KmerSpec
	from gambit.sigs import SignatureList, AnnotatedSignatures, SignaturesMeta
	from gambit.metric import jaccarddist
	from gambit.query import query, QueryParams
	rnd = random.Random(case['seed'])
	attr = case['attr']
	n = case.get('n', 5)
	engine = create_engine('sqlite://')
	Base.metadata.create_all(engine)
	session = sessionmaker(engine)()
	gset = ReferenceGenomeSet(key='set', version='1', name='set')
	session.add(gset)
	taxon = Taxon(key='t1', name='taxon 1', rank='species', distance_threshold=0.5, genome_set=gset)
	session.add(taxon)
	vals = []
	for i in range(n):
		g = Genome(key=f'key{i}', description=f'genome {i}', ncbi_db='assembly', ncbi_id=1000 + i, genbank_acc=f'GCA_{i:05d}.1', refseq_acc=f'GCF_{i:05d}.1')
		if case.get('dup') is not None and i == n - 1:
			g.ncbi_db, g.ncbi_id = 'nuccore', 1000 + case['dup']         # same ncbi_id as an earlier genome, another Entrez database
		if case.get('null') == i and attr != 'key':
			setattr(g, attr, None)
		session.add(AnnotatedGenome(genome=g, genome_set=gset, organism=f'org {i}', taxon=taxon))
		vals.append(getattr(g, attr))
	session.commit()
	ks = KmerSpec(5, 'AT')
	sigs = [np.array(sorted(rnd.sample(range(4 ** 5), rnd.randrange(3, 30))), dtype=ks.index_dtype) for _ in range(n)]
	entries = [(v, sg) for v, sg in zip(vals, sigs) if v is not None]
	seen, uniq = set(), []
	for v, sg in entries:
		if v not in seen:
			seen.add(v)
			uniq.append((v, sg))
	rnd.shuffle(uniq)
	ids = np.array([v for v, _ in uniq]) if attr != 'ncbi_id' else np.array([v for v, _ in uniq], dtype=int)
	rs = AnnotatedSignatures(SignatureList([sg for _, sg in uniq], ks), ids, SignaturesMeta(id_attr=attr))
	incomplete = case.get('dup') is not None and attr == 'ncbi_id' or (case.get('null') is not None and attr != 'key')
	try:
		db = ReferenceDatabase(gset, rs)
	except (ValueError, RuntimeError, TypeError, KeyError) as e:
		return {'ok': bool(incomplete), 'expected': 'an error iff some genome has no signature of its own', 'actual': type(e).__name__}
	if incomplete:
		return {'ok': False, 'expected': 'loading fails: a genome has no signature of its own', 'actual': f'database with {len(db.genomes)} of {n} genomes'}
	problems = []
	if len(db.genomes) != n:
		problems.append(f'{len(db.genomes)} genomes instead of {n}')
	for g, si in zip(db.genomes, db.sig_indices):
		if getattr(g, attr) != rs.ids[si]:
			problems.append(f'genome {g.key} paired with signature id {rs.ids[si]}')
	q = sigs[rnd.randrange(n)]
	res = query(db, [q], QueryParams(report_closest=n))
	truth = {vals[i]: float(jaccarddist(q, sigs[i])) for i in range(n)}
	for m in res.items[0].closest_genomes:
		if float(m.distance) != truth[getattr(m.genome, attr)]:
			problems.append(f'distance reported for {m.genome.key} is not the distance to its own signature')
			break
	if len(res.items[0].closest_genomes) != n:
		problems.append('not every genome has a reported distance')
	return {'ok': not problems, 'expected': 'each genome paired with the signature carrying its ID', 'actual': problems or 'ok'}


def bounded(tier, seed):
	rnd = random.Random(seed)
	cases = []
	for i in range(6 if tier == 'quick' else 6000):
		cases.append({'kind': 'pair', 'seed': rnd.randrange(10 ** 6), 'extra': rnd.choice([0, 1, 5, 40]), 'chunksize': rnd.choice([1, 7, 1000])})
	cases += [{'kind': 'pair', 'seed': 1, 'drop': 1}, {'kind': 'pair', 'seed': 2, 'drop': 3, 'extra': 5}, {'kind': 'pair', 'seed': 3, 'id_attr': False}]
	for attr in ('key', 'genbank_acc', 'refseq_acc', 'ncbi_id'):
		cases.append({'kind': 'idattr', 'attr': attr, 'seed': rnd.randrange(10 ** 6), 'n': rnd.choice([3, 6])})
		cases.append({'kind': 'idattr', 'attr': attr, 'seed': rnd.randrange(10 ** 6), 'n': 5, 'null': 2})
		cases.append({'kind': 'idattr', 'attr': attr, 'seed': rnd.randrange(10 ** 6), 'n': 5, 'dup': 1})
	names_g, names_s = ['a.gdb', 'b.db'], ['a.gs', 'b.h5']
	for gs in ([], ['a.gdb'], ['b.db'], ['a.gdb', 'b.db'], ['a.gdb', 'c.gdb']):
		for ss in ([], ['a.gs'], ['b.h5'], ['a.gs', 'b.h5']):
			cases.append({'kind': 'locate', 'files': gs + ss + ['notes.txt', 'x.gdb.bak']})
	cases.append({'kind': 'locate', 'files': ['a.gdb', 'a.gs'], 'dirs': ['sub.gs']})
	n, failures, sample = 0, [], []
	for c in cases:
		r = run_case(c)
		n += 1
		if len(sample) < 2:
			sample.append({'case': c, 'result': r})
		if not r.get('ok'):
			failures.append({'case': c, 'expected': r.get('expected'), 'actual': r.get('actual'), 'class': c['kind']})
	return {'tool': 'real ReferenceDatabase on the bundled SQLite/HDF5 database with permuted/padded/incomplete signature IDs; real locate_files on generated directories (bounded stand-in for locate_files); fresh genome sets paired through each of the four identifier attributes incl. missing and shared identifier values',
	        'bound': f'{len(cases)} cases', 'cases': n, 'failures': failures[:4], 'samples': sample}
