"""Runs the executable-spec harness of one property against the real code (in /venv/bin/python).
stdin: {"op": "case", "case": {...}} | {"op": "bounded", "tier": ..., "seed": ...}; stdout: one JSON line."""
import importlib
import json
import sys
import traceback
import os

sys.path.insert(0, os.path.dirname(os.path.dirname(os.path.abspath(__file__))))


def main():
	pid = sys.argv[1]
	req = json.loads(sys.stdin.read())
	mod = importlib.import_module(f'specs.{pid}_oracle')
	_rc = mod.run_case

	def safe_run_case(case):
		# an exception the executable spec does not predict is a failure of that case, not of the harness
		try:
			return _rc(case)
		except Exception as e:
			return {'ok': False, 'expected': 'no unexpected exception', 'actual': 'raised ' + ''.join(traceback.format_exception_only(type(e), e)).strip()[:500]}
	recorded = []

	def recording_run_case(case):
		r = safe_run_case(case)
		if req.get('op') == 'bounded' and isinstance(r, dict) and r.get('ok') is True and len(recorded) < 4000:
			recorded.append(case)
		return r
	mod.run_case = recording_run_case
	try:
		if req['op'] == 'case':
			res = mod.run_case(req['case'])
		elif req['op'] == 'bounded':
			res = mod.bounded(req.get('tier', 'quick'), int(req.get('seed', 0)))
			# history amplifier: cases that passed are run AGAIN at the end of the process, after everything else the run did
			# (other databases, parameters, failing calls): a result that now differs means state leaked between calls
			if isinstance(res, dict) and not res.get('failures') and recorded:
				import random as _r
				rr = _r.Random(12345)
				again = recorded[:10] + rr.sample(recorded, min(40, len(recorded)))
				mod.run_case = safe_run_case
				for c in again[::-1]:
					r2 = safe_run_case(c)
					if not (isinstance(r2, dict) and r2.get('ok') is True):
						res.setdefault('failures', []).append({'case': c, 'expected': 'same (passing) result as the first time this case ran in this process',
						                                       'actual': r2.get('actual') if isinstance(r2, dict) else r2, 'class': 'history-rerun'})
						break
				res['history_reruns'] = len(again)
		elif req['op'] == 'search':
			res = mod.search(req)
		else:
			res = {'error': 'unknown op'}
	except Exception:
		res = {'error': traceback.format_exc()[-3000:]}
	print(json.dumps(res, default=str))


if __name__ == '__main__':
	main()
