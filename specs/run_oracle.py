"""Runs the executable-spec harness of one property against the real code (in /venv/bin/python).
stdin: {"op": "case", "case": {...}} | {"op": "bounded", "tier": ..., "seed": ...}; stdout: one JSON line."""
import importlib
import json
import sys
import traceback
import os

sys.path.insert(0, os.path.dirname(os.path.dirname(os.path.abspath(__file__))))


def main():
	pid = sys.argv[1]
	req = json.loads(sys.stdin.read())
	mod = importlib.import_module(f'specs.{pid}_oracle')
	_rc = mod.run_case

	def safe_run_case(case):
		# an exception the executable spec does not predict is a failure of that case, not of the harness
		try:
			return _rc(case)
		except Exception as e:
			return {'ok': False, 'expected': 'no unexpected exception', 'actual': 'raised ' + ''.join(traceback.format_exception_only(type(e), e)).strip()[:500]}
	mod.run_case = safe_run_case
	try:
		if req['op'] == 'case':
			res = mod.run_case(req['case'])
		elif req['op'] == 'bounded':
			res = mod.bounded(req.get('tier', 'quick'), int(req.get('seed', 0)))
		elif req['op'] == 'search':
			res = mod.search(req)
		else:
			res = {'error': 'unknown op'}
	except Exception:
		res = {'error': traceback.format_exc()[-3000:]}
	print(json.dumps(res, default=str))


if __name__ == '__main__':
	main()
