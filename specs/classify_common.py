"""Shared helpers for the classification oracles (C03, C09, C10): build real ORM objects (no session) from a
plain description and compute the specified results with lists and sets only."""
import itertools
import random


def build(case):
	"""case: {'taxa': [{'parent': i|None, 'thr': x|None, 'report': bool}], 'genomes': [taxon index]} -> (taxa, genomes)"""
	from gambit.db.models import Taxon, AnnotatedGenome, Genome
	taxa = []
	for i, t in enumerate(case['taxa']):
		# primary keys as every GAMBIT database file has them (genome set 1, taxa 1..n): many databases are seen by one process
		taxa.append(Taxon(id=i + 1, genome_set_id=1, key=f't{i}', name=f'taxon{i}', distance_threshold=t.get('thr'), report=bool(t.get('report', True))))
	for i, t in enumerate(case['taxa']):
		if t.get('parent') is not None:
			taxa[i].parent = taxa[t['parent']]
	genomes = []
	for j, ti in enumerate(case['genomes']):
		g = Genome(id=j + 1, key=f'g{j}', description=f'genome {j}')
		genomes.append(AnnotatedGenome(genome=g, taxon=taxa[ti]))
	return taxa, genomes


def lineage(case, ti):
	out = []
	while ti is not None:
		out.append(ti)
		ti = case['taxa'][ti].get('parent')
	return out


def f32(x):
	import numpy as np
	return float(np.float32(x))


def spec_match(case, ti, d):
	for x in lineage(case, ti):
		thr = case['taxa'][x].get('thr')
		if thr is not None and d <= thr:
			return x
	return None


def spec_next(case, ti, d):
	lin = lineage(case, ti)
	m = len(lin)
	for i, x in enumerate(lin):
		thr = case['taxa'][x].get('thr')
		if thr is not None and d <= thr:
			m = i
			break
	cands = [i for i in range(m) if case['taxa'][lin[i]].get('thr') is not None]
	return lin[max(cands)] if cands else None


def spec_report(case, ti):
	if ti is None:
		return None
	for x in lineage(case, ti):
		if case['taxa'][x].get('report', True):
			return x
	return None


def tid(taxa, t):
	return None if t is None else taxa.index(t)


def chains(max_depth, thr_opts, rep_opts=(True,)):
	"""all single-lineage taxonomies: taxon 0 is the leaf"""
	for depth in range(1, max_depth + 1):
		for thrs in itertools.product(thr_opts, repeat=depth):
			for reps in itertools.product(rep_opts, repeat=depth):
				yield [{'parent': (i + 1 if i + 1 < depth else None), 'thr': thrs[i], 'report': reps[i]} for i in range(depth)]


def random_forest(rnd, n):
	taxa = []
	for i in range(n):
		parent = rnd.choice([None] + list(range(i))) if i else None
		taxa.append({'parent': parent, 'thr': rnd.choice([None, None, 0.0, .1, .3, .5, .7, .9, 1.0]), 'report': rnd.random() < .7})
	return taxa
