"""Executable check for C12: signature files round-trip exactly; foreign files are refused."""
import os
import random
import shutil
import tempfile


def run_case(case):
	import numpy as np
	import h5py
	from gambit.kmers import KmerSpec
	from gambit.sigs import SignatureArray, SignatureList, AnnotatedSignatures, SignaturesMeta, dump_signatures, load_signatures
	from gambit.sigs.base import SignaturesFileError
	tmp = tempfile.mkdtemp(prefix='c12_')
	try:
		p = os.path.join(tmp, 'x.gs')
		if case['kind'] == 'foreign':
			what = case['what']
			if what == 'empty':
				open(p, 'wb').close()
			elif what == 'text':
				open(p, 'w').write('hello world, this is not a signature file\n' * 5)
			elif what == 'fasta':
				open(p, 'w').write('>seq1\nACGTACGTACGT\n')
			elif what == 'hdf5-other':
				with h5py.File(p, 'w') as f:
					f.create_dataset('values', data=np.arange(5))
					f.attrs['something'] = 1
			elif what == 'hdf5-magic-only':
				open(p, 'wb').write(b'\x89HDF\r\n\x1a\n' + b'\0' * 100)
			elif what == 'truncated':
				ks = KmerSpec(5, 'AT')
				dump_signatures(p, SignatureArray([np.arange(10, dtype=ks.index_dtype)] * 50, ks))
				data = open(p, 'rb').read()
				open(p, 'wb').write(data[:len(data) // 2])
			try:
				s = load_signatures(p)
				return {'ok': False, 'expected': 'SignaturesFileError', 'actual': f'loaded {len(s)} signatures'}
			except SignaturesFileError:
				return {'ok': True, 'expected': 'SignaturesFileError', 'actual': 'SignaturesFileError'}
			except OSError as e:
				# a damaged HDF5 file may be refused by the library itself; it must not load
				return {'ok': what in ('truncated', 'hdf5-magic-only'), 'expected': 'SignaturesFileError', 'actual': 'OSError'}
		rnd = random.Random(case['seed'])
		k = case['k']
		ks = KmerSpec(k, case.get('prefix', 'ATG'))
		dt = ks.index_dtype
		n = case['n']
		top = min(4 ** k, 2 ** 63)
		sigs = [np.array(sorted(set(rnd.randrange(top) for _ in range(rnd.choice([0, 0, 1, 3, 20])))), dtype=dt) for _ in range(n)]
		if n and rnd.random() < .5:
			sigs[rnd.randrange(n)] = np.array([top - 1], dtype=dt)
		if case.get('mixed_dtypes') and n:
			# a list-backed collection may hold arrays of different integer types (and empty arrays of any type): values must survive exactly
			pool = ['u8', 'i8', 'u4', 'i4', 'u2'] if k <= 16 else ['u8', 'i8']
			fitting = lambda s_: [d_ for d_ in pool if len(s_) == 0 or int(s_.max()) <= np.iinfo(d_).max]       # only dtypes that hold the values
			sigs = [s_.astype(rnd.choice(fitting(s_))) if fitting(s_) else s_ for s_ in sigs]
			sigs[rnd.randrange(n)] = np.array([])                      # float64, empty
			if k >= 27:
				sigs[0] = np.array(sorted({2 ** 53 + 1, 2 ** 53 + 3, top - 1, top - 2, 5}), dtype='u8')
				if n > 1:
					sigs[1] = np.array([3, 2 ** 53 + 5, 2 ** 62 + 1], dtype='i8')
		if case.get('sizes'):
			# signatures of prescribed sizes (size skew: tiny next to very large ones, powers of two and their neighbours)
			sigs = [np.arange(sz, dtype=dt) * max(1, (top // max(sz, 1)) // 2) + (i % 2) for i, sz in enumerate(case['sizes'])]
			n = len(sigs)
		idkind = case.get('ids', 'str')
		if idkind == 'str':
			ids = [rnd.choice(['g', 'é-ü', '名前', 'a b', '']) + str(i) for i in range(n)]
		elif idkind == 'int':
			ids = [i * 7 + 3 for i in range(n)]
		elif idkind == 'bytes':
			ids = np.array([b'id%d' % i for i in range(n)])
		else:
			ids = None
		meta = None
		if case.get('meta'):
			meta = SignaturesMeta(id=rnd.choice([None, 'set/1', 'ü']), name=rnd.choice([None, 'Name with ünicode']), version=rnd.choice([None, '1.0b2']),
			                      id_attr=rnd.choice([None, 'key', 'refseq_acc']), description=rnd.choice([None, 'multi\nline «desc»']),
			                      extra=rnd.choice([{}, {'a': [1, 2, {'b': None, 'ç': 'd'}], 'n': 1.5}, {'revision': {'num': 3, 'date': '2021'}}]))
		cont = case.get('container', 'array')
		if case.get('mixed_dtypes'):
			cont = 'list'
		base = SignatureArray(sigs, ks) if cont == 'array' else SignatureList(sigs, ks, dtype=dt)
		obj = AnnotatedSignatures(base, ids if idkind != 'none' else None, meta) if (idkind != 'none' or meta) else base
		kw = {}
		if case.get('compression'):
			kw = dict(compression=case['compression'])
			if case['compression'] == 'gzip':
				kw['compression_opts'] = rnd.choice([1, 9])
		dump_signatures(p, obj, **kw)
		with load_signatures(p) as loaded:
			problems = []
			if loaded.kmerspec != ks:
				problems.append('kmerspec differs')
			if len(loaded) != n:
				problems.append('length differs')
			exp_ids = list(range(n)) if idkind == 'none' else [x.decode() if isinstance(x, bytes) else x for x in list(ids)]
			if list(loaded.ids) != exp_ids:
				problems.append(f'ids differ: {list(loaded.ids)[:3]} vs {exp_ids[:3]}')
			m = meta or SignaturesMeta()
			if loaded.meta != m:
				problems.append(f'metadata differs: {loaded.meta} vs {m}')
			if np.dtype(loaded.dtype) != dt:
				problems.append('dtype differs')
			if case.get('meta'):
				# falsy-but-present metadata values are values, not "absent" (added after seeded change C12_agent9)
				fields = ('id', 'name', 'version', 'id_attr', 'description')
				variants = [dict.fromkeys(fields, '')] + [{f: ''} for f in fields] + [{'id': '0', 'name': ' ', 'description': '\n'},
					{'extra': {'': '', 'a': [], 'b': 0, 'c': False, 'd': None, 'e': {}}}, {'id': '', 'extra': {}}]
				tiny = SignatureArray([np.array([1, 2], dtype='u2')], ks)
				for v in variants:
					fm = SignaturesMeta(**v)
					p2 = str(p) + '.falsy.h5'
					dump_signatures(p2, AnnotatedSignatures(tiny, ['x'], fm))
					with load_signatures(p2) as l2:
						if l2.meta != fm:
							problems.append(f'metadata with falsy values differs: {l2.meta!r} vs {fm!r}')
					os.remove(p2)
			for i in range(n):
				if not (np.array_equal(loaded[i], sigs[i]) and loaded[i].dtype == dt):
					problems.append(f'signature {i} differs')
					break
			if n:
				import itertools
				ends = [None, 0, 1, 2, -1, -2, n - 1, n, n + 2, -n, -n - 1]
				grid = [] if case.get('sizes') else [slice(a, b, c) for a, b, c in itertools.product(ends, ends, [None, 1, 2, 3, -1, -2, -3, n, -n])] if n <= 12 else \
					[slice(rnd.choice(ends), rnd.choice(ends), rnd.choice([None, 1, 2, 3, -1, -2, -3, 7, -7])) for _ in range(60)]
				masks = [np.array([rnd.random() < .5 for _ in range(n)])]
				lists = []
				if n <= 6 and not case.get('sizes'):
					for m_ in range(2, 5):
						lists += [list(t_) for t_ in itertools.product(range(n), repeat=m_)]
					if len(lists) > 700:
						lists = rnd.sample(lists, 700)
					lists += [[-n, -n, n - 1][:max(1, min(3, n))], [t_ - n for t_ in range(n)][::-1]]
				for idx in lists + [slice(None), slice(1, None, 2), slice(None, None, -1), [n - 1, 0], [rnd.randrange(n) for _ in range(3)], [-1, 0, -n], np.array([0, n - 1, 0], dtype='i8')] + grid + masks:
					if isinstance(idx, np.ndarray) and idx.dtype == bool:
						sub = loaded[idx]
						exp = [sg for sg, keep in zip(sigs, idx) if keep]
						if len(sub) != len(exp) or not all(np.array_equal(a, b) for a, b in zip(sub, exp)):
							problems.append('indexing with a boolean mask differs')
							break
						continue
					sub = loaded[idx]
					exp = list(sigs)[idx] if isinstance(idx, slice) else [sigs[int(i)] for i in idx]
					if len(sub) != len(exp) or not all(np.array_equal(a, b) and a.dtype == dt for a, b in zip(sub, exp)) or sub.kmerspec != ks:
						problems.append(f'indexing with {idx} differs')
						break
		return {'ok': not problems, 'expected': 'identical after dump/load', 'actual': problems or 'ok'}
	finally:
		shutil.rmtree(tmp, ignore_errors=True)


def bounded(tier, seed):
	rnd = random.Random(seed)
	cases = [{'kind': 'foreign', 'what': w} for w in ('empty', 'text', 'fasta', 'hdf5-other', 'hdf5-magic-only', 'truncated')]
	for _ in range(40 if tier == 'quick' else 2500):
		cases.append({'kind': 'roundtrip', 'seed': rnd.randrange(10 ** 6), 'k': rnd.choice([1, 3, 4, 5, 8, 9, 16, 17, 32]), 'prefix': rnd.choice(['A', 'ATG', 'acgt']),
		              'n': rnd.choice([1, 1, 2, 5, 30]), 'ids': rnd.choice(['str', 'int', 'bytes', 'none']), 'meta': rnd.random() < .7,
		              'container': rnd.choice(['array', 'list']), 'compression': rnd.choice([None, None, 'gzip', 'lzf'])})
	for k in (5, 16, 27, 30, 32):
		for idk in ('str', 'none'):
			cases.append({'kind': 'roundtrip', 'seed': rnd.randrange(10 ** 6), 'k': k, 'prefix': 'ATG', 'n': rnd.choice([2, 4, 9]), 'ids': idk, 'meta': False, 'container': 'list',
			              'mixed_dtypes': True, 'compression': rnd.choice([None, 'gzip'])})
	# size skew: very large signatures between small ones, sizes around powers of two (write buffering / chunking boundaries)
	for sizes in ([4, 2 ** 20 + 1, 9], [3, 2 ** 16, 0, 2 ** 16 + 1, 5], [1, 2 ** 21 + 3, 2, 2 ** 20, 7], [0, 70000, 3, 2 ** 18 - 1, 1]):
		for cont in ('list', 'array'):
			for idk in ('str', 'none'):
				if tier == 'quick' and (cont == 'array' and idk == 'none'):
					continue
				cases.append({'kind': 'roundtrip', 'seed': 5, 'k': 12, 'prefix': 'ATG', 'n': len(sizes), 'sizes': sizes, 'ids': idk, 'meta': False, 'container': cont,
				              'compression': rnd.choice([None, 'gzip'])})
	n, failures, sample = 0, [], []
	for c in cases:
		r = run_case(c)
		n += 1
		if len(sample) < 2 and c['kind'] == 'roundtrip':
			sample.append({'case': c, 'result': r})
		if not r.get('ok'):
			failures.append({'case': c, 'expected': r.get('expected'), 'actual': r.get('actual'), 'class': c['kind']})
			if len(failures) >= 4:
				break
	return {'tool': 'real dump_signatures / load_signatures on generated collections; foreign byte contents', 'bound': f'{len(cases)} cases: k in 1..32, <= 30 signatures, 4 ID kinds, metadata, 2 containers, gzip/lzf filters; size-skewed collections with signatures of up to 2^21 values; 6 foreign files',
	        'cases': n, 'failures': failures, 'samples': sample}
