"""Executable check for C05: every bulk distance computation against the two-signature distance, bit for bit."""
import itertools
import os
import random
import shutil
import struct
import tempfile


def _bits(x):
	return struct.unpack('<I', struct.pack('<f', float(x)))[0]


def _mk(kind, sigs, ks, tmp):
	from gambit.sigs import SignatureArray, SignatureList, dump_signatures, load_signatures
	if kind == 'plain':
		return list(sigs)
	if kind == 'list':
		return SignatureList(sigs, ks)
	if kind == 'array':
		return SignatureArray(sigs, ks)
	p = os.path.join(tmp, f'r{random.random()}.gs')
	dump_signatures(p, SignatureArray(sigs, ks))
	return load_signatures(p)


def run_case(case):
	import numpy as np
	from gambit.kmers import KmerSpec
	from gambit.metric import jaccarddist, jaccarddist_array, jaccarddist_matrix, jaccarddist_pairwise, num_pairs
	from gambit._cython.threads import omp_set_num_threads
	from gambit.util.misc import chunk_slices
	kind = case['kind']
	if kind == 'chunks':
		n, size = case['n'], case['size']
		try:
			got = [(s.start, s.stop, s.step) for s in chunk_slices(n, size)]
		except ValueError:
			got = 'ValueError'
		exp = 'ValueError' if size <= 0 else [(a, a + size, None) for a in range(0, max(n, 0), size)]
		cover = got == 'ValueError' or [i for s in got for i in range(n)[slice(*s)]] == list(range(max(n, 0)))
		return {'ok': exp == got and cover, 'expected': exp if isinstance(exp, str) else exp[:4], 'actual': got if isinstance(got, str) else got[:4]}
	rnd = random.Random(case.get('seed', 0))
	k = case.get('k', 5)
	ks = KmerSpec(k, 'AT')
	dt = case.get('dtype', str(ks.index_dtype))
	universe = range(4 ** k)
	def sig():
		m = rnd.choice([0, 0, 1, 2, 5, 20, 60])
		return np.array(sorted(rnd.sample(universe, min(m, len(universe)))), dtype=dt)
	nq, nr = case['nq'], case['nr']
	queries = [sig() for _ in range(nq)]
	refs = [sig() for _ in range(nr)]
	if case.get('mixed_ref_dtypes') and nr:
		# a plain / list-backed collection may hold signatures of different integer types; later ones exceed the range of the first
		refs = [r.astype('u2') if i == 0 else (np.array(sorted(set(int(v) for v in r.tolist()) | {2 ** 16 + int(v) for v in refs[0].tolist()[:3]} | {2 ** 33 + i}), dtype='u8') if i % 2 else r.astype('u4'))
		        for i, r in enumerate(refs)]
		refs[0] = np.array(sorted(set(int(v) % 2 ** 16 for v in refs[0].tolist())), dtype='u2')
	if case.get('qdtype'):
		# queries stored WIDER than the references and holding indices the reference dtype cannot represent (they alias modulo 2^16 / 2^32)
		bits = 8 * np.dtype(dt).itemsize
		queries = [np.array(sorted(set(int(v) for v in r.tolist()[:3]) | {int(v) + 2 ** bits for v in r.tolist()[:4]} | {2 ** bits + 5}), dtype=case['qdtype'])
		           for r in (refs + [sig()])[:nq]] if nr else queries
	if case.get('distinct'):
		# nested signatures: every reference has a different distance to every other one and to the query
		refs = [np.array(sorted(range(0, 3 * (j + 1) + j * j)), dtype=dt) for j in range(nr)]
		queries = [np.array(sorted(range(0, 2 + 5 * q)), dtype=dt) for q in range(nq)]
	elif nr > 2 and rnd.random() < .5:
		refs[-1] = refs[0].copy()
	if nq and nr and rnd.random() < .5:
		queries[0] = refs[0].copy()
	tmp = tempfile.mkdtemp(prefix='c05_')
	try:
		if case.get('threads'):
			omp_set_num_threads(case['threads'])
		R = _mk(case.get('refs', 'array'), refs, ks, tmp)
		D = lambda a, b: _bits(jaccarddist(a, b))
		problems = []
		if kind == 'array':
			q = queries[0] if queries else sig()
			out = None
			if case.get('out') == 'given':
				out = np.full(nr, np.nan, dtype=np.float32)
			elif case.get('out') == 'strided':
				out = np.full((nr, 3), np.nan, dtype=np.float32)[:, 1]          # a non-contiguous view: must be written IN PLACE
			elif case.get('out') == 'badshape':
				out = np.empty(nr + 1, dtype=np.float32)
			elif case.get('out') == 'baddtype':
				out = np.empty(nr, dtype=np.float64)
			try:
				res = jaccarddist_array(q, R, out=out)
			except ValueError:
				return {'ok': case.get('out') in ('badshape', 'baddtype'), 'expected': 'ValueError only for a wrong buffer', 'actual': 'ValueError'}
			if case.get('out') in ('badshape', 'baddtype'):
				return {'ok': False, 'expected': 'ValueError', 'actual': 'accepted'}
			if out is not None and res is not out:
				problems.append('did not write to the given buffer')
			got = [_bits(x) for x in res]
			exp = [D(q, r) for r in refs]
			if got != exp or res.dtype != np.float32:
				problems.append('cells differ')
		elif kind == 'matrix':
			idx = case.get('ref_indices')
			Q = _mk(case.get('queries', 'plain'), queries, ks, tmp)
			shape_ = (nq, len(idx) if idx is not None else nr)
			out = np.full(shape_, np.nan, dtype=np.float32) if case.get('out') == 'given' else None
			if case.get('out') == 'fortran':
				out = np.full(shape_, np.nan, dtype=np.float32, order='F')
			elif case.get('out') == 'transposed':
				out = np.full(shape_[::-1], np.nan, dtype=np.float32).T
			elif case.get('out') == 'strided':
				out = np.full((shape_[0], shape_[1] * 2), np.nan, dtype=np.float32)[:, ::2]
			res = jaccarddist_matrix(Q, R, ref_indices=idx, chunksize=case.get('chunksize'), out=out)
			cols = idx if idx is not None else list(range(nr))
			exp = [[D(q, refs[c]) for c in cols] for q in queries]
			got = [[_bits(x) for x in row] for row in res]
			if got != exp or res.shape != (nq, len(cols)) or res.dtype != np.float32:
				problems.append('cells differ')
		elif kind == 'mutating':
			# ONE SignatureList object used for several bulk calls, modified in between (same length): every call must see its current content
			from gambit.sigs import SignatureList
			S = SignatureList(list(refs), ks)
			cur = list(refs)
			q = queries[0] if queries else sig()
			for step in range(case.get('steps', 4)):
				op = rnd.choice(['set', 'reverse', 'swap', 'none', 'inplace']) if step else 'none'
				if nr:
					if op == 'set':
						j = rnd.randrange(nr)
						S[j] = cur[j] = sig()
					elif op == 'reverse':
						S.reverse()
						cur.reverse()
					elif op == 'swap' and nr > 1:
						a_, b_ = rnd.sample(range(nr), 2)
						S[a_], S[b_] = S[b_], S[a_]
						cur[a_], cur[b_] = cur[b_], cur[a_]
					elif op == 'inplace':
						j = rnd.randrange(nr)
						if len(cur[j]):
							new = sig()
							m_ = min(len(new), len(cur[j]))
							if m_ and len(new) >= len(cur[j]):
								cur[j][:] = new[:len(cur[j])]      # the array object stored in the list is edited in place
				fn = rnd.choice(['array', 'matrix', 'matrix-chunked'])
				if fn == 'array':
					got = [_bits(x) for x in jaccarddist_array(q, S)]
				else:
					got = [_bits(x) for x in jaccarddist_matrix([q], S, chunksize=2 if fn.endswith('chunked') else None)[0]]
				exp = [D(q, r) for r in cur]
				if got != exp:
					problems.append(f'call {step} after {op}: cells differ from the current content of the list')
					break
		elif kind == 'pairwise':
			idx = case.get('indices')
			S = _mk(case.get('refs', 'array'), refs, ks, tmp)
			sel = idx if idx is not None else list(range(nr))
			n = len(sel)
			flat = case.get('flat', False)
			pout = None
			if case.get('out') == 'given':
				pout = np.full(num_pairs(n) if flat else (n, n), np.nan, dtype=np.float32)
			res = jaccarddist_pairwise(S, indices=idx, flat=flat, out=pout)
			if pout is not None and res is not pout:
				problems.append('did not write to the given buffer')
			if flat:
				exp = [D(refs[sel[i]], refs[sel[j]]) for i in range(n) for j in range(i + 1, n)]
				got = [_bits(x) for x in res]
				if len(res) != num_pairs(n):
					problems.append('wrong length')
			else:
				exp = [[D(refs[sel[i]], refs[sel[j]]) for j in range(n)] for i in range(n)]
				got = [[_bits(x) for x in row] for row in res]
				if any(got[i][i] != 0 for i in range(n)) or any(got[i][j] != got[j][i] for i in range(n) for j in range(n)):
					problems.append('not symmetric with zero diagonal')
			if got != exp:
				problems.append('cells differ')
		return {'ok': not problems, 'expected': 'bit-identical to the pairwise distance', 'actual': problems or 'ok'}
	finally:
		shutil.rmtree(tmp, ignore_errors=True)
		if case.get('threads'):
			omp_set_num_threads(4)


def cases(tier, seed):
	rnd = random.Random(seed)
	for n in (-1, 0, 1, 2, 5, 6, 7):
		for size in (-1, 0, 1, 2, 3, 5, 6, 8):
			yield {'kind': 'chunks', 'n': n, 'size': size}
	N = 40 if tier == 'quick' else 600
	conts = ['array', 'list', 'plain', 'hdf5']
	for i in range(N):
		nr = rnd.choice([0, 1, 2, 3, 7, 12])
		conts = ['array', 'list', 'plain', 'hdf5'] if nr else ['array', 'list', 'hdf5']     # an empty plain list carries no k-mer spec / dtype: outside the stated domain
		yield {'kind': 'array', 'nq': 1, 'nr': nr, 'refs': rnd.choice(conts), 'out': rnd.choice([None, 'given', 'given', 'badshape', 'baddtype']),
		       'threads': rnd.choice([None, 1, 2, 7, 16]), 'seed': rnd.randrange(10 ** 6), 'dtype': rnd.choice(['u2', 'u2', 'i4', 'u8'])}
		if i % 4 == 0 and nr:
			rd = rnd.choice(['u2', 'u4'])
			yield {'kind': 'array', 'nq': 1, 'nr': nr, 'refs': rnd.choice(conts), 'out': None, 'threads': None, 'seed': rnd.randrange(10 ** 6), 'dtype': rd, 'qdtype': 'u8' if rd == 'u4' else rnd.choice(['u4', 'u8', 'i8'])}
			yield {'kind': 'matrix', 'nq': 2, 'nr': nr, 'refs': rnd.choice(conts), 'queries': 'plain', 'ref_indices': None, 'chunksize': rnd.choice([None, 2]), 'out': None,
			       'threads': None, 'seed': rnd.randrange(10 ** 6), 'dtype': rd, 'qdtype': 'u8'}
		nq = rnd.choice([0, 1, 2, 4])
		idx = None
		if rnd.random() < .5 and nr:
			idx = [rnd.randrange(nr) for _ in range(rnd.choice([0, 1, nr, nr + 3]))]
		ncols = len(idx) if idx is not None else nr
		yield {'kind': 'matrix', 'nq': nq, 'nr': nr, 'refs': rnd.choice(conts), 'queries': rnd.choice(['plain', 'list', 'array']),
		       'ref_indices': idx, 'chunksize': rnd.choice([None, 1, 2, 3, max(ncols, 1), ncols + 1, 1000]), 'out': rnd.choice([None, 'given']),
		       'threads': rnd.choice([None, 1, 3, 16]), 'seed': rnd.randrange(10 ** 6)}
		if i % 3 == 0 and nr > 1:
			yield {'kind': rnd.choice(['array', 'matrix']), 'nq': 1, 'nr': nr, 'refs': rnd.choice(['plain', 'list']), 'queries': 'plain', 'out': None, 'ref_indices': None,
			       'chunksize': rnd.choice([None, 1, 2, 3]), 'threads': None, 'seed': rnd.randrange(10 ** 6), 'dtype': 'u4', 'mixed_ref_dtypes': True}
		if i % 4 == 1 and nr:
			# caller-supplied buffers that are not C-contiguous (Fortran order, a transposed view, every second column): written in place
			yield {'kind': 'matrix', 'nq': rnd.choice([1, 2, 3]), 'nr': nr, 'refs': rnd.choice(['array', 'hdf5', 'list']), 'queries': 'plain', 'ref_indices': None,
			       'chunksize': rnd.choice([None, 2]), 'out': rnd.choice(['fortran', 'transposed', 'strided']), 'threads': None, 'seed': rnd.randrange(10 ** 6)}
			yield {'kind': 'array', 'nq': 1, 'nr': nr, 'refs': rnd.choice(['array', 'list']), 'out': 'strided', 'threads': None, 'seed': rnd.randrange(10 ** 6), 'dtype': 'u2'}
		if i % 5 == 0:
			yield {'kind': 'mutating', 'nq': 1, 'nr': rnd.choice([1, 3, 6]), 'steps': 5, 'seed': rnd.randrange(10 ** 6), 'dtype': rnd.choice(['u2', 'i4'])}
		pidx = None
		if rnd.random() < .4 and nr:
			pidx = [rnd.randrange(nr) for _ in range(rnd.choice([0, 1, 2, nr, nr + 2]))]
		yield {'kind': 'pairwise', 'nq': 0, 'nr': nr, 'refs': rnd.choice(conts), 'indices': pidx, 'flat': rnd.random() < .5, 'out': rnd.choice([None, 'given']),
		       'threads': rnd.choice([None, 1, 5, 16]), 'seed': rnd.randrange(10 ** 6)}


def many_refs_cases(tier):
	"""many references against small chunk sizes (every column must be written whatever the number of chunks)"""
	for nr in (51, 52, 53, 97, 128, 200, 333) + ((1001, 2003) if tier != 'quick' else ()):
		for cs in (10, 7, 3, 50, None):
			yield {'kind': 'matrix', 'nq': 2, 'nr': nr, 'refs': 'array' if nr % 2 else 'list', 'queries': 'plain', 'ref_indices': None, 'chunksize': cs, 'out': 'given', 'seed': nr}


def selection_cases(tier):
	"""Small-scope exhaustive: EVERY index selection (any order, repeats allowed) of length <= L over 5 distinguishable references, x every chunk size."""
	nr = 5
	L = 4 if tier == 'quick' else 5
	conts = ['array', 'list', 'hdf5', 'plain']
	t = 0
	for m in range(0, L + 1):
		for idx in itertools.product(range(nr), repeat=m):
			t += 1
			cont = conts[t % 4]
			for cs in ([None, 1, 2, 3, 4] if m > 1 else [None, 1]):
				if cs is not None and cs >= m and m > 1 and cs != m:
					continue
				yield {'kind': 'matrix', 'nq': 2 if t % 7 == 0 else 1, 'nr': nr, 'refs': cont, 'queries': 'plain', 'ref_indices': list(idx), 'chunksize': cs, 'distinct': True, 'seed': 1}
			yield {'kind': 'pairwise', 'nq': 0, 'nr': nr, 'refs': cont, 'indices': list(idx), 'flat': t % 2 == 0, 'distinct': True, 'seed': 1}
	# index arrays given as ndarray / negative-free large selections with long ascending-looking runs
	for idx in ([0, 2, 1, 3, 7, 6], [1, 3, 3, 4], [2, 4, 3, 5], [5, 4, 3, 2, 1, 0], [0, 1, 2, 3, 4, 5, 7, 6], [3, 3, 3, 3], [7, 0, 1, 2, 3, 4, 5, 6]):
		for cs in (None, 1, 2, 3, 4, 5, 8):
			for cont in conts:
				yield {'kind': 'matrix', 'nq': 1, 'nr': 8, 'refs': cont, 'queries': 'plain', 'ref_indices': idx, 'chunksize': cs, 'distinct': True, 'seed': 2}
		yield {'kind': 'pairwise', 'nq': 0, 'nr': 8, 'refs': 'array', 'indices': idx, 'flat': True, 'distinct': True, 'seed': 2}


def bounded(tier, seed):
	n, failures, sample = 0, [], []
	for c in itertools.chain(cases(tier, seed), selection_cases(tier), many_refs_cases(tier)):
		reps = 3 if (c.get('threads') and c['kind'] != 'chunks') else 1     # repeated runs under the dynamic schedule
		for _ in range(reps):
			r = run_case(c)
			n += 1
			if not r.get('ok'):
				failures.append({'case': c, 'expected': r.get('expected'), 'actual': r.get('actual'), 'class': c['kind']})
				break
		if len(sample) < 3 and n % 37 == 5:
			sample.append({'case': c, 'result': r})
		if len(failures) >= 4:
			break
	return {'tool': 'real jaccarddist_array / _matrix / _pairwise / chunk_slices against a double loop over the two-signature distance (float32 bits compared)',
	        'bound': 'collections of <= 12 signatures x 4 containers x chunk sizes x index selections with repeats x 1..16 OpenMP threads x 3 repetitions; plus EVERY index selection of length <= 4 (thorough: 5) over 5 distinguishable references x every chunk size for the matrix and the pairwise forms', 'cases': n,
	        'failures': failures, 'samples': sample}
