"""Executable specification for C07, written from the property statement (positional base-4 code,
256-entry complement table); independent of the repository's implementation."""
import itertools
import random

DIG = {65: 0, 67: 1, 71: 2, 84: 3}
COMP = list(range(256))
for a, b in zip(b'ATCGatcg', b'TAGCtagc'):
	COMP[a] = b


def upper(b):
	return b - 32 if 97 <= b <= 122 else b


def spec_enc(w):
	"""-> int or 'ValueError'"""
	if len(w) > 32:
		return 'ValueError'
	v = 0
	for i, b in enumerate(w):
		d = DIG.get(upper(b))
		if d is None:
			return 'ValueError'
		v += d * 4 ** (len(w) - 1 - i)
	return v


def spec_rc(w):
	return bytes(COMP[b] for b in reversed(w))


def spec_dec(index, k):
	return bytes(b'ACGT'[(index // 4 ** (k - 1 - j)) % 4] for j in range(k))


def _call(f, *a):
	try:
		return f(*a)
	except ValueError:
		return 'ValueError'
	except OverflowError:
		return 'OverflowError'


def run_case(case):
	import gambit._cython.kmers as ck
	import gambit.kmers as gk
	kind = case['kind']
	if kind in ('enc', 'encrc', 'rc', 'py_enc', 'py_encrc', 'enc_rc_consistency'):
		w = bytes(case['w'])
	if kind == 'enc':
		exp, act = spec_enc(w), _call(ck.kmer_to_index, w)
	elif kind == 'py_enc':
		exp, act = spec_enc(w), _call(gk.kmer_to_index, w)
	elif kind == 'encrc':
		exp, act = spec_enc(spec_rc(w)), _call(ck.kmer_to_index_rc, w)
	elif kind == 'py_encrc':
		exp, act = spec_enc(spec_rc(w)), _call(gk.kmer_to_index_rc, w)
	elif kind == 'str_kmer':
		# text input: valid k-mers encode like their bytes; any character outside ACGTacgt (incl. non-ASCII ones) is REJECTED, never dropped
		text = case['text']
		valid = all(ch in 'ACGTacgt' for ch in text) and len(text) <= 32
		exp = [spec_enc(text.encode()), spec_enc(spec_rc(text.encode()))] if valid else 'rejected'
		res = []
		for f in (gk.kmer_to_index, gk.kmer_to_index_rc):
			try:
				res.append(f(text))
			except (ValueError, UnicodeError, OverflowError):
				res.append('rejected')
		act = res if valid else ('rejected' if all(r == 'rejected' for r in res) else res)
	elif kind == 'rc':
		import gambit.seq as gs
		exp, act = list(spec_rc(w)), list(_call(ck.revcomp, w))
		for name, f in (('gambit.seq.revcomp', gs.revcomp), ('gambit.kmers.revcomp', gk.revcomp)):   # every binding the library uses
			if exp == act:
				act = list(_call(f, w))
				if exp != act:
					act = [name] + act
		if exp == act and len(w) <= 32:
			# consistency of the two encoders with the reverse complement, through the library's own names
			a1, a2 = _call(gk.kmer_to_index_rc, w), _call(gk.kmer_to_index, bytes(gk.revcomp(w)))
			if a1 != a2:
				exp, act = ['kmer_to_index_rc(w) == kmer_to_index(revcomp(w))', a1], ['differs', a2]
	elif kind == 'dec':
		idx, k = int(case['index']), int(case['k'])
		if k < 0:
			exp = 'ValueError'
		elif idx < 0 or idx >= 2 ** 64:
			exp = 'OverflowError'
		else:
			exp = list(spec_dec(idx, k))
		act = _call(ck.index_to_kmer, idx, k)
		act = list(act) if isinstance(act, bytes) else act
	elif kind == 'roundtrip':
		idx, k = int(case['index']), int(case['k'])
		exp, act = idx, _call(ck.kmer_to_index, ck.index_to_kmer(idx, k))
		if exp == act:
			# the library's own binding, with the index given as a Python int and as the NumPy scalar a signature array yields
			import numpy as np
			for name, arg in (('int', idx), ('numpy.uint64', np.uint64(idx))) + ((('numpy.uint32', np.uint32(idx)),) if idx < 2 ** 32 else ()):
				km = _call(gk.index_to_kmer, arg, k)
				back = _call(gk.kmer_to_index, km) if isinstance(km, bytes) else km
				if back != idx:
					act = [f'gambit.kmers.index_to_kmer({name})', km.decode() if isinstance(km, bytes) else km, back]
					break
	else:
		return {'error': f'unknown case kind {kind}'}
	return {'ok': exp == act, 'expected': exp, 'actual': act}


def _cases(tier, seed):
	rnd = random.Random(seed)
	kmax = 5 if tier == 'quick' else 8
	for k in range(0, kmax + 1):
		for t in itertools.product(b'ACGT', repeat=k):
			w = list(t)
			yield {'kind': 'enc', 'w': w}
			yield {'kind': 'encrc', 'w': w}
			if k <= 4:
				yield {'kind': 'rc', 'w': w}
		for idx in range(4 ** k):
			yield {'kind': 'dec', 'index': idx, 'k': k}
			yield {'kind': 'roundtrip', 'index': idx, 'k': k}
	# all byte strings of length <= 2 over the full alphabet
	step = 1 if tier != 'quick' else 1
	for a in range(256):
		yield {'kind': 'enc', 'w': [a]}
		yield {'kind': 'encrc', 'w': [a]}
		yield {'kind': 'rc', 'w': [a]}
	for a in range(256):
		for b in range(0, 256, step):
			if tier == 'quick' and (a * 256 + b) % 7:
				continue
			yield {'kind': 'enc', 'w': [a, b]}
			yield {'kind': 'encrc', 'w': [a, b]}
			yield {'kind': 'rc', 'w': [a, b]}
	# boundary k-mers for every k up to 33
	for k in range(1, 34):
		for w in (b'A' * k, b'T' * k, b'A' * (k - 1) + b'T', b'T' + b'A' * (k - 1), b'a' * k, b't' * k):
			yield {'kind': 'enc', 'w': list(w)}
			yield {'kind': 'encrc', 'w': list(w)}
			yield {'kind': 'py_enc', 'w': list(w)}
		if k <= 32:
			for idx in (0, 4 ** k - 1, 1, 4 ** k // 2):
				yield {'kind': 'dec', 'index': idx, 'k': k}
				yield {'kind': 'roundtrip', 'index': idx, 'k': k}
	for idx in (2 ** 64 - 1, 2 ** 64, -1):
		yield {'kind': 'dec', 'index': idx, 'k': 32}
	# text k-mers: valid ones, and ones with a foreign character at every position (ASCII garbage, Latin-1, BOM, nbsp, CJK, emoji)
	for base in ('ACGT', 'acgtACGT', 'T' * 32, 'A' * 16 + 'C' * 16, 'G'):
		yield {'kind': 'str_kmer', 'text': base}
		for bad in ('N', ' ', '-', '\xe9', '\xa0', '\ufeff', '\u4e2d', '\U0001f9ec', '\x00', '\x7f', '\x80'):
			for pos in sorted({0, len(base) // 2, len(base)}):
				yield {'kind': 'str_kmer', 'text': base[:pos] + bad + base[pos:]}
				if len(base) > 1:
					yield {'kind': 'str_kmer', 'text': base[:pos] + bad + base[pos + 1:]}
	yield {'kind': 'str_kmer', 'text': 'A' * 16 + '\xa0' + 'A' * 16}
	yield {'kind': 'str_kmer', 'text': 'A' * 33}
	# indices that are not exactly representable as a double, for every k that can hold them
	for k in range(27, 33):
		for _ in range(6):
			yield {'kind': 'roundtrip', 'index': rnd.randrange(2 ** 53 + 1, 4 ** k) | 1, 'k': k}
	yield {'kind': 'dec', 'index': 0, 'k': -1}
	for _ in range(2000 if tier == 'quick' else 50000):
		k = rnd.randint(1, 32)
		w = [rnd.choice(b'ACGTacgt') for _ in range(k)]
		if rnd.random() < 0.2:
			w[rnd.randrange(k)] = rnd.randrange(256)
		yield {'kind': rnd.choice(['enc', 'encrc', 'rc', 'py_encrc']), 'w': w}
		yield {'kind': 'roundtrip', 'index': rnd.randrange(4 ** k), 'k': k}


def bounded(tier, seed):
	n = 0
	failures = []
	kinds = {}
	sample = []
	for c in _cases(tier, seed):
		n += 1
		kinds[c['kind']] = kinds.get(c['kind'], 0) + 1
		r = run_case(c)
		if len(sample) < 3 and n % 1000 == 7:
			sample.append({'case': c, 'result': r})
		if not r.get('ok'):
			failures.append({'case': c, 'expected': r.get('expected'), 'actual': r.get('actual'), 'class': c['kind']})
			if len(failures) >= 5:
				break
	return {'tool': 'exhaustive/random execution of the compiled kernels against the executable spec',
	        'bound': f'all k-mers k<={5 if tier == "quick" else 8}; byte strings len<=2 (quick: every 7th pair); boundary k-mers k<=33; random k<=32',
	        'cases': n, 'by_kind': kinds, 'samples': sample, 'failures': failures}
