"""Executable check for C13: the real calc_file_signatures driven by an executor stub that completes the
futures in a chosen order (all permutations for small n), plus the real thread pool."""
import itertools
import random
from concurrent.futures import Future, Executor


class StubExecutor(Executor):
	def __init__(self):
		self.submitted = []

	def submit(self, fn, *args, **kw):
		f = Future()
		self.submitted.append((f, fn, args, kw))
		return f

	def shutdown(self, wait=True, **kw):
		pass


def run_case(case):
	import numpy as np
	import gambit.sigs.calc as calc
	from gambit.kmers import KmerSpec
	n = case['n']
	perm = case['perm']
	bad = set(case.get('bad', []))
	mode = case.get('mode', 'stub')
	files = [f'file{i}' for i in range(n)]
	kspec = KmerSpec(3, 'AT')

	def fake_cfs(ks, file, **kw):
		i = files.index(file)
		if i in bad:
			raise OSError(f'cannot read {file}')
		return np.array([i], dtype=ks.index_dtype)

	orig_cfs, orig_ac = calc.calc_file_signature, calc.as_completed
	calc.calc_file_signature = fake_cfs
	try:
		if mode == 'stub':
			ex = StubExecutor()

			def fake_as_completed(fs):
				fs = list(fs)
				order = [ex.submitted[p] for p in perm]
				for f, fn, args, kw in order:
					assert f in fs
					try:
						f.set_result(fn(*args, **kw))
					except BaseException as e:
						f.set_exception(e)
					yield f
			calc.as_completed = fake_as_completed
			try:
				res = calc.calc_file_signatures(kspec, files, executor=ex)
			except OSError:
				res = 'raised'
		elif mode == 'sequential':
			try:
				res = calc.calc_file_signatures(kspec, files, concurrency=None)
			except OSError:
				res = 'raised'
		else:
			try:
				res = calc.calc_file_signatures(kspec, files, concurrency='threads', max_workers=case.get('workers', 3))
			except OSError:
				res = 'raised'
	finally:
		calc.calc_file_signature, calc.as_completed = orig_cfs, orig_ac
	exp = 'raised' if bad else list(range(n))
	act = res if res == 'raised' else [int(s[0]) if s is not None and len(s) == 1 else None for s in res]
	ok = exp == act and (res == 'raised' or (len(res) == n and res.kmerspec == kspec))
	return {'ok': bool(ok), 'expected': exp, 'actual': act}


def run_real_files(case):
	"""real FASTA files of chosen sizes through the real thread/process pools with few workers: the result must be in
	file order and equal to the single-file results"""
	import os, shutil, tempfile
	import numpy as np
	from gambit.kmers import KmerSpec
	from gambit.seq import SequenceFile
	from gambit.sigs.calc import calc_file_signatures, calc_file_signature
	tmp = tempfile.mkdtemp(prefix='c13_')
	try:
		rnd = random.Random(case.get('seed', 0))
		files = []
		for i, size in enumerate(case['sizes']):
			p = os.path.join(tmp, f'g{i}.fasta')
			with open(p, 'w') as f:
				f.write(f'>s{i}\n')
				f.write(''.join(rnd.choice('ACGT') for _ in range(size)) + '\n')
			files.append(SequenceFile(p, 'fasta'))
		ks = KmerSpec(4, 'AT')
		expected = [calc_file_signature(ks, f) for f in files]
		kw = dict(concurrency=case['mode'], max_workers=case['workers'])
		if case.get('own_executor'):
			from concurrent.futures import ThreadPoolExecutor
			with ThreadPoolExecutor(max_workers=case['workers']) as ex:
				res = calc_file_signatures(ks, files, executor=ex)
		else:
			res = calc_file_signatures(ks, files, **kw)
		ok = len(res) == len(files) and all(np.array_equal(a, b) for a, b in zip(res, expected))
		pos = [next((j for j, e in enumerate(expected) if np.array_equal(r, e)), None) for r in res]
		return {'ok': bool(ok), 'expected': list(range(len(files))), 'actual': pos}
	finally:
		shutil.rmtree(tmp, ignore_errors=True)


def run_real_bad(case):
	"""real files, one of which opens fine but fails AFTER the first reads (truncated / corrupt gzip, undecodable byte far into
	the file) or is missing: the whole call must raise, whatever the mode and the position of the bad file"""
	import gzip, os, shutil, tempfile
	from gambit.kmers import KmerSpec
	from gambit.seq import SequenceFile
	from gambit.sigs.calc import calc_file_signatures
	tmp = tempfile.mkdtemp(prefix='c13_')
	try:
		rnd = random.Random(case.get('seed', 0))
		files = []
		for i in range(case['n']):
			body = ''.join(f'>c{j}\n' + ''.join(rnd.choice('ACGT') for _ in range(20000)) + '\n' for j in range(case.get('contigs', 12)))
			if i != case['pos']:
				p = os.path.join(tmp, f'g{i}.fasta')
				open(p, 'w').write(body)
			elif case['how'] == 'missing':
				p = os.path.join(tmp, f'g{i}.fasta')
			elif case['how'] == 'truncated_gz':
				p = os.path.join(tmp, f'g{i}.fasta.gz')
				data = gzip.compress(body.encode())
				open(p, 'wb').write(data[:int(len(data) * .6)])
			elif case['how'] == 'corrupt_gz':
				p = os.path.join(tmp, f'g{i}.fasta.gz')
				data = bytearray(gzip.compress(body.encode()))
				for off in range(int(len(data) * .7), int(len(data) * .7) + 40):
					data[off] ^= 0xff
				open(p, 'wb').write(bytes(data))
			else:     # undecodable byte far into a plain file
				p = os.path.join(tmp, f'g{i}.fasta')
				raw = body.encode()
				cut = int(len(raw) * .8)
				open(p, 'wb').write(raw[:cut] + b'\xff\xfe' + raw[cut:])
			files.append(SequenceFile(p, 'fasta', 'auto'))
		ks = KmerSpec(4, 'AT')
		try:
			if case['mode'] == 'own_executor':
				from concurrent.futures import ThreadPoolExecutor
				with ThreadPoolExecutor(max_workers=2) as ex:
					res = calc_file_signatures(ks, files, executor=ex)
			else:
				res = calc_file_signatures(ks, files, concurrency=case['mode'], max_workers=case.get('workers', 2))
			act = f'returned {len(res)} signatures (sizes {[len(x) for x in res]})'
		except Exception as e:
			act = 'raised'
		return {'ok': act == 'raised', 'expected': 'raised', 'actual': act}
	finally:
		shutil.rmtree(tmp, ignore_errors=True)


def run_reuse_after_failure(case):
	"""one caller-supplied executor used for a call that fails part-way (truncated gzip as the LAST file) and then for a good call:
	the second call must return exactly the single-file signatures"""
	import gzip, os, shutil, tempfile
	import numpy as np
	from concurrent.futures import ThreadPoolExecutor, ProcessPoolExecutor
	from gambit.kmers import KmerSpec
	from gambit.seq import SequenceFile
	from gambit.sigs.calc import calc_file_signatures, calc_file_signature
	tmp = tempfile.mkdtemp(prefix='c13_')
	try:
		rnd = random.Random(case.get('seed', 0))
		def fasta(i, contigs=8):
			return ''.join(f'>c{i}_{j}\n' + ''.join(rnd.choice('ACGT') for _ in range(6000)) + '\n' for j in range(contigs))
		good = []
		for i in range(case.get('n', 3)):
			p = os.path.join(tmp, f'g{i}.fasta')
			open(p, 'w').write(fasta(i))
			good.append(SequenceFile(p, 'fasta', 'auto'))
		bad = os.path.join(tmp, 'bad.fasta.gz')
		blob = gzip.compress(fasta(99, 12).encode())
		open(bad, 'wb').write(blob[:int(len(blob) * .6)])
		ks = KmerSpec(5, 'AT')
		expected = [calc_file_signature(ks, f) for f in good]
		Pool = ThreadPoolExecutor if case['pool'] == 'threads' else ProcessPoolExecutor
		problems = []
		with Pool(max_workers=case.get('workers', 1)) as ex:
			first = good[:1] + [SequenceFile(bad, 'fasta', 'auto')]
			try:
				calc_file_signatures(ks, first, executor=ex)
				problems.append('the call with the truncated file did not fail')
			except Exception:
				pass
			for rep in range(2):
				res = calc_file_signatures(ks, good, executor=ex)
				if len(res) != len(good) or not all(np.array_equal(a, b) for a, b in zip(res, expected)):
					problems.append(f'call {rep + 1} after the failed one: signatures differ from the single-file results (sizes {[len(x) for x in res]} vs {[len(x) for x in expected]})')
					break
		return {'ok': not problems, 'expected': 'single-file results', 'actual': problems or 'ok'}
	finally:
		shutil.rmtree(tmp, ignore_errors=True)


_orig_run_case = run_case


def run_case(case):
	if case.get('kind') == 'real_files':
		return run_real_files(case)
	if case.get('kind') == 'real_bad':
		return run_real_bad(case)
	if case.get('kind') == 'reuse_after_failure':
		return run_reuse_after_failure(case)
	return _orig_run_case(case)


def bounded(tier, seed):
	rnd = random.Random(seed)
	n_cases, failures, sample = 0, [], []
	nmax = 5 if tier == 'quick' else 6
	def run(c):
		nonlocal n_cases
		try:
			r = run_case(c)
		except Exception as e:      # the real code raised something no file error explains
			import traceback
			r = {'ok': False, 'expected': 'one signature per file, in order', 'actual': 'raised ' + ''.join(traceback.format_exception_only(type(e), e)).strip()}
		n_cases += 1
		if len(sample) < 2 and n_cases % 50 == 3:
			sample.append({'case': c, 'result': r})
		if not r.get('ok'):
			failures.append({'case': c, 'expected': r['expected'], 'actual': r['actual'], 'class': 'order'})
	for n in range(0, nmax + 1):
		for perm in itertools.permutations(range(n)):
			run({'n': n, 'perm': list(perm)})
			if n and n <= 4:
				for b in range(n):
					run({'n': n, 'perm': list(perm), 'bad': [b]})
			if len(failures) >= 3:
				return {'cases': n_cases, 'failures': failures, 'samples': sample}
	# real files whose sizes come in every relative order, fewer workers than files
	sizes = [300, 3000, 30000, 60]
	for n in (3, 4):
		for perm in itertools.permutations(range(n)):
			if tier == 'quick' and n == 4 and rnd.random() < .6:
				continue
			run({'kind': 'real_files', 'sizes': [sizes[p] for p in perm], 'mode': 'threads', 'workers': rnd.choice([1, 2]), 'seed': n,
			     'own_executor': rnd.random() < .3})
	run({'kind': 'real_files', 'sizes': [3000, 300, 30000], 'mode': 'processes', 'workers': 2, 'seed': 5})
	for n in (0, 1, 4, 9):
		run({'n': n, 'perm': [], 'mode': 'sequential'})
		run({'n': n, 'perm': [], 'mode': 'threads', 'workers': rnd.choice([1, 2, 5])})
		if n:
			run({'n': n, 'perm': [], 'mode': 'threads', 'bad': [rnd.randrange(n)]})
			run({'n': n, 'perm': [], 'mode': 'sequential', 'bad': [rnd.randrange(n)]})
	# real files, one of which fails only after its first reads, or is missing: every mode x every position (n = 3)
	for how in ('truncated_gz', 'corrupt_gz', 'bad_bytes_late', 'missing'):
		for mode in (None, 'threads', 'processes', 'own_executor'):
			for pos in ((0, 1, 2) if (tier != 'quick' or mode in (None, 'threads')) else (rnd.randrange(3),)):
				run({'kind': 'real_bad', 'n': 3, 'pos': pos, 'how': how, 'mode': mode, 'seed': 3})
	for pool, workers in (('threads', 1), ('processes', 1), ('threads', 2)):
		run({'kind': 'reuse_after_failure', 'pool': pool, 'workers': workers, 'n': 3, 'seed': 7})
	return {'tool': 'real calc_file_signatures with an executor stub completing futures in every permutation; real thread pool; sequential mode',
	        'bound': f'all completion orders for n <= {nmax} files, each position of an unreadable file for n <= 4; real files that fail only after the first reads (truncated / corrupt gzip, undecodable byte late in the file) or are missing x 4 execution modes x positions', 'cases': n_cases,
	        'failures': failures[:3], 'samples': sample}
