"""Executable check for C08: the real CLI in-process on the bundled database and query genomes.  The row for a genome
must be the same whether it is queried alone or in any batch/order/channel/compression/core count/progress setting."""
import csv
import io
import json
import os
import random
import re
import shutil
import tempfile

FASTA_EXT = ('.fasta', '.fna', '.ffn', '.faa', '.frn', '.fa')


def _root():
	import gambit
	here = os.path.dirname(os.path.dirname(os.path.dirname(gambit.__file__)))
	for cand in (os.path.join(here, 'tests', 'data', 'testdb_210818'), '/repo/tests/data/testdb_210818'):
		if os.path.isdir(cand):
			return cand
	raise RuntimeError('test database not found')


def spec_label(path):
	"""file name without directory, '.gz' and one FASTA extension"""
	b = path.rsplit('/', 1)[-1]
	if b.endswith('.gz'):
		b = b[:-3]
	for e in FASTA_EXT:
		if b.endswith(e):
			return b[:-len(e)]
	return b


def ensure_gz(path, tmp):
	"""the bundled *.fasta.gz copies are git-ignored files that exist in this sandbox; if one is absent (a clean checkout) an
	equivalent gzip copy is made on the fly (same base name, so the same label)"""
	if not path.endswith('.gz') or os.path.exists(path):
		return path
	import gzip
	d = os.path.join(tmp, 'gzcopies')
	os.makedirs(d, exist_ok=True)
	dst = os.path.join(d, os.path.basename(path))
	with open(path[:-3], 'rb') as f, gzip.open(dst, 'wb') as g:
		g.write(f.read())
	return dst


def _cli(argv):
	from gambit.cli import cli
	import click
	try:
		cli.main(argv, standalone_mode=False)
		return 'ok'
	except click.ClickException as e:
		return 'ClickException: ' + e.format_message()
	except SystemExit as e:
		return 'ok' if not e.code else f'exit{e.code}'


def _rows(path, fmt):
	if fmt == 'csv':
		with open(path, newline='') as f:
			rows = list(csv.reader(f))
		return [tuple(r) for r in rows[1:]]
	data = json.load(open(path))
	out = []
	for it in data['items']:
		cg = it['closest_genomes'][0]
		out.append((it['query']['name'], json.dumps(it['predicted_taxon'], sort_keys=True), json.dumps(it['next_taxon'], sort_keys=True),
		            json.dumps([(g['genome']['key'], g['distance']) for g in it['closest_genomes']])))
	return out


_single = {}


def _single_row(genome, fmt, tmp):
	key = (genome, fmt)
	if key not in _single:
		root = _root()
		out = os.path.join(tmp, f'single_{len(_single)}.{fmt}')
		st = _cli(['--db', root, 'query', '--no-progress', '-f', fmt, '-o', out, os.path.join(root, 'queries', 'genomes', genome + '.fasta')])
		assert st == 'ok', st
		_single[key] = _rows(out, fmt)[0]
	return _single[key]


def _two_db_case(case):
	"""the same batch against database A, an edited copy B (same primary keys, renamed taxa, changed thresholds), and A again, in ONE process:
	a row depends on the genome and on the database it was queried against only"""
	import sqlite3, glob
	root = _root()
	tmp = tempfile.mkdtemp(prefix='c08_')
	try:
		db2 = os.path.join(tmp, 'db2')
		os.makedirs(db2)
		for f in glob.glob(os.path.join(root, '*.gdb')) + glob.glob(os.path.join(root, '*.gs')):
			shutil.copy(f, db2)
		con = sqlite3.connect(glob.glob(os.path.join(db2, '*.gdb'))[0])
		con.execute("UPDATE taxa SET name = name || ' (edited)'")
		con.execute("UPDATE taxa SET distance_threshold = distance_threshold * 0.05 WHERE distance_threshold IS NOT NULL AND id % 2 = 0")
		con.execute("UPDATE taxa SET distance_threshold = 1.0 WHERE distance_threshold IS NOT NULL AND id % 3 = 1")
		con.commit()
		con.close()
		gdir = os.path.join(root, 'queries', 'genomes')
		paths = [os.path.join(gdir, g + '.fasta') for g in case['genomes']]
		runs = []
		for which in (root, db2, root, db2):
			out = os.path.join(tmp, f'o{len(runs)}.csv')
			st = _cli(['--db', which, 'query', '--no-progress', '-o', out] + paths)
			if st != 'ok':
				return {'ok': False, 'expected': 'success', 'actual': st}
			runs.append(_rows(out, 'csv'))
		problems = []
		if runs[0] != runs[2]:
			problems.append('database A gives different rows after database B was queried in the same process')
		if runs[1] != runs[3]:
			problems.append('database B gives different rows the second time')
		exp_a = [_single_row(g, 'csv', tmp) for g in case['genomes']]
		if [tuple(r) for r in runs[0]] != [tuple(e) for e in exp_a]:
			problems.append('rows for database A differ from the single-genome runs')
		# independent expectation for B: the same command in a FRESH process that never saw database A
		import subprocess, sys
		outb = os.path.join(tmp, 'fresh.csv')
		env = dict(os.environ)
		pr = subprocess.run([sys.executable, '-c', 'import sys; from gambit.cli import cli; cli.main(sys.argv[1:], standalone_mode=False)',
		                     '--db', db2, 'query', '--no-progress', '-o', outb] + paths, capture_output=True, text=True, env=env)
		if not os.path.exists(outb):
			return {'error': 'fresh-process run failed: ' + pr.stderr[-400:]}
		if runs[1] != _rows(outb, 'csv'):
			problems.append('rows for database B differ from the rows a fresh process computes for B')
		for r in runs[1]:
			for col in (1, 7):      # predicted.name, next.name
				if r[col] and not r[col].endswith(' (edited)'):
					problems.append(f'row for {r[0]} queried against B shows a taxon name of A: {r[col]!r}')
		return {'ok': not problems, 'expected': 'rows depend on genome and database only', 'actual': problems[:3] or 'ok'}
	finally:
		shutil.rmtree(tmp, ignore_errors=True)


def run_case(case):
	kind = case['kind']
	if kind == 'twodb':
		return _two_db_case(case)
	if kind == 'label':
		from gambit.cli.common import get_file_id
		exp, act = spec_label(case['path']), get_file_id(case['path'])
		return {'ok': exp == act, 'expected': exp, 'actual': act}
	root = _root()
	tmp = tempfile.mkdtemp(prefix='c08_')
	try:
		genomes = case['genomes']
		fmt = case.get('fmt', 'csv')
		gz = case.get('gz', [False] * len(genomes))
		gdir = os.path.join(root, 'queries', 'genomes')
		paths = [ensure_gz(os.path.join(gdir, g + ('.fasta.gz' if z else '.fasta')), tmp) for g, z in zip(genomes, gz)]
		names = case.get('names')
		if names:
			# the same genomes copied under caller-chosen (possibly colliding) file names: only the label column may change
			import gzip
			gdir = os.path.join(tmp, 'in')
			new = []
			for src, rel in zip(paths, names):
				dst = os.path.join(gdir, rel)
				os.makedirs(os.path.dirname(dst), exist_ok=True)
				raw = (gzip.open if src.endswith('.gz') else open)(src, 'rb').read()
				if rel.endswith('.gz') and case.get('members', 1) > 1:
					m = case['members']
					with open(dst, 'wb') as f:      # multi-member gzip (cat a.gz b.gz / bgzip): decompresses to the concatenation
						for j in range(m):
							f.write(gzip.compress(raw[len(raw) * j // m:len(raw) * (j + 1) // m]))
					new.append(dst)
					continue
				with (gzip.open if rel.endswith('.gz') else open)(dst, 'wb') as f:
					f.write(raw)
				new.append(dst)
			paths = new
		out = os.path.join(tmp, 'out.' + fmt)
		argv = ['--db', root, 'query', '-f', fmt, '-o', out]
		argv.append('--progress' if case.get('progress') else '--no-progress')
		if case.get('cores'):
			argv += ['-c', str(case['cores'])]
		channel = case.get('channel', 'positional')
		if channel == 'positional':
			argv += paths
		elif channel == 'listfile':
			lf = os.path.join(tmp, 'list.txt')
			with open(lf, 'w') as f:
				for g, z, pth in zip(genomes, gz, paths):
					f.write((os.path.relpath(pth, gdir) if names else (os.path.basename(pth) if os.path.dirname(pth) == gdir else pth)) + '\n')
					if case.get('blank_lines'):
						f.write('\n')
			argv += ['-l', lf, '--ldir', gdir]
		elif channel == 'sigfile':
			sf = os.path.join(tmp, 'q.gs')
			st = _cli(['signatures', 'create', '--no-progress', '-k', '6', '-p', 'AT', '-o', sf] + paths)
			assert st == 'ok', st
			argv += ['-s', sf]
		st = _cli(argv)
		if st != 'ok':
			return {'ok': False, 'expected': 'success', 'actual': st}
		rows = _rows(out, fmt)
		exp = [_single_row(g, fmt, tmp) for g in genomes]
		if channel == 'sigfile':
			pass   # stored IDs are the file labels computed by `signatures create`
		labels = [spec_label(nm) for nm in names] if names else genomes
		exp = [(lab,) + tuple(e[1:]) for lab, e in zip(labels, exp)]
		ok = len(rows) == len(genomes) and all(tuple(r) == tuple(e) for r, e in zip(rows, exp)) and [r[0] for r in rows] == labels
		return {'ok': bool(ok), 'expected': [e[0:2] for e in exp], 'actual': [r[0:2] for r in rows]}
	finally:
		shutil.rmtree(tmp, ignore_errors=True)


def bounded(tier, seed):
	rnd = random.Random(seed)
	root = _root()
	allg = sorted(set(re.sub(r'\.fasta(\.gz)?$', '', f) for f in os.listdir(os.path.join(root, 'queries', 'genomes'))))
	cases = []
	stems = ['x', 'a.b', 'genome.1', 'GCF_000.2_ASM', 'weird.gz.name', 'fa', '.hidden', 'x.fasta', 'y.fa']
	for d in ('', 'dir/', '/abs/p.fa/', '../'):
		for stem in stems:
			for fe in FASTA_EXT + ('', '.txt', '.FASTA'):
				for ge in ('', '.gz'):
					cases.append({'kind': 'label', 'path': d + stem + fe + ge})
	if tier == 'quick':
		cases = rnd.sample(cases, 150)
	n_cli = 10 if tier == 'quick' else 80
	for _ in range(n_cli):
		k = rnd.choice([1, 2, 3, 5, 8])
		gs = rnd.sample(allg, k)
		if rnd.random() < .3 and k > 1:
			gs[-1] = gs[0]      # the same genome twice in one batch
		cases.append({'kind': 'cli', 'genomes': gs, 'gz': [rnd.random() < .4 for _ in gs], 'fmt': rnd.choice(['csv', 'csv', 'json']),
		              'channel': rnd.choice(['positional', 'listfile', 'sigfile']), 'cores': rnd.choice([None, 1, 2, 5]),
		              'progress': rnd.random() < .3, 'blank_lines': rnd.random() < .3})
	# many more genomes than workers (8x, 16x, 32x: batch sizes at which work may be handed to workers in chunks)
	for k, cores, channel in ((9, 1, 'positional'), (33, 2, 'listfile'), (len(allg), 6, 'positional')) + (() if tier == 'quick' else ((17, 1, 'listfile'), (len(allg), 3, 'positional'), (len(allg), 1, 'listfile'))):
		gs = rnd.sample(allg, min(k, len(allg)))
		cases.append({'kind': 'cli', 'genomes': gs, 'gz': [rnd.random() < .3 for _ in gs], 'fmt': 'csv', 'channel': channel, 'cores': cores, 'progress': False})
	# different genomes whose derived labels coincide (same file name in two directories, two FASTA extensions, plain + gzip)
	collide = [['run1/contigs.fasta', 'run2/contigs.fasta'], ['x.fasta', 'x.fna'], ['x.fa', 'x.fa.gz'], ['a/s.fasta', 'b/s.fasta', 'c/s.fasta.gz'], ['a/g.fasta', 'h.fasta', 'b/g.fna.gz']]
	for i, nm in enumerate(collide if tier == 'quick' else collide * 4):
		gs = rnd.sample(allg, len(nm))
		for channel in (('positional', 'listfile', 'sigfile') if tier != 'quick' else (('positional', 'listfile', 'sigfile')[i % 3], 'positional')):
			cases.append({'kind': 'cli', 'genomes': gs, 'names': nm, 'gz': [False] * len(gs), 'fmt': 'json' if i % 3 == 2 else 'csv', 'channel': channel,
			              'cores': rnd.choice([None, 2]), 'progress': False})
			cases.append({'kind': 'cli', 'genomes': gs[::-1], 'names': nm, 'gz': [False] * len(gs), 'fmt': 'csv', 'channel': channel, 'cores': None, 'progress': False})
	# the same genomes as multi-member gzip files
	for m in (2, 5):
		gs = rnd.sample(allg, 2)
		cases.append({'kind': 'cli', 'genomes': gs, 'names': [g + '.fasta.gz' for g in gs], 'members': m, 'gz': [False] * 2, 'fmt': 'csv', 'channel': 'positional', 'cores': None, 'progress': False})
	for _ in range(2 if tier == 'quick' else 10):
		cases.append({'kind': 'twodb', 'genomes': rnd.sample(allg, rnd.choice([2, 4]))})
	n, failures, sample = 0, [], []
	for c in cases:
		r = run_case(c)
		n += 1
		if len(sample) < 3 and (c['kind'] == 'cli' or n == 1):
			sample.append({'case': c, 'result': {'ok': r.get('ok')}})
		if not r.get('ok'):
			failures.append({'case': c, 'expected': r.get('expected'), 'actual': r.get('actual'), 'class': c['kind']})
			if len(failures) >= 4:
				break
	return {'tool': 'real get_file_id on generated paths; real CLI in-process: batches vs. single-genome runs', 'bound': f'{len(cases)} cases ({n_cli} CLI batches of <= 8 genomes over 3 input channels; batches of 9 .. {len(allg)} genomes with 1 .. 6 cores, i.e. 8x .. 50x more genomes than workers)',
	        'cases': n, 'failures': failures, 'samples': sample}
