"""Executable check for C11: the three export formats against the in-memory results (real query on the bundled database,
with names replaced by hostile strings, unreportable taxa, strict failures, missing files)."""
import csv
import io
import json
import os
import random

_cache = {}


def _db():
	if 'db' not in _cache:
		import gambit
		from gambit.db import ReferenceDatabase
		from gambit.sigs import load_signatures
		here = os.path.dirname(os.path.dirname(os.path.dirname(gambit.__file__)))
		root = next(c for c in (os.path.join(here, 'tests', 'data', 'testdb_210818'), '/repo/tests/data/testdb_210818') if os.path.isdir(c))
		_cache['db'] = ReferenceDatabase.load_from_dir(root)
		_cache['q'] = load_signatures(os.path.join(root, 'queries', 'query-signatures.gs'))
	return _cache['db'], _cache['q']


HOSTILE = ['plain', 'comma, inside', 'quote " inside', 'new\nline', 'crlf\r\nline', 'ünïcödé 名前', ' lead and trail ', '"quoted"', 'semi;colon\ttab', '']


def _results(case):
	import numpy as np
	from gambit.query import query, QueryParams, QueryInput
	from gambit.seq import SequenceFile
	db, qs = _db()
	rnd = random.Random(case['seed'])
	idx = [rnd.randrange(len(qs)) for _ in range(case['n'])]
	labels = [rnd.choice(case.get('strings', HOSTILE)) + f'#{j}' for j in range(len(idx))]
	inputs = [QueryInput(l, SequenceFile(f'/some/dir/{j}.fasta', 'fasta') if rnd.random() < .5 else None) for j, l in enumerate(labels)]
	res = query(db, [qs[i] for i in idx], QueryParams(classify_strict=case.get('strict', False), report_closest=rnd.choice([1, 3, 10])), inputs=inputs)
	# hostile names on the ORM objects (in memory only: the session is read-only)
	changed = []
	if case.get('rename'):
		for item in res.items:
			for t in (item.report_taxon, item.classifier_result.next_taxon):
				if t is not None:
					changed.append((t, 'name', t.name))
					t.name = rnd.choice(case.get('strings', HOSTILE))
			g = item.classifier_result.closest_match.genome.genome
			changed.append((g, 'description', g.description))
			g.description = rnd.choice(case.get('strings', HOSTILE))
	if case.get('unreport'):
		for item in res.items:
			if item.report_taxon is not None and rnd.random() < .5:
				item.report_taxon = None
	return res, changed


def run_case(case):
	import numpy as np
	from gambit.results import CSVResultsExporter, JSONResultsExporter, ResultsArchiveWriter, ResultsArchiveReader
	db, _ = _db()
	res, changed = _results(case)
	try:
		fmt = case['fmt']
		if fmt == 'csv':
			buf = io.StringIO(newline='')
			CSVResultsExporter().export(buf, res)
			rows = list(csv.reader(io.StringIO(buf.getvalue(), newline='')))
			def cell(v):
				return '' if v is None else str(v)
			exp = [['query', 'predicted.name', 'predicted.rank', 'predicted.ncbi_id', 'predicted.threshold', 'closest.distance', 'closest.description',
			        'next.name', 'next.rank', 'next.ncbi_id', 'next.threshold']]
			for it in res.items:
				rt, cm, nt = it.report_taxon, it.classifier_result.closest_match, it.classifier_result.next_taxon
				exp.append([cell(it.input.label)] + [cell(getattr(rt, a, None)) for a in ('name', 'rank', 'ncbi_id', 'distance_threshold')]
				           + [cell(cm.distance), cell(cm.genome.description)] + [cell(getattr(nt, a, None)) for a in ('name', 'rank', 'ncbi_id', 'distance_threshold')])
			ok = rows == exp
			bad = next((i for i, (a, b) in enumerate(zip(rows, exp)) if a != b), None)
			return {'ok': ok, 'expected': exp[bad] if bad is not None else len(exp), 'actual': rows[bad] if bad is not None else len(rows)}
		if fmt == 'json':
			buf = io.StringIO()
			JSONResultsExporter().export(buf, res)
			data = json.loads(buf.getvalue())
			problems = []
			if len(data['items']) != len(res.items):
				problems.append('item count')
			for d, it in zip(data['items'], res.items):
				if d['query']['name'] != it.input.label:
					problems.append('label')
				for key, t in (('predicted_taxon', it.report_taxon), ('next_taxon', it.classifier_result.next_taxon)):
					if (d[key] is None) != (t is None) or (t is not None and (d[key]['name'] != t.name or d[key]['key'] != t.key or d[key]['distance_threshold'] != t.distance_threshold)):
						problems.append(key)
				cg = d['closest_genomes']
				if len(cg) != len(it.closest_genomes) or any(c['genome']['key'] != m.genome.key or np.float32(c['distance']) != np.float32(m.distance) for c, m in zip(cg, it.closest_genomes)):
					problems.append('closest_genomes')
			return {'ok': not problems, 'expected': 'same data', 'actual': problems or 'ok'}
		if fmt == 'archive':
			for obj, attr, old in changed:
				setattr(obj, attr, old)      # the archive stores keys only; compare against the database's own rows
			changed = []
			buf = io.StringIO()
			ResultsArchiveWriter().export(buf, res)
			back = ResultsArchiveReader(db.session).read(io.StringIO(buf.getvalue()))
			problems = []
			if back != res:
				problems.append('results object differs')
			for a, b in zip(back.items, res.items):
				ca, cb = a.classifier_result, b.classifier_result
				if np.float32(ca.closest_match.distance).tobytes() != np.float32(cb.closest_match.distance).tobytes():
					problems.append('distance bits')
				if ca.warnings != cb.warnings or ca.error != cb.error or ca.success != cb.success:
					problems.append('warnings/errors')
			if back.params != res.params:
				problems.append('params')
			return {'ok': not problems, 'expected': 'equal results object', 'actual': problems or 'ok'}
		return {'error': 'unknown format'}
	finally:
		for obj, attr, old in changed:
			setattr(obj, attr, old)


def bounded(tier, seed):
	rnd = random.Random(seed)
	cases = []
	for _ in range(20 if tier == 'quick' else 300):
		cases.append({'fmt': rnd.choice(['csv', 'csv', 'json', 'archive']), 'seed': rnd.randrange(10 ** 6), 'n': rnd.choice([1, 2, 5]),
		              'strict': rnd.random() < .4, 'rename': rnd.random() < .7, 'unreport': rnd.random() < .3})
	# the carriage-return class separately (known finding)
	cases.append({'fmt': 'csv', 'seed': 5, 'n': 2, 'rename': True, 'strings': ['bare\rcarriage return']})
	n, failures, sample = 0, [], []
	for c in cases:
		r = run_case(c)
		n += 1
		if len(sample) < 2:
			sample.append({'case': c, 'result': r})
		if not r.get('ok'):
			cls = 'bare-CR' if c.get('strings') == ['bare\rcarriage return'] else c['fmt']
			failures.append({'case': c, 'expected': r.get('expected'), 'actual': r.get('actual'), 'class': cls})
	return {'tool': 'real exporters on results of a real query (hostile names, unreportable taxa, strict mode, missing files); CSV/JSON parsed back, archive read back',
	        'bound': f'{len(cases)} result sets of <= 5 items', 'cases': n, 'failures': failures[:4], 'samples': sample}
