"""Executable check for C11: the three export formats against the in-memory results (real query on the bundled database,
with names replaced by hostile strings, unreportable taxa, strict failures, missing files)."""
import csv
import io
import json
import os
import random

_cache = {}


def _db():
	if 'db' not in _cache:
		import gambit
		from gambit.db import ReferenceDatabase
		from gambit.sigs import load_signatures
		here = os.path.dirname(os.path.dirname(os.path.dirname(gambit.__file__)))
		root = next(c for c in (os.path.join(here, 'tests', 'data', 'testdb_210818'), '/repo/tests/data/testdb_210818') if os.path.isdir(c))
		_cache['db'] = ReferenceDatabase.load_from_dir(root)
		_cache['q'] = load_signatures(os.path.join(root, 'queries', 'query-signatures.gs'))
	return _cache['db'], _cache['q']


HOSTILE = ['-80C_isolate', '+ctrl', '@plate3', '=A1+B2', '\tlead tab', "'quoted start", 'plain', 'comma, inside', 'quote " inside', 'new\nline', 'crlf\r\nline', 'ünïcödé 名前', ' lead and trail ', '"quoted"', 'semi;colon\ttab', '']


def _results(case):
	import numpy as np
	from gambit.query import query, QueryParams, QueryInput
	from gambit.seq import SequenceFile
	db, qs = _db()
	rnd = random.Random(case['seed'])
	idx = [rnd.randrange(len(qs)) for _ in range(case['n'])]
	labels = [rnd.choice(case.get('strings', HOSTILE)) + f'#{j}' for j in range(len(idx))]
	inputs = [QueryInput(l, SequenceFile(f'/some/dir/{j}.fasta', 'fasta') if rnd.random() < .5 else None) for j, l in enumerate(labels)]
	sigs_in = [qs[i] for i in idx]
	if case.get('zero') and sigs_in:
		# a query that IS a reference genome: closest distance exactly 0.0 (a falsy value that must still be written)
		sigs_in[0] = db.signatures[rnd.randrange(len(db.signatures))]
	res = query(db, sigs_in, QueryParams(classify_strict=case.get('strict', False), report_closest=rnd.choice([1, 3, 10])), inputs=inputs)
	# hostile names on the ORM objects (in memory only: the session is read-only)
	changed = []
	if case.get('zero'):
		for item in res.items[:1]:
			for t in (item.report_taxon, item.classifier_result.next_taxon):
				if t is not None:
					changed.append((t, 'ncbi_id', t.ncbi_id))
					changed.append((t, 'distance_threshold', t.distance_threshold))
					t.ncbi_id = 0                      # falsy but present values
					t.distance_threshold = 0.0
	if case.get('rename'):
		for item in res.items:
			for t in (item.report_taxon, item.classifier_result.next_taxon):
				if t is not None:
					changed.append((t, 'name', t.name))
					t.name = rnd.choice(case.get('strings', HOSTILE))
			g = item.classifier_result.closest_match.genome.genome
			changed.append((g, 'description', g.description))
			g.description = rnd.choice(case.get('strings', HOSTILE))
	if case.get('unreport'):
		for item in res.items:
			if item.report_taxon is not None and rnd.random() < .5:
				item.report_taxon = None
	return res, changed


def _edited_db(tmp):
	"""a copy of the bundled database whose taxonomy was edited (taxa renamed, one genus re-parented) under the SAME primary keys"""
	import shutil, sqlite3, glob
	from gambit.db import ReferenceDatabase
	db, _ = _db()
	src = os.path.dirname(str(db.session.get_bind().url.database))
	dst = os.path.join(tmp, 'db2')
	os.makedirs(dst)
	for f in glob.glob(os.path.join(src, '*.gdb')) + glob.glob(os.path.join(src, '*.gs')):
		shutil.copy(f, dst)
	con = sqlite3.connect(glob.glob(os.path.join(dst, '*.gdb'))[0])
	con.execute("UPDATE taxa SET name = name || ' (edited)'")
	rows = con.execute("SELECT id, parent_id FROM taxa WHERE parent_id IS NOT NULL ORDER BY id").fetchall()
	roots = [r[0] for r in con.execute("SELECT id FROM taxa WHERE parent_id IS NULL ORDER BY id").fetchall()]
	# move every second child of the first root under the last root
	if len(roots) >= 2:
		kids = [i for i, p_ in rows if p_ == roots[0]]
		for i in kids[::2]:
			con.execute("UPDATE taxa SET parent_id = ? WHERE id = ?", (roots[-1], i))
	con.commit()
	con.close()
	return ReferenceDatabase.load_from_dir(dst)


def _json_problems(data, res):
	"""full comparison of the basic JSON document with the results object it was made from"""
	import numpy as np
	problems = []
	TF = ['id', 'key', 'name', 'ncbi_id', 'rank', 'distance_threshold']
	tj = lambda t: None if t is None else {f: getattr(t, f) for f in TF}
	if len(data['items']) != len(res.items):
		problems.append('item count')
	for d, it in zip(data['items'], res.items):
		if d['query']['name'] != it.input.label:
			problems.append('label')
		for key, t in (('predicted_taxon', it.report_taxon), ('next_taxon', it.classifier_result.next_taxon)):
			if d[key] != tj(t):
				problems.append(key)
		cg = d['closest_genomes']
		if len(cg) != len(it.closest_genomes):
			problems.append('closest_genomes length')
		for c, m in zip(cg, it.closest_genomes):
			g = m.genome
			if c['genome']['key'] != g.key or c['genome']['id'] != g.genome_id or c['genome']['description'] != g.description or np.float32(c['distance']) != np.float32(m.distance):
				problems.append('closest_genomes entry')
			if c['genome']['taxonomy'] != [tj(t) for t in g.taxon.ancestors(incself=True)]:
				problems.append(f'lineage of closest genome {g.key}')
			if c.get('matched_taxon', tj(m.matched_taxon)) != tj(m.matched_taxon):
				problems.append('matched taxon')
	return problems


def _reuse_case(case):
	"""ONE exporter object per format used for a sequence of exports of results from two databases sharing primary keys"""
	import tempfile, shutil
	from gambit.query import query, QueryParams
	from gambit.results import CSVResultsExporter, JSONResultsExporter, ResultsArchiveWriter
	db1, qs = _db()
	tmp = tempfile.mkdtemp(prefix='c11_')
	try:
		db2 = _edited_db(tmp)
		rnd = random.Random(case['seed'])
		exp = JSONResultsExporter()
		problems = []
		order = case.get('order', [1, 2, 1])
		for step, which in enumerate(order):
			db = db1 if which == 1 else db2
			idx = [rnd.randrange(len(qs)) for _ in range(case['n'])]
			res = query(db, [qs[i] for i in idx], QueryParams(report_closest=3))
			buf = io.StringIO()
			exp.export(buf, res)
			pr = _json_problems(json.loads(buf.getvalue()), res)
			problems += [f'export {step} (database {which}): {x}' for x in pr[:3]]
		return {'ok': not problems, 'expected': 'every export through a reused exporter equals its own results', 'actual': problems or 'ok'}
	finally:
		shutil.rmtree(tmp, ignore_errors=True)


def _colliding_db(tmp):
	"""a copy of the bundled database in which identifiers collide ACROSS tables (each is unique only within its own table): every taxon
	that has genomes of its own gets the key of one of them, and genome / taxon NCBI ids are made to overlap"""
	import shutil, sqlite3, glob
	from gambit.db import ReferenceDatabase
	db, _ = _db()
	src = os.path.dirname(str(db.session.get_bind().url.database))
	dst = os.path.join(tmp, 'db3')
	os.makedirs(dst)
	for f in glob.glob(os.path.join(src, '*.gdb')) + glob.glob(os.path.join(src, '*.gs')):
		shutil.copy(f, dst)
	con = sqlite3.connect(glob.glob(os.path.join(dst, '*.gdb'))[0])
	rows = con.execute("SELECT a.taxon_id, MIN(g.id) FROM genome_annotations a JOIN genomes g ON g.id = a.genome_id WHERE a.taxon_id IS NOT NULL GROUP BY a.taxon_id").fetchall()
	for tid, gid in rows:
		key, = con.execute('SELECT "key" FROM genomes WHERE id = ?', (gid,)).fetchone()
		con.execute('UPDATE taxa SET "key" = ?, ncbi_id = (SELECT ncbi_id FROM genomes WHERE id = ?) WHERE id = ?', (key, gid, tid))
	con.commit()
	con.close()
	return ReferenceDatabase.load_from_dir(dst)


def _collide_case(case):
	"""all three formats on a database whose taxon keys coincide with genome keys"""
	import tempfile, shutil
	import numpy as np
	from gambit.query import query, QueryParams
	from gambit.results import CSVResultsExporter, JSONResultsExporter, ResultsArchiveWriter, ResultsArchiveReader
	_, qs = _db()
	tmp = tempfile.mkdtemp(prefix='c11c_')
	try:
		db3 = _colliding_db(tmp)
		rnd = random.Random(case['seed'])
		idx = [rnd.randrange(len(qs)) for _ in range(case['n'])]
		res = query(db3, [qs[i] for i in idx], QueryParams(classify_strict=case.get('strict', False), report_closest=rnd.choice([1, 3, 10])))
		problems = []
		buf = io.StringIO()
		JSONResultsExporter().export(buf, res)
		problems += ['json: ' + x for x in _json_problems(json.loads(buf.getvalue()), res)[:3]]
		buf = io.StringIO()
		ResultsArchiveWriter().export(buf, res)
		back = ResultsArchiveReader(db3.session).read(io.StringIO(buf.getvalue()))
		if back != res:
			problems.append('archive: results object differs')
		for a, b in zip(back.items, res.items):
			ca, cb = a.classifier_result, b.classifier_result
			if type(ca.closest_match.genome) is not type(cb.closest_match.genome) or ca.closest_match.genome != cb.closest_match.genome:
				problems.append(f'archive: closest genome read back as {ca.closest_match.genome!r}')
			if a.report_taxon is not b.report_taxon and a.report_taxon != b.report_taxon:
				problems.append(f'archive: reported taxon read back as {a.report_taxon!r}')
		return {'ok': not problems, 'expected': 'exports equal the results on a database whose taxon keys coincide with genome keys', 'actual': problems[:4] or 'ok'}
	finally:
		shutil.rmtree(tmp, ignore_errors=True)


def run_case(case):
	import numpy as np
	from gambit.results import CSVResultsExporter, JSONResultsExporter, ResultsArchiveWriter, ResultsArchiveReader
	db, _ = _db()
	if case['fmt'] == 'json-reuse':
		return _reuse_case(case)
	if case['fmt'] == 'collide':
		return _collide_case(case)
	res, changed = _results(case)
	try:
		fmt = case['fmt']
		if fmt == 'csv':
			buf = io.StringIO(newline='')
			CSVResultsExporter().export(buf, res)
			rows = list(csv.reader(io.StringIO(buf.getvalue(), newline='')))
			def cell(v):
				return '' if v is None else str(v)
			exp = [['query', 'predicted.name', 'predicted.rank', 'predicted.ncbi_id', 'predicted.threshold', 'closest.distance', 'closest.description',
			        'next.name', 'next.rank', 'next.ncbi_id', 'next.threshold']]
			for it in res.items:
				rt, cm, nt = it.report_taxon, it.classifier_result.closest_match, it.classifier_result.next_taxon
				exp.append([cell(it.input.label)] + [cell(getattr(rt, a, None)) for a in ('name', 'rank', 'ncbi_id', 'distance_threshold')]
				           + [cell(cm.distance), cell(cm.genome.description)] + [cell(getattr(nt, a, None)) for a in ('name', 'rank', 'ncbi_id', 'distance_threshold')])
			ok = rows == exp
			bad = next((i for i, (a, b) in enumerate(zip(rows, exp)) if a != b), None)
			return {'ok': ok, 'expected': exp[bad] if bad is not None else len(exp), 'actual': rows[bad] if bad is not None else len(rows)}
		if fmt == 'json':
			buf = io.StringIO()
			JSONResultsExporter().export(buf, res)
			data = json.loads(buf.getvalue())
			problems = _json_problems(data, res)
			return {'ok': not problems, 'expected': 'same data', 'actual': problems or 'ok'}
		if fmt == 'archive':
			for obj, attr, old in changed:
				setattr(obj, attr, old)      # the archive stores keys only; compare against the database's own rows
			changed = []
			buf = io.StringIO()
			ResultsArchiveWriter().export(buf, res)
			back = ResultsArchiveReader(db.session).read(io.StringIO(buf.getvalue()))
			problems = []
			if back != res:
				problems.append('results object differs')
			for a, b in zip(back.items, res.items):
				ca, cb = a.classifier_result, b.classifier_result
				if np.float32(ca.closest_match.distance).tobytes() != np.float32(cb.closest_match.distance).tobytes():
					problems.append('distance bits')
				if ca.warnings != cb.warnings or ca.error != cb.error or ca.success != cb.success:
					problems.append('warnings/errors')
			if back.params != res.params:
				problems.append('params')
			return {'ok': not problems, 'expected': 'equal results object', 'actual': problems or 'ok'}
		return {'error': 'unknown format'}
	finally:
		for obj, attr, old in changed:
			setattr(obj, attr, old)


def bounded(tier, seed):
	rnd = random.Random(seed)
	cases = []
	for _ in range(20 if tier == 'quick' else 2000):
		cases.append({'fmt': rnd.choice(['csv', 'csv', 'json', 'archive']), 'seed': rnd.randrange(10 ** 6), 'n': rnd.choice([1, 2, 5]),
		              'strict': rnd.random() < .4, 'rename': rnd.random() < .7, 'unreport': rnd.random() < .3, 'zero': rnd.random() < .5})
	for order in ([1, 2], [2, 1], [1, 2, 1]):
		cases.append({'fmt': 'json-reuse', 'seed': rnd.randrange(10 ** 6), 'n': 3, 'order': order})
	for _ in range(3 if tier == 'quick' else 40):
		cases.append({'fmt': 'collide', 'seed': rnd.randrange(10 ** 6), 'n': rnd.choice([3, 8]), 'strict': rnd.random() < .5})
	# the carriage-return class separately (known finding)
	cases.append({'fmt': 'csv', 'seed': 5, 'n': 2, 'rename': True, 'strings': ['bare\rcarriage return']})
	n, failures, sample = 0, [], []
	for c in cases:
		r = run_case(c)
		n += 1
		if len(sample) < 2:
			sample.append({'case': c, 'result': r})
		if not r.get('ok'):
			cls = 'bare-CR' if c.get('strings') == ['bare\rcarriage return'] else c['fmt']
			failures.append({'case': c, 'expected': r.get('expected'), 'actual': r.get('actual'), 'class': cls})
	return {'tool': 'real exporters on results of a real query (hostile names, unreportable taxa, strict mode, missing files); CSV/JSON parsed back (JSON compared field by field incl. the lineage of every closest genome), archive read back; one JSON exporter object reused across databases that share primary keys; a database whose taxon keys / NCBI ids coincide with genome keys / ids',
	        'bound': f'{len(cases)} result sets of <= 5 items', 'cases': n, 'failures': failures[:4], 'samples': sample}
