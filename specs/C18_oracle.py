"""Executable check for C18 (bounded stand-in for the history clause): random sequences of read-side commands and library calls
against a private copy of the bundled database; after EVERY step the sha256 and size of the genome file and the signature file
must be what they were, and every default session must be read-only (never flushes, refuses commit)."""
import contextlib
import hashlib
import io
import os
import random
import shutil
import tempfile

from specs.C08_oracle import _root


def _sha(p):
	with open(p, 'rb') as f:
		return hashlib.sha256(f.read()).hexdigest(), os.path.getsize(p)


def _cli(argv):
	from gambit.cli import cli
	import click
	out = io.StringIO()
	try:
		with contextlib.redirect_stdout(out), contextlib.redirect_stderr(io.StringIO()):
			cli.main(argv, standalone_mode=False)
		return 'ok'
	except click.ClickException as e:
		return 'ClickException'
	except SystemExit as e:
		return 'ok' if not e.code else f'exit{e.code}'
	except Exception as e:
		return f'{type(e).__name__}'


def _session_problems(session, obj, label):
	"""the three session clauses on a session obtained through library defaults"""
	from gambit.db.sqla import ReadOnlySession
	problems = []
	if not isinstance(session, ReadOnlySession):
		problems.append(f'{label}: session is a {type(session).__name__}, not a ReadOnlySession')
	old = obj.description
	try:
		obj.description = 'C18: this must never reach the file'
		session.flush()
		if obj not in session.dirty:
			problems.append(f'{label}: flush() flushed a pending change')
		try:
			session.commit()
			problems.append(f'{label}: commit() was not refused')
		except TypeError:
			pass
	finally:
		try:
			session.rollback()
		except Exception:
			pass
		try:
			session.expire_all()
		except Exception:
			pass
	return problems


STEPS = ['cli_query', 'cli_query_sigs', 'cli_query_json', 'cli_dist_db', 'cli_siginfo_db', 'cli_siginfo_ids', 'cli_tree_db', 'cli_fail_query', 'cli_fail_dist',
         'lib_load_query', 'lib_load_genomeset', 'lib_sessionmaker_explicit', 'lib_sessionmaker_default', 'lib_load_signatures', 'lib_dist', 'lib_clictx', 'lib_tree', 'lib_browse', 'lib_browse_drop']


def run_case(case):
	root = _root()
	tmp = tempfile.mkdtemp(prefix='c18_')
	try:
		import glob
		dbdir = os.path.join(tmp, 'db')
		os.makedirs(dbdir)
		for f in glob.glob(os.path.join(root, '*.gdb')) + glob.glob(os.path.join(root, '*.gs')):
			shutil.copy(f, dbdir)
		gfile = glob.glob(os.path.join(dbdir, '*.gdb'))[0]
		sfile = glob.glob(os.path.join(dbdir, '*.gs'))[0]
		before = {p: _sha(p) for p in (gfile, sfile)}
		listing = sorted(os.listdir(dbdir))
		qdir = os.path.join(root, 'queries', 'genomes')
		qfiles = sorted(os.path.join(qdir, f) for f in os.listdir(qdir) if f.endswith('.fasta'))[:3]
		qsigs = os.path.join(root, 'queries', 'query-signatures.gs')
		out = os.path.join(tmp, 'out.txt')
		keep = []      # objects kept alive across steps (open sessions / files), as a long-running process would
		for step_no, step in enumerate(case['steps']):
			problems = []
			if step == 'cli_query':
				st = _cli(['-d', dbdir, 'query', '--no-progress', '-o', out] + qfiles[:2])
			elif step == 'cli_query_sigs':
				st = _cli(['-d', dbdir, 'query', '--no-progress', '-o', out, '-s', qsigs])
			elif step == 'cli_query_json':
				st = _cli(['-d', dbdir, 'query', '--no-progress', '-f', 'json', '-o', out, qfiles[0]])
			elif step == 'cli_dist_db':
				st = _cli(['-d', dbdir, 'dist', '--no-progress', '-o', out, '--qs', qsigs, '-d'])
			elif step == 'cli_siginfo_db':
				st = _cli(['-d', dbdir, 'signatures', 'info', '-d', '-j'])
			elif step == 'cli_siginfo_ids':
				st = _cli(['signatures', 'info', '-i', sfile])
			elif step == 'cli_tree_db':
				st = _cli(['tree', '--no-progress', '-s', sfile])
			elif step == 'cli_fail_query':
				st = _cli(['-d', dbdir, 'query', '--no-progress', '-o', out, os.path.join(tmp, 'does-not-exist.fasta')])
				st = 'ok' if st != 'ok' else 'a query of a missing file succeeded'
			elif step == 'cli_fail_dist':
				st = _cli(['-d', dbdir, 'dist', '--no-progress', '-o', out, '--qs', qsigs, '-d', '-k', '3', '-p', 'GG'])
				st = 'ok' if st != 'ok' else 'dist with foreign k-mer parameters succeeded'
			else:
				st = 'ok'
				from gambit.db import ReferenceDatabase, load_genomeset
				from gambit.db.sqla import file_sessionmaker
				from gambit.db.models import ReferenceGenomeSet, Genome
				from gambit.sigs import load_signatures
				if step == 'lib_load_query':
					from gambit.query import query
					db = ReferenceDatabase.load_from_dir(dbdir)
					res = query(db, load_signatures(qsigs))
					problems += _session_problems(db.session, db.genomeset, 'ReferenceDatabase.load_from_dir')
					keep.append(db)
				elif step == 'lib_load_genomeset':
					session, gset = load_genomeset(gfile)
					problems += _session_problems(session, gset, 'load_genomeset')
					keep.append(session)
				elif step == 'lib_sessionmaker_explicit':
					# somebody reads through an explicitly chosen plain session class (allowed; nothing is written through it)
					from sqlalchemy.orm import Session
					s = file_sessionmaker(gfile, cls=Session)()
					s.query(Genome).count()
					s.close()
					s2 = file_sessionmaker(gfile, readonly=False)()
					s2.query(Genome).count()
					s2.close()
				elif step == 'lib_sessionmaker_default':
					s = file_sessionmaker(gfile)()
					problems += _session_problems(s, s.query(ReferenceGenomeSet).one(), 'file_sessionmaker(path)')
					keep.append(s)
				elif step == 'lib_load_signatures':
					sg = load_signatures(sfile)
					_ = sg[0], sg.ids[:3], sg.meta
					try:
						sg.group.attrs['c18'] = 1
						problems.append('signature file was opened writable: an attribute write succeeded')
					except Exception:
						pass
					keep.append(sg)
				elif step == 'lib_dist':
					from gambit.metric import jaccarddist_matrix
					sg = load_signatures(sfile)
					jaccarddist_matrix(load_signatures(qsigs)[:2], sg[:5])
					sg.close()
				elif step == 'lib_clictx':
					from gambit.cli.common import CLIContext
					import click
					from gambit.cli import cli
					with click.Context(cli) as cctx:
						cctx.params = {'db_path': dbdir}
						cc = CLIContext(cctx)
						db = cc.get_database()
						problems += _session_problems(db.session, db.genomeset, 'CLIContext.get_database')
						s = cc.get_session() if hasattr(cc, 'get_session') else cc.Session()
						problems += _session_problems(s, s.query(ReferenceGenomeSet).one(), 'CLIContext session')
						keep.append(db)
				elif step in ('lib_browse', 'lib_browse_drop'):
					# read-side browsing of the taxonomy through every relationship / secondary index, then the session goes away
					import gc
					session, gset = load_genomeset(gfile)
					roots = list(gset.root_taxa())
					seen = 0
					for r_ in roots[:3]:
						for t_ in r_.traverse():
							seen += len(list(t_.children)) + len(list(t_.genomes))
						seen += len(list(r_.subtree_genomes())) + len(list(r_.leaves()))
					_ = [g.taxon.lineage() for g in gset.genomes[:5]]
					session.query(Genome).filter(Genome.key != '').count()
					if step == 'lib_browse':
						session.close()
						session.get_bind().dispose()
					else:
						del session, gset, roots
					gc.collect()
				elif step == 'lib_tree':
					from gambit.metric import jaccarddist_pairwise
					from gambit.cluster import hclust, linkage_to_bio_tree
					sg = load_signatures(sfile)
					sub = sg[:6]
					linkage_to_bio_tree(hclust(jaccarddist_pairwise(sub)), list(sg.ids[:6]))
					sg.close()
			if st != 'ok':
				problems.append(f'step {step}: {st}')
			after = {p: _sha(p) for p in (gfile, sfile)}
			for p in (gfile, sfile):
				if after[p] != before[p]:
					problems.append(f'{os.path.basename(p)} changed (sha256/size) after step {step_no} {step}')
			if sorted(os.listdir(dbdir)) != listing:
				problems.append(f'database directory contents changed after step {step_no} {step}: {sorted(set(os.listdir(dbdir)) ^ set(listing))}')
			if problems:
				return {'ok': False, 'expected': 'files byte-identical, default sessions read-only', 'actual': {'after_steps': case['steps'][:step_no + 1], 'problems': problems[:4]}}
		import gc
		for k in keep:
			for attr in ('session', 'signatures'):
				o = getattr(k, attr, None)
				if o is not None and hasattr(o, 'close'):
					o.close()
			if hasattr(k, 'close'):
				k.close()
		for k in keep:
			b_ = getattr(getattr(k, 'session', k), 'get_bind', None)
			try:
				if b_ is not None:
					b_().dispose()
			except Exception:
				pass
		del keep
		gc.collect()
		after = {p: _sha(p) for p in (gfile, sfile)}
		ok = after == before and sorted(os.listdir(dbdir)) == listing
		return {'ok': ok, 'expected': 'files byte-identical after closing everything', 'actual': 'ok' if ok else 'changed on close'}
	finally:
		shutil.rmtree(tmp, ignore_errors=True)


def bounded(tier, seed):
	rnd = random.Random(seed)
	cases = [{'steps': [s]} for s in STEPS]
	# every ordered pair of library steps (the order of opens within one process matters), then random longer histories
	libs = [s for s in STEPS if s.startswith('lib_')]
	cases += [{'steps': [a, b]} for a in libs for b in libs if a != b and (tier != 'quick' or 'sessionmaker' in a or 'sessionmaker' in b or rnd.random() < .25)]
	for _ in range(12 if tier == 'quick' else 400):
		cases.append({'steps': [rnd.choice(STEPS) for _ in range(rnd.randrange(3, 8))]})
	n, failures, sample = 0, [], []
	for c in cases:
		r = run_case(c)
		n += 1
		if len(sample) < 2 and len(c['steps']) > 2:
			sample.append({'case': c, 'result': {'ok': r.get('ok')}})
		if not r.get('ok'):
			failures.append({'case': c, 'expected': r.get('expected'), 'actual': r.get('actual'), 'class': 'history'})
			if len(failures) >= 3:
				break
	return {'tool': 'real CLI (in-process) and library calls on a private copy of the bundled database; sha256+size of *.gdb / *.gs and the directory listing after every step; session class / flush / commit probes',
	        'bound': f'{len(cases)} histories of <= 7 steps over {len(STEPS)} step kinds (all single steps, ordered pairs of library steps, random sequences with failing commands interleaved)',
	        'cases': n, 'failures': failures, 'samples': sample}
