"""Executable check for C16: the real `gambit dist` command in-process against per-pair distances."""
import csv
import os
import random
import re
import shutil
import tempfile
from specs.C08_oracle import _root, _cli, spec_label, ensure_gz


def _sig(path, ks):
	from gambit.seq import SequenceFile
	from gambit.sigs.calc import calc_file_signature
	return calc_file_signature(ks, SequenceFile(path, 'fasta', 'auto'))


def run_case(case):
	import numpy as np
	from gambit.kmers import KmerSpec
	from gambit.metric import jaccarddist
	from gambit.sigs import load_signatures
	if case['kind'] == 'writer':
		from gambit.cluster import dump_dmat_csv
		import io
		rnd = random.Random(case['seed'])
		nr, nc = case['nr'], case['nc']
		dmat = np.array([[rnd.choice([0.0, 1.0, rnd.random(), 0.00005, 0.99995]) for _ in range(nc)] for _ in range(nr)], dtype=np.float32).reshape(nr, nc)
		rows = [rnd.choice(['a', 'b,c', 'q"x', 'é', 'r%d' % i, 'a_very_long_assembler_style_sample_name_%d.contigs' % i, 'x' * 70]) for i in range(nr + case.get('extra_rows', 0))]
		cols = [rnd.choice(['c%d' % j, 'c', 'column_with_a_rather_long_label_%d' % j]) for j in range(nc)]
		buf = io.StringIO(newline='')
		try:
			dump_dmat_csv(buf, dmat, rows, cols)
			act = list(csv.reader(io.StringIO(buf.getvalue(), newline='')))
		except ValueError:
			act = 'ValueError'
		exp = 'ValueError' if case.get('extra_rows') else [[''] + cols] + [[rows[i]] + [format(float(dmat[i, j]), '0.4f') for j in range(nc)] for i in range(nr)]
		return {'ok': exp == act, 'expected': exp if isinstance(exp, str) else exp[:3], 'actual': act if isinstance(act, str) else act[:3]}
	if case['kind'] == 'cli_many':
		return _many_refs_case(case)
	root = _root()
	tmp = tempfile.mkdtemp(prefix='c16_')
	try:
		gdir = os.path.join(root, 'queries', 'genomes')
		rdir = os.path.join(root, 'ref-genomes')
		ks = KmerSpec(6, 'AT')
		qpaths = [ensure_gz(os.path.join(gdir, g + ('.fasta.gz' if z else '.fasta')), tmp) for g, z in zip(case['q'], case.get('qgz', [False] * len(case['q'])))]
		if case.get('empties'):
			# files whose sequences hold no occurrence of the prefix: their signatures are empty
			edir = os.path.join(tmp, 'empty')
			os.makedirs(edir, exist_ok=True)
			for e in range(case['empties']):
				p_ = os.path.join(edir, f'empty{e}.fasta')
				open(p_, 'w').write(f'>e{e}\n' + 'CCCCGGGGCCCC' * (e + 1) + '\n')
				qpaths.append(p_)
		out = os.path.join(tmp, 'out.csv')
		argv = ['dist', '--no-progress', '-o', out]
		qchan = case.get('qchan', 'files')
		if qchan == 'files':
			for p in qpaths:
				argv += ['-q', p]
		elif qchan == 'list':
			lf = os.path.join(tmp, 'ql.txt')
			open(lf, 'w').write(''.join((os.path.basename(p) if os.path.dirname(p) == gdir else p) + '\n' for p in qpaths))
			argv += ['--ql', lf, '--qdir', gdir]
		else:
			sf = os.path.join(tmp, 'q.gs')
			assert _cli(['signatures', 'create', '--no-progress', '-k', '6', '-p', 'AT', '-o', sf] + qpaths) == 'ok'
			argv += ['--qs', sf]
		qsigs = [_sig(p, ks) for p in qpaths]
		qlabels = [spec_label(p) for p in qpaths]
		rchan = case.get('rchan', 'files')
		if rchan == 'square':
			argv += ['-s']
			rsigs, rlabels = qsigs, qlabels
		elif rchan == 'db':
			argv = ['--db', root] + argv + ['-d']
			rs = load_signatures(os.path.join(root, 'ref-signatures.gs'))
			rsigs, rlabels = [rs[i] for i in range(len(rs))], [str(x) for x in rs.ids]
		else:
			rfiles = sorted(os.listdir(rdir))
			rnd = random.Random(case.get('seed', 0))
			rpaths = [os.path.join(rdir, f) for f in rnd.sample(rfiles, case.get('nr', 3))]
			if case.get('collide'):
				# references carry the queries' file names (another directory, maybe another extension / compression) but a different genome's content
				import gzip
				rdir = os.path.join(tmp, 'refs')
				os.makedirs(rdir)
				rpaths = []
				kq = len(qpaths)
				for j, qp in enumerate(qpaths):
					src = qpaths[(j + 1) % kq]
					name = spec_label(qp) + ('.fasta', '.fna', '.fa.gz')[(j + case.get('seed', 0)) % 3]
					raw = (gzip.open if src.endswith('.gz') else open)(src, 'rb').read()
					with (gzip.open if name.endswith('.gz') else open)(os.path.join(rdir, name), 'wb') as f:
						f.write(raw)
					rpaths.append(os.path.join(rdir, name))
			if case.get('empties'):
				rpaths = rpaths + [os.path.join(tmp, 'empty', f'empty{e}.fasta') for e in range(case['empties'])][::-1]
			rsigs, rlabels = [_sig(p, ks) for p in rpaths], [spec_label(p) for p in rpaths]
			if rchan == 'files':
				for p in rpaths:
					argv += ['-r', p]
			elif rchan == 'list':
				lf = os.path.join(tmp, 'rl.txt')
				open(lf, 'w').write(''.join((os.path.basename(p) if os.path.dirname(p) == rdir else p) + '\n' for p in rpaths))
				argv += ['--rl', lf, '--rdir', rdir]
			else:
				sf = os.path.join(tmp, 'r.gs')
				assert _cli(['signatures', 'create', '--no-progress', '-k', '6', '-p', 'AT', '-o', sf] + rpaths) == 'ok'
				argv += ['--rs', sf]
		if qchan != 'sigs' and rchan not in ('sigs', 'db'):
			argv += ['-k', '6', '-p', 'AT']
		if case.get('cores'):
			argv += ['-c', str(case['cores'])]
		st = _cli(argv)
		if st != 'ok':
			return {'ok': False, 'expected': 'success', 'actual': st}
		rows = list(csv.reader(open(out, newline='')))
		exp = [[''] + rlabels] + [[ql] + [format(float(jaccarddist(qs, rs)), '0.4f') for rs in rsigs] for ql, qs in zip(qlabels, qsigs)]
		ok = rows == exp
		if rchan == 'square':
			n = len(qsigs)
			ok = ok and all(rows[i + 1][j + 1] == rows[j + 1][i + 1] for i in range(n) for j in range(n)) and all(rows[i + 1][i + 1] == '0.0000' for i in range(n))
		return {'ok': bool(ok), 'expected': [r[:4] for r in exp[:3]], 'actual': [r[:4] for r in rows[:3]]}
	finally:
		shutil.rmtree(tmp, ignore_errors=True)


def _many_refs_case(case):
	"""thousands of (small) reference signatures in a signature file: every cell of every row must be written and correct"""
	import numpy as np
	from gambit.kmers import KmerSpec
	from gambit.metric import jaccarddist
	from gambit.sigs import SignatureArray, AnnotatedSignatures, dump_signatures
	tmp = tempfile.mkdtemp(prefix='c16m_')
	try:
		rnd = random.Random(case['seed'])
		ks = KmerSpec(6, 'AT')
		pool = list(range(4 ** 6))
		def sig():
			return np.array(sorted(rnd.sample(pool, rnd.randrange(1, 12))), dtype=ks.index_dtype)
		qs = [sig() for _ in range(case['nq'])]
		rs = [sig() for _ in range(case['nr'])]
		rs[-1] = qs[0].copy()        # the last column holds a zero
		dump_signatures(os.path.join(tmp, 'q.gs'), AnnotatedSignatures(SignatureArray(qs, ks), [f'q{i}' for i in range(len(qs))]))
		dump_signatures(os.path.join(tmp, 'r.gs'), AnnotatedSignatures(SignatureArray(rs, ks), [f'r{i}' for i in range(len(rs))]))
		out = os.path.join(tmp, 'out.csv')
		st = _cli(['dist', '--no-progress', '-o', out, '--qs', os.path.join(tmp, 'q.gs'), '--rs', os.path.join(tmp, 'r.gs')] + (['-c', str(case['cores'])] if case.get('cores') else []))
		if st != 'ok':
			return {'ok': False, 'expected': 'success', 'actual': st}
		rows = list(csv.reader(open(out, newline='')))
		bad = []
		if rows[0] != [''] + [f'r{i}' for i in range(len(rs))]:
			bad.append('header')
		for i, q in enumerate(qs):
			exp = [format(float(jaccarddist(q, r)), '0.4f') for r in rs]
			got = rows[i + 1][1:] if i + 1 < len(rows) else None
			if got != exp:
				j = next((c for c in range(len(exp)) if got is None or c >= len(got) or got[c] != exp[c]), None)
				bad.append(f'row {i}: first wrong column {j} of {len(exp)}: {None if got is None or j is None or j >= len(got) else got[j]!r} instead of {exp[j] if j is not None else None!r}')
		return {'ok': not bad, 'expected': f'{len(qs)} x {len(rs)} correct cells', 'actual': bad[:3] or 'ok'}
	finally:
		shutil.rmtree(tmp, ignore_errors=True)


def bounded(tier, seed):
	rnd = random.Random(seed)
	root = _root()
	allg = sorted(set(re.sub(r'\.fasta(\.gz)?$', '', f) for f in os.listdir(os.path.join(root, 'queries', 'genomes'))))
	cases = [{'kind': 'writer', 'seed': i, 'nr': rnd.randrange(0, 5), 'nc': rnd.randrange(0, 5)} for i in range(20)]
	cases += [{'kind': 'writer', 'seed': 99, 'nr': 2, 'nc': 2, 'extra_rows': 1}]
	combos = [(qc, rc) for qc in ('files', 'list', 'sigs') for rc in ('files', 'list', 'sigs', 'db', 'square')]
	if tier == 'quick':
		combos = rnd.sample(combos, 8)
	for qc, rc in combos:
		k = rnd.choice([1, 2, 4])
		cases.append({'kind': 'cli', 'q': rnd.sample(allg, k), 'qgz': [rnd.random() < .3 for _ in range(k)], 'qchan': qc, 'rchan': rc,
		              'nr': rnd.choice([1, 3]), 'seed': rnd.randrange(1000), 'cores': rnd.choice([None, 1, 3])})
	for qc, rc in [('files', 'files'), ('list', 'list'), ('files', 'list'), ('list', 'files'), ('files', 'sigs'), ('sigs', 'files')]:
		k = rnd.choice([2, 3])
		cases.append({'kind': 'cli', 'q': rnd.sample(allg, k), 'qgz': [rnd.random() < .3 for _ in range(k)], 'qchan': qc, 'rchan': rc, 'collide': True,
		              'seed': rnd.randrange(1000), 'cores': rnd.choice([None, 2])})
	for nr in (999, 1000, 1001, 2999, 6004, 6007) if tier == 'quick' else (999, 1000, 1001, 2999, 3001, 6004, 6007, 6011, 10007, 25013):
		cases.append({'kind': 'cli_many', 'nq': 2, 'nr': nr, 'seed': nr, 'cores': None})
	# many more genome files than workers on both sides
	for qc, rc, cores in (('files', 'files', 1), ('list', 'list', 2), ('files', 'square', 1)):
		cases.append({'kind': 'cli', 'q': rnd.sample(allg, min(9, len(allg))), 'qchan': qc, 'rchan': rc, 'nr': 7, 'seed': rnd.randrange(1000), 'cores': cores})
	# genomes without any k-mer (empty signatures: distance 0 to each other, 1 to everything else) on both sides, every channel
	for qc, rc in (('files', 'files'), ('files', 'sigs'), ('sigs', 'files'), ('files', 'square'), ('sigs', 'square'), ('list', 'list')):
		cases.append({'kind': 'cli', 'q': rnd.sample(allg, 2), 'qchan': qc, 'rchan': rc, 'nr': 2, 'seed': rnd.randrange(1000), 'cores': None, 'empties': 2})
	n, failures, sample = 0, [], []
	for c in cases:
		r = run_case(c)
		n += 1
		if len(sample) < 2 and c['kind'] == 'cli':
			sample.append({'case': c, 'result': {'ok': r.get('ok')}})
		if not r.get('ok'):
			failures.append({'case': c, 'expected': r.get('expected'), 'actual': r.get('actual'), 'class': c['kind']})
			if len(failures) >= 4:
				break
	return {'tool': 'real dump_dmat_csv on random matrices/labels; real `gambit dist` in-process against per-pair jaccarddist',
	        'bound': f'{len(cases)} cases; {len(combos)} of the 3 x 5 source combinations; 6 batches whose reference files share the query files\' names but hold other genomes', 'cases': n, 'failures': failures, 'samples': sample}
