"""Executable specification for C01/C06: brute-force enumeration of prefix occurrences on both strands of the
upper-cased text; written from the property statement, independent of find_kmers."""
import itertools
import random

COMP = {65: 84, 84: 65, 67: 71, 71: 67}
DIG = {65: 0, 67: 1, 71: 2, 84: 3}


def up(b):
	return b - 32 if 97 <= b <= 122 else b


def spec_signature(k, prefix, seqs):
	"""set of k-mer indices directly following an occurrence of the prefix on either strand"""
	out = set()
	P = [up(b) for b in prefix]
	L = len(P)
	for s in seqs:
		U = [up(b) for b in s]
		n = len(U)
		# reverse-complement strand as its own text; non-nucleotides map to a byte that never matches
		RC = [COMP.get(b, 0) for b in reversed(U)]
		for text in (U, RC):
			tb, pb = bytes(text), bytes(P)
			cand = []
			q = tb.find(pb)
			while q != -1:
				cand.append(q)
				q = tb.find(pb, q + 1)
			for p in cand:
				if p <= n - L - k and text[p:p + L] == P:
					kmer = text[p + L:p + L + k]
					if all(b in DIG for b in kmer):
						v = 0
						for b in kmer:
							v = v * 4 + DIG[b]
						out.add(v)
	return sorted(out)


def smallest_dtype(k):
	for name, bits in (('uint8', 8), ('uint16', 16), ('uint32', 32), ('uint64', 64)):
		if 4 ** k - 1 <= 2 ** bits - 1:
			return name
	return None


def to_type(b, t):
	if t == 'bytes':
		return bytes(b)
	if t == 'bytearray':
		return bytearray(b)
	if t == 'str':
		return bytes(b).decode('latin-1')
	if t == 'Seq':
		from Bio.Seq import Seq
		return Seq(bytes(b))
	raise ValueError(t)


def run_history(case):
	"""a sequence of calls, some of which fail part-way (non-ASCII text after valid sequences): every successful
	call must still return exactly its own signature"""
	from gambit.kmers import KmerSpec
	from gambit.sigs.calc import calc_signature
	k, prefix = int(case['k']), bytes(case['prefix'])
	ks = KmerSpec(k, prefix)
	results = []
	for step in case['steps']:
		seqs = [list(s) for s in step['seqs']]
		args = [to_type(s, step.get('type', 'bytes')) for s in seqs]
		if step.get('fail'):
			args = args + ['AT\u00e9CG']          # a str that cannot be encoded as ASCII
		try:
			res = calc_signature(ks, args)
			act = list(map(int, res))
		except UnicodeEncodeError:
			act = 'UnicodeEncodeError'
		exp = 'UnicodeEncodeError' if step.get('fail') else spec_signature(k, prefix, seqs)
		results.append((exp, act))
	ok = all(e == a for e, a in results)
	return {'ok': bool(ok), 'expected': [e for e, _ in results], 'actual': [a for _, a in results]}


def run_case(case):
	if case.get('kind') == 'history':
		return run_history(case)
	import numpy as np
	from gambit.kmers import KmerSpec
	from gambit.sigs.calc import calc_signature, ArrayAccumulator, SetAccumulator
	k, prefix = int(case['k']), bytes(case['prefix'])
	seqs = [list(s) for s in case['seqs']]
	t = case.get('type', 'bytes')
	if t == 'str' and any(b > 127 for s in seqs for b in s):
		return {'ok': True, 'skipped': 'non-ascii text'}
	ks = KmerSpec(k, prefix)
	acc = {'default': None, 'array': ArrayAccumulator, 'set': SetAccumulator}[case.get('acc', 'default')]
	acc = None if acc is None else acc(k)
	args = [to_type(s, t) for s in seqs]
	arg = args[0] if (len(args) == 1 and case.get('single', True)) else args
	res = calc_signature(ks, arg, accumulator=acc)
	exp = spec_signature(k, prefix, seqs)
	ok = list(map(int, res)) == exp and str(res.dtype) == smallest_dtype(k)
	return {'ok': bool(ok), 'expected': {'sig': exp, 'dtype': smallest_dtype(k)}, 'actual': {'sig': list(map(int, res)), 'dtype': str(res.dtype)}}


def _rand_seq(rnd, n, alpha):
	return [rnd.choice(alpha) for _ in range(n)]


def cases(tier, seed):
	rnd = random.Random(seed)
	# exhaustive tiny: all sequences up to length 5 over ACGT for a few (k, prefix)
	for k, prefix in ((1, b'A'), (2, b'AT'), (1, b'AA'), (2, b'C'), (1, b'AT'), (1, b'TA'), (2, b'GC'), (1, b'AAA'), (2, b'AAA'), (1, b'ATA')):
		for n in range(0, 6 if tier == 'quick' else 7):
			for t in itertools.product(b'ACGT', repeat=n):
				yield {'k': k, 'prefix': list(prefix), 'seqs': [list(t)], 'type': 'bytes'}
	# histories: calls that fail part-way must not influence later calls (k below and above the accumulator switch)
	for i in range(40 if tier == 'quick' else 400):
		k = rnd.choice([2, 3, 12])
		prefix = _rand_seq(rnd, rnd.choice([1, 2]), b'AT')
		steps = []
		for _ in range(rnd.randrange(2, 5)):
			seqs = [_rand_seq(rnd, rnd.randrange(5, 80), b'ACGT' if k < 12 else b'AT') for _ in range(rnd.randrange(1, 3))]
			steps.append({'seqs': seqs, 'type': rnd.choice(['bytes', 'str']), 'fail': rnd.random() < .4})
		yield {'kind': 'history', 'k': k, 'prefix': prefix, 'steps': steps}
	# self-overlapping prefixes (several overlap lengths) on low-complexity sequences: every overlapping occurrence counts
	for prefix in (b'AAA', b'AAAA', b'ATATA', b'AACAA', b'CCC', b'TTTTT', b'ACACAC', b'GAGAG'):
		for k in (1, 2, 3):
			for rep in range(6 if tier == 'quick' else 60):
				unit = bytes(rnd.choice(sorted(set(prefix))) for _ in range(rnd.randrange(1, 3)))
				body = (unit * rnd.randrange(3, 12))[:rnd.randrange(len(prefix), 30)]
				s_ = list(body + bytes(rnd.choice(b'ACGT') for _ in range(rnd.randrange(0, 6))) + body[:rnd.randrange(0, 8)])
				if rnd.random() < .5:
					s_ = [COMP.get(b, b) for b in reversed(s_)]
				yield {'k': k, 'prefix': list(prefix), 'seqs': [s_], 'type': rnd.choice(['bytes', 'str']), 'acc': 'default', 'single': True}
	# large k: every index-dtype boundary (k = 4/5, 8/9, 16/17, 31/32) with k-mers spread over the WHOLE index range in one
	# sequence (first base A, C, G and T: indices below and above 2^(bits-1)), several per sequence and across sequences
	for k in (4, 5, 8, 9, 15, 16, 17, 24, 31, 32):
		for rep in range(3 if tier == 'quick' else 30):
			L = rnd.choice([1, 2, 5])
			prefix = _rand_seq(rnd, L, b'ACGT')
			seqs = []
			for _ in range(rnd.choice([1, 1, 2])):
				s = []
				firsts = list(b'ACGT')
				rnd.shuffle(firsts)
				for f in firsts[:rnd.choice([2, 3, 4])]:
					kmer = [f] + _rand_seq(rnd, k - 1, b'ACGT')
					unit = prefix + kmer
					if rnd.random() < .4:
						unit = [COMP[b] for b in reversed(unit)]
					s += _rand_seq(rnd, rnd.randrange(0, 4), b'N') + unit
				seqs.append(s)
			yield {'k': k, 'prefix': prefix, 'seqs': seqs, 'type': rnd.choice(['bytes', 'str', 'Seq']), 'acc': rnd.choice(['default', 'set'] if k > 12 else ['default', 'set', 'array']), 'single': False}
	# long sequences: a match planted across EVERY power-of-two offset up to the sequence length (windowed / chunked searches)
	for top, k, L in ((2 ** 21 + 300, 11, 5), (2 ** 17 + 50, 4, 2)) if tier == 'quick' else ((2 ** 22 + 300, 11, 5), (2 ** 21 + 300, 11, 5), (2 ** 17 + 50, 4, 2), (2 ** 20 + 7, 16, 3)):
		prefix = _rand_seq(rnd, L, b'ACGT')
		for strand in (0, 1):
			s_ = bytearray(b'N' * top)
			p2 = 2 ** 9
			while p2 < top:
				kmer = _rand_seq(rnd, k, b'ACGT')
				unit = bytes(prefix + kmer)
				if strand:
					unit = bytes(COMP[b] for b in reversed(unit))
				off = p2 - rnd.randrange(1, L + k)      # the unit straddles offset p2
				s_[off:off + len(unit)] = unit
				p2 *= 2
			if rnd.random() < .5:
				s_ = bytearray(bytes(s_).lower())
			yield {'k': k, 'prefix': prefix, 'seqs': [list(s_)], 'type': rnd.choice(['bytes', 'str']), 'acc': 'default', 'single': True, 'big': True}
	alphas = [b'ACGT', b'ACGTN', b'ACGTacgtNn-', b'AT', b'ATat', bytes(range(256))]
	N = 1500 if tier == 'quick' else 40000
	for i in range(N):
		k = rnd.choice([1, 2, 3, 4, 5, 8, 11, 12, 13] if i % 4 else [1, 2, 3])
		L = rnd.choice([1, 1, 2, 2, 3, 5])
		prefix = _rand_seq(rnd, L, b'ACGT' if rnd.random() < .8 else b'AT')
		alpha = rnd.choice(alphas)
		nseq = rnd.choice([1, 1, 1, 2, 3])
		seqs = []
		for _ in range(nseq):
			n = rnd.choice([0, 1, L, L + k - 1, L + k, L + k + 1, rnd.randrange(0, 60), rnd.randrange(0, 200)])
			s = _rand_seq(rnd, n, alpha)
			# plant occurrences (both strands, overlapping, flush with the ends)
			for _ in range(rnd.randrange(0, 4)):
				if n >= L:
					pos = rnd.choice([0, n - L, rnd.randrange(0, n - L + 1)])
					pp = prefix if rnd.random() < .5 else [COMP[b] for b in reversed(prefix)]
					s[pos:pos + L] = pp
			seqs.append(s)
		yield {'k': k, 'prefix': prefix, 'seqs': seqs, 'type': rnd.choice(['bytes', 'bytearray', 'str', 'Seq']),
		       'acc': rnd.choice(['default', 'array', 'set']) if k <= 8 else rnd.choice(['default', 'set']),
		       'single': rnd.random() < .5}


def bounded(tier, seed):
	n, failures, sample = 0, [], []
	for c in cases(tier, seed):
		r = run_case(c)
		n += 1
		if len(sample) < 3 and n % 3001 == 17 and not c.get('big'):
			sample.append({'case': c, 'result': r})
		if not r.get('ok'):
			failures.append({'case': c, 'expected': r.get('expected'), 'actual': r.get('actual'), 'class': 'signature'})
			if len(failures) >= 5:
				break
	return {'tool': 'real calc_signature against a brute-force two-strand enumeration',
	        'bound': 'all ACGT sequences of length <= 5 (thorough 6) for 7 (k, prefix) pairs; random sequences < 200 bytes, k <= 13; planted k-mers over the whole index range for k = 4..32 at every index-dtype boundary; sequences of up to 2^21 (thorough 2^22) bytes with a match planted across every power-of-two offset, both strands; 4 input types, 3 accumulator choices',
	        'cases': n, 'failures': failures, 'samples': sample}
