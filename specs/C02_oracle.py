"""Executable specification for C02/C15: Python sets, exact rationals, one correct rounding to binary32."""
import itertools
import random
import struct
from fractions import Fraction

DTYPES = ['u2', 'u4', 'u8', 'i2', 'i4', 'i8']


def round_f32(q):
	"""Correctly rounded (nearest even) binary32 value of a rational 0 <= q <= 1, as a Python float."""
	if q == 0:
		return 0.0
	e = 0
	while Fraction(2) ** e > q:
		e -= 1
	while Fraction(2) ** (e + 1) <= q:
		e += 1
	scaled = q / Fraction(2) ** (e - 23)      # in [2^23, 2^24)
	m = scaled.numerator // scaled.denominator
	rem = scaled - m
	if rem > Fraction(1, 2) or (rem == Fraction(1, 2) and m % 2 == 1):
		m += 1
	return float(Fraction(m) * Fraction(2) ** (e - 23))


def bits(x):
	return struct.unpack('<I', struct.pack('<f', x))[0]


def spec_dist(a, b):
	A, B = set(a), set(b)
	u = len(A | B)
	if u == 0:
		return 0.0
	return round_f32(Fraction(len(A ^ B), u))


def run_case(case):
	import numpy as np
	import gambit.metric as gm
	a = np.array(case['a'], dtype=case.get('dta', 'u8'))
	b = np.array(case['b'], dtype=case.get('dtb', 'u8'))
	kind = case.get('kind', 'dist')
	exp = spec_dist(case['a'], case['b'])
	if kind == 'dist':
		act = gm.jaccarddist(a, b)
		ok = bits(float(act)) == bits(exp) and isinstance(act, float)
	elif kind == 'index':
		act = gm.jaccard(a, b)
		e1 = float(np.float32(1) - np.float32(exp))
		exp = e1
		ok = bits(float(act)) == bits(e1)
	elif kind == 'sym':
		act = gm.jaccarddist(b, a)
		ok = bits(float(act)) == bits(exp)
		if ok:
			# the same pair through the bulk entry points (reference kept in its own dtype, in an array-backed and a list container)
			from gambit.sigs import SignatureArray
			for name, fn in (('jaccarddist_array/SignatureArray', lambda: gm.jaccarddist_array(b, SignatureArray([a], dtype=a.dtype))[0]),
			                 ('jaccarddist_array/list', lambda: gm.jaccarddist_array(b, [a])[0]),
			                 ('jaccarddist_matrix', lambda: gm.jaccarddist_matrix([b], SignatureArray([a, a], dtype=a.dtype))[0, 1])):
				v = fn()
				if bits(float(v)) != bits(exp):
					return {'ok': False, 'expected': repr(exp), 'actual': f'{name}: {float(v)!r}'}
	else:
		return {'error': 'unknown kind'}
	return {'ok': bool(ok), 'expected': repr(exp), 'actual': repr(float(act))}


def _sets(rnd, tier):
	U = 6
	for mask_a in range(2 ** U):
		for mask_b in range(2 ** U):
			a = [i for i in range(U) if mask_a >> i & 1]
			b = [i for i in range(U) if mask_b >> i & 1]
			yield a, b
	n = 400 if tier == 'quick' else 20000
	tops = [2 ** 15 - 1, 2 ** 16 - 1, 2 ** 31 - 1, 2 ** 32 - 1, 2 ** 63 - 1, 2 ** 64 - 1, 50]
	for _ in range(n):
		# independent magnitudes for the two arrays, with values that collide modulo 2^16 / 2^32
		ta, tb = rnd.choice(tops), rnd.choice(tops)
		a = sorted(set(rnd.randrange(0, ta + 1) for _ in range(rnd.randrange(0, 12))) | set(rnd.sample(range(0, 40), rnd.randrange(0, 5))))
		b = set(rnd.randrange(0, tb + 1) for _ in range(rnd.randrange(0, 12)))
		for x in a[:3]:
			for sh in (2 ** 16, 2 ** 32):
				if x + sh <= tb and rnd.random() < .5:
					b.add(x + sh)
		yield [v for v in a if v <= ta], sorted(v for v in b if v <= tb)
	# size skew: one long array (hundreds to thousands of elements) against a very short one holding values that alias
	# members of the long one modulo 2^15 / 2^16 / 2^31 / 2^32 (and genuine common members)
	for _ in range(60 if tier == 'quick' else 1500):
		bitsl = rnd.choice([15, 16, 31, 32])
		size = rnd.choice([70, 300, 600, 1100, 4100])
		lo = rnd.choice([0, 2 ** bitsl - size - 5]) if 2 ** bitsl > size + 10 else 0
		long_ = sorted(rnd.sample(range(lo, min(2 ** bitsl, lo + size * 3)), size))
		short = set()
		for x in rnd.sample(long_, rnd.randrange(1, 4)):
			short.add(x + 2 ** (16 if bitsl <= 16 else 32) * rnd.choice([1, 2]))      # aliases x in the narrower width
		if rnd.random() < .5:
			short.add(rnd.choice(long_))                                                # a genuine common member
		if rnd.random() < .3:
			short.add(2 ** 64 - 1)
		pair = (long_, sorted(short))
		yield pair if rnd.random() < .5 else pair[::-1]
	for _ in range(n):
		top = rnd.choice([2 ** 15 - 1, 2 ** 16 - 1, 2 ** 31 - 1, 2 ** 32 - 1, 2 ** 63 - 1, 2 ** 64 - 1, 50, 1000])
		na, nb = rnd.randrange(0, 40), rnd.randrange(0, 40)
		pool = sorted(set([rnd.randrange(0, top + 1) for _ in range(60)] + [top, 0]))
		a = sorted(rnd.sample(pool, min(na, len(pool))))
		b = sorted(rnd.sample(pool, min(nb, len(pool))))
		yield a, b


def fits(vals, dt):
	import numpy as np
	info = np.iinfo(dt)
	return all(info.min <= v <= info.max for v in vals)


def bounded(tier, seed):
	rnd = random.Random(seed)
	n = 0
	failures, sample = [], []
	for a, b in _sets(rnd, tier):
		combos = [(x, y) for x, y in itertools.product(DTYPES, DTYPES) if fits(a, x) and fits(b, y)]
		if max(a + b + [0]) > 5 and len(combos) > 6:
			combos = rnd.sample(combos, 6)
		for dta, dtb in combos:
			if not fits(a, dta) or not fits(b, dtb):
				continue
			for kind in ('dist', 'index', 'sym'):
				if kind != 'dist' and n % 5:
					n += 1
					continue
				case = {'kind': kind, 'a': a, 'b': b, 'dta': dta, 'dtb': dtb}
				r = run_case(case)
				n += 1
				if len(sample) < 3 and n % 5000 == 11:
					sample.append({'case': case, 'result': r})
				if not r.get('ok'):
					failures.append({'case': case, 'expected': r.get('expected'), 'actual': r.get('actual'), 'class': kind})
					if len(failures) >= 5:
						return {'cases': n, 'failures': failures, 'samples': sample}
	return {'tool': 'exhaustive subsets of a 6-element universe x 6x6 dtypes + random large-valued sets, against Python sets + exact rational rounded once to binary32',
	        'bound': 'universe of 6 elements exhaustively; random sets of < 40 elements with values up to the dtype maxima; size-skewed pairs (70..4100 elements against 1..5) whose short side aliases the long side modulo 2^16 / 2^32',
	        'cases': n, 'failures': failures, 'samples': sample}
