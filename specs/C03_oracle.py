"""Executable specification for C03 (default classification) run against the real classify()."""
import random
from specs.classify_common import *


def run_case(case):
	if case.get('edits') is not None:
		return run_edit_case(case)
	taxa, genomes = build(case)
	return _classify_and_compare(case, taxa, genomes)


def _classify_and_compare(case, taxa, genomes):
	import numpy as np
	from gambit.classify import classify
	from gambit.db.models import reportable_taxon
	dists = np.array(case['dists'], dtype=np.float32)
	res = classify(genomes, dists, strict=False)
	dl = [float(x) for x in dists]
	closest = dl.index(min(dl))
	d = dl[closest]
	gt = case['genomes'][closest]
	exp = {
		'closest': closest,
		'predicted': spec_match(case, gt, d),
		'primary_is_closest': spec_match(case, gt, d) is not None,
		'next': spec_next(case, gt, d),
		'report': spec_report(case, spec_match(case, gt, d)),
	}
	act = {
		'closest': genomes.index(res.closest_match.genome),
		'predicted': tid(taxa, res.predicted_taxon),
		'primary_is_closest': res.primary_match is not None and res.primary_match.genome is res.closest_match.genome,
		'next': tid(taxa, res.next_taxon),
		'report': tid(taxa, reportable_taxon(res.predicted_taxon)),
	}
	if res.primary_match is None and exp['primary_is_closest'] is False:
		act['primary_is_closest'] = False
	ok = exp == act and float(res.closest_match.distance) == d
	# "default" classification: what a caller gets without asking for a mode - classify() without the strict argument and the
	# parameter object query() builds by default
	from gambit.query import QueryParams
	res_d = classify(genomes, dists)
	dflt = {'predicted': tid(taxa, res_d.predicted_taxon), 'next': tid(taxa, res_d.next_taxon), 'params_strict': QueryParams().classify_strict}
	if dflt != {'predicted': act['predicted'], 'next': act['next'], 'params_strict': False}:
		ok = False
		act = dict(act, default_mode=dflt)
	return {'ok': bool(ok), 'expected': exp, 'actual': act}


def run_edit_case(case):
	"""the SAME taxon objects are classified against, edited in place (thresholds, report flags, a parent link) and classified against
	again: every classification follows the taxonomy as it is at that moment"""
	import copy
	cur = copy.deepcopy(case)
	taxa, genomes = build(cur)
	for step, edit in enumerate([None] + case['edits']):
		if edit is not None:
			ti = edit['taxon']
			if edit['what'] == 'thr':
				cur['taxa'][ti]['thr'] = edit['value']
				taxa[ti].distance_threshold = edit['value']
			elif edit['what'] == 'report':
				cur['taxa'][ti]['report'] = edit['value']
				taxa[ti].report = edit['value']
			elif edit['what'] == 'parent' and edit['value'] != ti and ti not in lineage(cur, edit['value']):
				cur['taxa'][ti]['parent'] = edit['value']
				taxa[ti].parent = taxa[edit['value']]
		sub = dict(cur, dists=case['dists'])
		r = _classify_and_compare(sub, taxa, genomes)
		if not r['ok']:
			r['actual'] = dict(r['actual'], after_edits=case['edits'][:step])
			return r
	return {'ok': True, 'expected': 'taxonomy as edited', 'actual': 'ok'}


def cases(tier, seed):
	rnd = random.Random(seed)
	thr = [None, 0.0, .2, .5]
	for taxa in chains(3 if tier == 'quick' else 4, thr, (True, False) if tier != 'quick' else (True,)):
		for d in (0.0, .1, .2, .3, .5, .6):
			yield {'taxa': taxa, 'genomes': [0], 'dists': [d]}
	for taxa in chains(3, [None, .5], (True, False)):
		yield {'taxa': taxa, 'genomes': [0], 'dists': [.3]}
	for _ in range(1500 if tier == 'quick' else 30000):
		n = rnd.randrange(1, 8)
		taxa = random_forest(rnd, n)
		ng = rnd.randrange(1, 7)
		genomes = [rnd.randrange(n) for _ in range(ng)]
		dists = [rnd.choice([.1, .3, .5, .5, .7, .9, 0.0, 0.0, 1.0, rnd.random()]) for _ in range(ng)]
		yield {'taxa': taxa, 'genomes': genomes, 'dists': dists}
	# the taxonomy is edited in place between classifications
	for _ in range(300 if tier == 'quick' else 5000):
		n = rnd.randrange(2, 7)
		taxa = random_forest(rnd, n)
		ng = rnd.randrange(1, 4)
		genomes = [rnd.randrange(n) for _ in range(ng)]
		dists = [rnd.choice([.1, .3, .5, .7, 0.0, rnd.random()]) for _ in range(ng)]
		edits = []
		for _e in range(rnd.randrange(1, 4)):
			what = rnd.choice(['thr', 'thr', 'thr', 'report', 'parent'])
			ti = rnd.randrange(n)
			val = rnd.choice([None, 0.0, .1, .3, .5, .9]) if what == 'thr' else (rnd.random() < .5 if what == 'report' else rnd.randrange(n))
			edits.append({'what': what, 'taxon': ti, 'value': val})
		yield {'taxa': taxa, 'genomes': genomes, 'dists': dists, 'edits': edits}


def bounded(tier, seed):
	n, failures, sample = 0, [], []
	for c in cases(tier, seed):
		r = run_case(c)
		n += 1
		if len(sample) < 3 and n % 700 == 3:
			sample.append({'case': c, 'result': r})
		if not r.get('ok'):
			cls = 'other' if not (isinstance(r.get('expected'), dict) and isinstance(r.get('actual'), dict)) else 'next' if (r['expected'].get('next') != r['actual'].get('next') and {k: v for k, v in r['expected'].items() if k != 'next'} == {k: v for k, v in r['actual'].items() if k != 'next'}) else 'other'
			failures.append({'case': c, 'expected': r.get('expected'), 'actual': r.get('actual'), 'class': cls})
			if len(failures) >= 5:
				break
	return {'tool': 'real classify(strict=False) / reportable_taxon on ORM objects built without a session, against a list-based spec',
	        'bound': 'all single lineages of depth <= 3 (thorough 4) x thresholds {None,.2,.5} x 5 distances; random forests of <= 7 taxa, <= 6 genomes',
	        'cases': n, 'failures': failures, 'samples': sample}
