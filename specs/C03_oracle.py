"""Executable specification for C03 (default classification) run against the real classify()."""
import random
from specs.classify_common import *


def run_case(case):
	import numpy as np
	from gambit.classify import classify
	from gambit.db.models import reportable_taxon
	taxa, genomes = build(case)
	dists = np.array(case['dists'], dtype=np.float32)
	res = classify(genomes, dists, strict=False)
	dl = [float(x) for x in dists]
	closest = dl.index(min(dl))
	d = dl[closest]
	gt = case['genomes'][closest]
	exp = {
		'closest': closest,
		'predicted': spec_match(case, gt, d),
		'primary_is_closest': spec_match(case, gt, d) is not None,
		'next': spec_next(case, gt, d),
		'report': spec_report(case, spec_match(case, gt, d)),
	}
	act = {
		'closest': genomes.index(res.closest_match.genome),
		'predicted': tid(taxa, res.predicted_taxon),
		'primary_is_closest': res.primary_match is not None and res.primary_match.genome is res.closest_match.genome,
		'next': tid(taxa, res.next_taxon),
		'report': tid(taxa, reportable_taxon(res.predicted_taxon)),
	}
	if res.primary_match is None and exp['primary_is_closest'] is False:
		act['primary_is_closest'] = False
	ok = exp == act and float(res.closest_match.distance) == d
	# "default" classification: what a caller gets without asking for a mode - classify() without the strict argument and the
	# parameter object query() builds by default
	from gambit.query import QueryParams
	res_d = classify(genomes, dists)
	dflt = {'predicted': tid(taxa, res_d.predicted_taxon), 'next': tid(taxa, res_d.next_taxon), 'params_strict': QueryParams().classify_strict}
	if dflt != {'predicted': act['predicted'], 'next': act['next'], 'params_strict': False}:
		ok = False
		act = dict(act, default_mode=dflt)
	return {'ok': bool(ok), 'expected': exp, 'actual': act}


def cases(tier, seed):
	rnd = random.Random(seed)
	thr = [None, 0.0, .2, .5]
	for taxa in chains(3 if tier == 'quick' else 4, thr, (True, False) if tier != 'quick' else (True,)):
		for d in (0.0, .1, .2, .3, .5, .6):
			yield {'taxa': taxa, 'genomes': [0], 'dists': [d]}
	for taxa in chains(3, [None, .5], (True, False)):
		yield {'taxa': taxa, 'genomes': [0], 'dists': [.3]}
	for _ in range(1500 if tier == 'quick' else 30000):
		n = rnd.randrange(1, 8)
		taxa = random_forest(rnd, n)
		ng = rnd.randrange(1, 7)
		genomes = [rnd.randrange(n) for _ in range(ng)]
		dists = [rnd.choice([.1, .3, .5, .5, .7, .9, 0.0, 0.0, 1.0, rnd.random()]) for _ in range(ng)]
		yield {'taxa': taxa, 'genomes': genomes, 'dists': dists}


def bounded(tier, seed):
	n, failures, sample = 0, [], []
	for c in cases(tier, seed):
		r = run_case(c)
		n += 1
		if len(sample) < 3 and n % 700 == 3:
			sample.append({'case': c, 'result': r})
		if not r.get('ok'):
			cls = 'other' if not (isinstance(r.get('expected'), dict) and isinstance(r.get('actual'), dict)) else 'next' if (r['expected'].get('next') != r['actual'].get('next') and {k: v for k, v in r['expected'].items() if k != 'next'} == {k: v for k, v in r['actual'].items() if k != 'next'}) else 'other'
			failures.append({'case': c, 'expected': r.get('expected'), 'actual': r.get('actual'), 'class': cls})
			if len(failures) >= 5:
				break
	return {'tool': 'real classify(strict=False) / reportable_taxon on ORM objects built without a session, against a list-based spec',
	        'bound': 'all single lineages of depth <= 3 (thorough 4) x thresholds {None,.2,.5} x 5 distances; random forests of <= 7 taxa, <= 6 genomes',
	        'cases': n, 'failures': failures, 'samples': sample}
