"""Executable checks for C15 on the real code: metric axioms on concrete k-mer sets."""
import itertools
import random
import struct


def bits(x):
	return struct.unpack('<I', struct.pack('<f', x))[0]


def _arr(vals, dt='u8'):
	import numpy as np
	return np.array(sorted(vals), dtype=dt)


def run_case(case):
	import numpy as np
	import gambit.metric as gm
	kind = case['kind']
	if kind == 'decrease':
		s, u = int(case['s']), int(case['u'])
		# B subset of A, |A| = u, |A \\ B| = s  =>  |A xor B| = s, |A or B| = u
		A = np.arange(u, dtype='u4')
		B = np.arange(s, u, dtype='u4')
		d0 = gm.jaccarddist(A, B)
		A1 = np.arange(u + 1, dtype='u4')
		B1 = np.concatenate([B, np.array([u], dtype='u4')])
		d1 = gm.jaccarddist(A1, B1)
		ok = (d1 < d0) if s > 0 else (d1 == d0 == 0.0)
		return {'ok': bool(ok), 'expected': 'distance strictly decreases when a new common k-mer is added', 'actual': {'before': repr(float(d0)), 'after': repr(float(d1)), 's': s, 'u': u}}
	if kind == 'triple':
		A, B, C = [sorted(set(x)) for x in (case['A'], case['B'], case['C'])]
		dts = case.get('dts', ['u8', 'u8', 'u8'])
		a, b, c = _arr(A, dts[0]), _arr(B, dts[1]), _arr(C, dts[2])
		dab, dba = gm.jaccarddist(a, b), gm.jaccarddist(b, a)
		dbc, dac = gm.jaccarddist(b, c), gm.jaccarddist(a, c)
		problems = []
		for name, d in (('ab', dab), ('bc', dbc), ('ac', dac)):
			if not (0.0 <= d <= 1.0):
				problems.append(f'd{name} out of range: {d}')
		if bits(float(dab)) != bits(float(dba)):
			problems.append('not symmetric bit for bit')
		if (dab == 0.0) != (set(A) == set(B)):
			problems.append('zero iff equal violated')
		if (dab == 1.0) != (not (set(A) & set(B)) and bool(set(A) | set(B))):
			problems.append('one iff disjoint and not both empty violated')
		if float(dac) > float(dab) + float(dbc) + 2.0 ** -22:
			problems.append('triangle inequality violated beyond 2^-22')
		wide = gm.jaccarddist(_arr(A, 'u8'), _arr(B, 'i8'))
		if bits(float(wide)) != bits(float(dab)):
			problems.append('value depends on the integer width')
		# the same distance through the bulk entry points (reference stored in a SignatureArray of its own dtype / in a list)
		from gambit.sigs import SignatureArray
		for name, fn in (('jaccarddist_array/SignatureArray', lambda: gm.jaccarddist_array(a, SignatureArray([b, c], dtype=b.dtype if b.dtype == c.dtype else None))[0]),
		                 ('jaccarddist_array/list', lambda: gm.jaccarddist_array(a, [b, c])[0]),
		                 ('jaccarddist_matrix', lambda: gm.jaccarddist_matrix([a, c], SignatureArray([b], dtype=b.dtype))[0, 0])):
			if b.dtype != c.dtype and 'SignatureArray' in name:
				continue
			try:
				v = fn()
			except Exception as e:
				problems.append(f'{name} raised {type(e).__name__}: {e}')
				continue
			if bits(float(v)) != bits(float(dab)):
				problems.append(f'{name} gives {float(v)!r}, jaccarddist gives {float(dab)!r}')
		return {'ok': not problems, 'expected': 'metric axioms', 'actual': problems or 'ok'}
	return {'error': 'unknown kind'}


def bounded(tier, seed):
	rnd = random.Random(seed)
	n, failures, sample = 0, [], []
	U = 4 if tier == 'quick' else 5
	subsets = [[i for i in range(U) if m >> i & 1] for m in range(2 ** U)]
	DT = ['u2', 'u4', 'u8', 'i2', 'i4', 'i8']

	def run(c):
		nonlocal n
		r = run_case(c)
		n += 1
		if len(sample) < 3 and n % 1500 == 5:
			sample.append({'case': c, 'result': r})
		if not r.get('ok'):
			failures.append({'case': c, 'expected': r.get('expected'), 'actual': r.get('actual'), 'class': c['kind']})
	for A in subsets:
		for B in subsets:
			for C in subsets:
				run({'kind': 'triple', 'A': A, 'B': B, 'C': C, 'dts': [rnd.choice(DT) for _ in range(3)]})
				if len(failures) >= 5:
					return {'cases': n, 'failures': failures, 'samples': sample}
	for _ in range(300 if tier == 'quick' else 5000):
		pool = rnd.sample(range(0, 2 ** 15), 40)
		A, B, C = [rnd.sample(pool, rnd.randrange(0, 30)) for _ in range(3)]
		run({'kind': 'triple', 'A': A, 'B': B, 'C': C, 'dts': [rnd.choice(DT) for _ in range(3)]})
	# sets that are disjoint as integers but coincide modulo a narrower width (each array stored in the narrowest dtype that holds it)
	fit = lambda vals, signed: next(d for d, hi in ((('i2', 2 ** 15), ('i4', 2 ** 31), ('i8', 2 ** 63)) if signed else (('u2', 2 ** 16), ('u4', 2 ** 32), ('u8', 2 ** 64))) if all(v < hi for v in vals))
	for _ in range(150 if tier == 'quick' else 2000):
		base = rnd.sample(range(0, 2 ** 15), rnd.randrange(1, 6))
		shift = rnd.choice([2 ** 16, 2 ** 32, 2 ** 16 + 2 ** 32, 2 ** 15, 2 ** 31])
		A = list(base)
		B = [v + shift for v in rnd.sample(base, rnd.randrange(1, len(base) + 1))] + rnd.sample(base, rnd.randrange(0, len(base) + 1))[:rnd.randrange(0, 3)]
		C = [v + rnd.choice([0, shift, 2 * shift]) for v in rnd.sample(base, rnd.randrange(1, len(base) + 1))] + [rnd.randrange(2 ** 33)]
		sg = rnd.random() < .3
		sets = [A, B, C]
		rnd.shuffle(sets)
		run({'kind': 'triple', 'A': sets[0], 'B': sets[1], 'C': sets[2], 'dts': [fit(x, sg) for x in sets]})
	# size skew (one set with hundreds of elements, the others tiny and aliasing it modulo a narrower width)
	for _ in range(40 if tier == 'quick' else 600):
		bitsl = rnd.choice([16, 32])
		size = rnd.choice([80, 600, 1500])
		big = sorted(rnd.sample(range(0, min(2 ** bitsl, 20000)), size))
		small1 = sorted({x + 2 ** bitsl for x in rnd.sample(big, 2)} | ({rnd.choice(big)} if rnd.random() < .5 else set()))
		small2 = sorted({x + 2 ** bitsl * 2 for x in rnd.sample(big, 1)} | {7})
		sets = [big, small1, small2]
		rnd.shuffle(sets)
		run({'kind': 'triple', 'A': sets[0], 'B': sets[1], 'C': sets[2], 'dts': [fit(x, False) for x in sets]})
	for _ in range(40 if tier == 'quick' else 400):
		u = rnd.randrange(1, 2 ** 14)
		run({'kind': 'decrease', 's': rnd.randrange(0, u + 1), 'u': u})
	return {'tool': 'metric axioms on the real jaccarddist', 'bound': f'all triples of subsets of a {U}-element universe with random dtypes; random sets; sets aliasing modulo 2^15/2^16/2^31/2^32 stored in their narrowest dtypes; strict decrease for |A or B| < 2^14',
	        'cases': n, 'failures': failures[:5], 'samples': sample}
