"""Executable specification for C10 (strict classification): set-based consensus over explicit parent maps, checked on the
real classify(strict=True) for every order of the reference genomes (small cases exhaustively)."""
import itertools
import random
from specs.classify_common import *


def spec_strict(case):
	n = len(case['genomes'])
	dl = [f32(d) for d in case['dists']]
	matched = [spec_match(case, case['genomes'][i], dl[i]) for i in range(n)]
	T = sorted(set(m for m in matched if m is not None))
	if not T:
		return {'predicted': None, 'success': True, 'warn': False, 'primary_dist': None}
	lins = {t: lineage(case, t) for t in T}
	roots = set(l[-1] for l in lins.values())
	if len(roots) > 1:
		return {'predicted': None, 'success': False, 'warn': True, 'primary_dist': None}
	union = set(x for l in lins.values() for x in l)
	def comparable(x, t):
		return x in lins[t] or t in lineage(case, x)
	C = [x for x in union if all(comparable(x, t) for t in T)]
	c = max(C, key=lambda x: len(lineage(case, x)))
	below = [t for t in T if t != c and c in lins[t]]
	at_or_below = [i for i in range(n) if matched[i] is not None and c in lins[matched[i]]]
	return {'predicted': c, 'success': True, 'warn': bool(below), 'primary_dist': min(dl[i] for i in at_or_below)}


def _observe(case, order):
	import numpy as np
	from gambit.classify import classify
	sub = dict(case, genomes=[case['genomes'][i] for i in order], dists=[case['dists'][i] for i in order])
	taxa, genomes = build(sub)
	res = classify(genomes, np.array(sub['dists'], dtype=np.float32), strict=True)
	warn_inconsistent = any('inconsistent' in w for w in res.warnings)
	pm = res.primary_match
	pm_ok = None
	if pm is not None:
		pm_ok = {'dist': float(pm.distance), 'taxon_at_or_below': res.predicted_taxon in list(pm.matched_taxon.ancestors(incself=True)) if pm.matched_taxon is not None else False}
	return {'predicted': tid(taxa, res.predicted_taxon), 'success': bool(res.success), 'warn': warn_inconsistent or (res.error is not None),
	        'primary': pm_ok}


def run_case(case):
	n = len(case['genomes'])
	exp = spec_strict(case)
	orders = list(itertools.permutations(range(n))) if n <= 5 else [list(range(n))] + [random.Random(s).sample(range(n), n) for s in range(20)]
	for order in orders:
		act = _observe(case, list(order))
		ok = act['predicted'] == exp['predicted'] and act['success'] == exp['success'] and act['warn'] == exp['warn']
		if exp['primary_dist'] is None:
			ok = ok and act['primary'] is None
		else:
			ok = ok and act['primary'] is not None and act['primary']['dist'] == exp['primary_dist'] and act['primary']['taxon_at_or_below']
		if not ok:
			return {'ok': False, 'expected': exp, 'actual': dict(act, order=list(order))}
	return {'ok': True, 'expected': exp, 'actual': 'same for all %d orders' % len(orders)}


def cases(tier, seed):
	rnd = random.Random(seed)
	# the three-level conflict and friends, explicitly
	G_S_S1 = [{'parent': None, 'thr': .9}, {'parent': 0, 'thr': .6}, {'parent': 1, 'thr': .3}, {'parent': 0, 'thr': .6}]   # G > S > S1, G > S'
	yield {'taxa': G_S_S1, 'genomes': [1, 3, 2], 'dists': [.5, .5, .2]}
	yield {'taxa': G_S_S1, 'genomes': [2, 3, 1], 'dists': [.2, .5, .5]}
	yield {'taxa': G_S_S1 + [{'parent': None, 'thr': .9}], 'genomes': [1, 4], 'dists': [.5, .5]}
	# structured families: genus > species (often without a threshold) > three subspecies, one genome in each, with
	# thresholds and distances around each other (consensus above some matches, closest genome matching only higher up, ...)
	thr_opts = [None, .05, .3, .5]
	d_opts = [.02, .1, .2, .25, .4, .6]
	for _ in range(500 if tier == 'quick' else 6000):
		taxa = [{'parent': None, 'thr': rnd.choice(thr_opts)}, {'parent': 0, 'thr': rnd.choice(thr_opts)}]
		for _k in range(3):
			taxa.append({'parent': 1, 'thr': rnd.choice(thr_opts)})
		if rnd.random() < .3:
			taxa.append({'parent': 0, 'thr': rnd.choice(thr_opts)})
		ng = rnd.choice([3, 3, 4])
		genomes = [2, 3, 4] + [rnd.randrange(len(taxa))] * (ng - 3)
		yield {'taxa': taxa, 'genomes': genomes, 'dists': [rnd.choice(d_opts) for _ in range(ng)]}
	for _ in range(400 if tier == 'quick' else 8000):
		nt = rnd.randrange(1, 7)
		taxa = random_forest(rnd, nt)
		for t in taxa:
			if rnd.random() < .6:
				t['thr'] = rnd.choice([.3, .5, .7, .9])
		ng = rnd.randrange(1, 5 if tier == 'quick' else 6)
		yield {'taxa': taxa, 'genomes': [rnd.randrange(nt) for _ in range(ng)], 'dists': [rnd.choice([.1, .3, .5, .7, .95, 0.0]) for _ in range(ng)]}


def bounded(tier, seed):
	n, failures, sample = 0, [], []
	for c in cases(tier, seed):
		r = run_case(c)
		n += 1
		if len(sample) < 2 and n % 100 == 5:
			sample.append({'case': c, 'result': r})
		if not r.get('ok'):
			failures.append({'case': c, 'expected': r.get('expected'), 'actual': r.get('actual'), 'class': 'order-dependence' if (isinstance(r.get('actual'), dict) and r['actual'].get('order') != list(range(len(c['genomes'])))) else 'wrong'})
			if len(failures) >= 3:
				break
	return {'tool': 'real classify(strict=True) under every permutation of the reference genomes against a set-based consensus spec',
	        'bound': 'forests of <= 6 taxa, <= 4 genomes (thorough 5), all orders', 'cases': n, 'failures': failures, 'samples': sample}
