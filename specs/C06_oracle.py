"""Executable check for C06 (bounded stand-in for the parts no contract reaches: the Bio.SeqIO FASTA parser, gzip, text decoding):
the real calc_file_signature on generated multi-contig genomes under every content-preserving rewrite of the file."""
import gzip
import os
import random
import shutil
import tempfile
from specs.C01_oracle import spec_signature

RC = bytes.maketrans(b'ACGTacgt', b'TGCAtgca')


def revcomp(s):
	return s.translate(RC)[::-1]


def _genome(rnd, k, prefix, ncontigs):
	"""contigs with matches planted flush with both ends on both strands, and contig junctions that would form a k-mer if contigs were joined"""
	alpha = b'ACGT' if rnd.random() < .7 else b'ACGTN'
	contigs = []
	kmer = lambda: bytes(rnd.choice(b'ACGT') for _ in range(k))
	for c in range(ncontigs):
		body = bytes(rnd.choice(alpha) for _ in range(rnd.choice([0, 1, k, k + len(prefix), 12, 30])))
		kind = rnd.randrange(6)
		if kind == 0:
			body = body + prefix + kmer()                     # forward match flush with the 3' end
		elif kind == 1:
			body = revcomp(prefix + kmer()) + body            # reverse match flush with the 5' end
		elif kind == 2:
			body = body + prefix + kmer()[:-1]                # one base short of a match at the end
		elif kind == 3:
			body = body + prefix                              # the k-mer would have to come from the NEXT contig
		elif kind == 4:
			body = revcomp(kmer()) + revcomp(prefix)[:-1]     # truncated reverse match
		contigs.append(body)
	return contigs


def _write(path, contigs, rnd, width, eol, final_newline, gz, blank_desc, members=1):
	lines = []
	for i, c in enumerate(contigs):
		lines.append(b'>contig%d' % i + (b' some description ATGAC' if blank_desc else b''))
		if width is None or width >= len(c):
			if len(c):
				lines.append(c)
		else:
			lines += [c[j:j + width] for j in range(0, len(c), width)]
	data = eol.join(lines) + (eol if final_newline else b'')
	if gz and members > 1:
		# a gzip file may consist of several members (cat a.gz b.gz, bgzip, pigz -i): it decompresses to their concatenation
		cuts = sorted(rnd.sample(range(1, max(2, len(data))), min(members - 1, max(1, len(data) - 1)))) if len(data) > 2 else []
		parts = [data[a:b] for a, b in zip([0] + cuts, cuts + [len(data)])]
		with open(path, 'wb') as f:
			for part in parts:
				f.write(gzip.compress(part))
		return
	with (gzip.open(path, 'wb') if gz else open(path, 'wb')) as f:
		f.write(data)


_UP = bytes.maketrans(b'acgt', b'ACGT')
_COMP0 = bytes(({65: 84, 67: 71, 71: 67, 84: 65}).get(b, 0) for b in range(256))
_DIG = bytes.maketrans(b'ACGT', b'0123')


def fast_spec_signature(k, prefix, contigs):
	"""the same specification as spec_signature (k-mers directly following the prefix on either strand), written over bytes so that
	megabase contigs are affordable; cross-validated against the brute-force version on every small genome of the run"""
	out = set()
	for s in contigs:
		U = s.translate(_UP)
		for text in (U, U.translate(_COMP0)[::-1]):
			q = text.find(prefix)
			while q != -1:
				kmer = text[q + len(prefix):q + len(prefix) + k]
				if len(kmer) == k and not kmer.translate(None, b'ACGT'):
					out.add(int(kmer.translate(_DIG), 4))
				q = text.find(prefix, q + 1)
	return sorted(out)


_TO_NUC = bytes(b'ACGT'[b & 3] for b in range(256))


def _long_genome(rnd, k, prefix, case):
	"""contigs longer than any plausible buffer / window / chunk size (2^16, 10^6, 2^20 by default), with one match planted across EVERY
	multiple of those sizes at a controlled distance from it - forward strand and reverse strand alternate, the distance cycles through
	1..total_len-1 over the contigs - so that a k-mer lost at a chunk edge cannot hide"""
	T = len(prefix) + k
	contigs, planted = [], 0
	for c in range(case['ncontigs']):
		L = case['length'] + rnd.randrange(0, 50)
		if case.get('background') == 'C':
			body = bytearray(b'C' * L)
		else:
			body = bytearray(rnd.randbytes(L).translate(_TO_NUC))
		bounds = sorted({m for step in case['steps'] for m in range(step, L, step)})
		for j, B in enumerate(bounds):
			o = 1 + (c // 2 + j * case.get('stride', 0)) % (T - 1)   # the match starts o positions before the boundary and ends after it
			kmer = bytes(rnd.choice(b'ACGT') for _ in range(k))
			m = prefix + kmer if c % 2 == 0 else revcomp(prefix + kmer)
			body[B - o:B - o + T] = m
			planted += 1
		contigs.append(bytes(body))
	return contigs, planted


def run_long_case(case):
	from gambit.kmers import KmerSpec
	from gambit.seq import SequenceFile
	from gambit.sigs.calc import calc_file_signature, calc_signature
	rnd = random.Random(case['seed'])
	k, prefix = case['k'], case['prefix'].encode()
	ks = KmerSpec(k, case['prefix'])
	contigs, planted = _long_genome(rnd, k, prefix, case)
	exp = fast_spec_signature(k, prefix, contigs)
	tmp = tempfile.mkdtemp(prefix='c06L_')
	problems = []
	try:
		for v in range(3):
			cs = list(contigs)
			if v == 1:
				cs = [revcomp(c) for c in cs]
			elif v == 2:
				cs = [revcomp(c) if rnd.random() < .5 else c for c in cs]
				rnd.shuffle(cs)
			path = os.path.join(tmp, f'L{v}.fa' + ('.gz' if v == 2 else ''))
			_write(path, cs, rnd, [None, 80, 61][v], [b'\n', b'\n', b'\r\n'][v], True, v == 2, False)
			try:
				got = list(map(int, calc_file_signature(ks, SequenceFile(path, 'fasta', 'auto'))))
			except Exception as e:
				got = f'raised {type(e).__name__}: {e}'
			if got != exp:
				d = sorted(set(exp) ^ set(got))[:5] if not isinstance(got, str) else got
				problems.append({'variant': ['as generated', 'every contig reverse-complemented', 'random contigs reverse-complemented, shuffled, gzip, CRLF'][v],
				                 'contig lengths': [len(c) for c in cs], 'planted matches': planted, 'differing k-mer indices': d,
				                 'expected size': len(exp), 'got size': len(got) if not isinstance(got, str) else None})
				break
		if not problems:
			per = sorted(set().union(*[set(map(int, calc_signature(ks, c))) for c in contigs]))
			if per != exp:
				problems.append('union of per-contig signatures (calc_signature) differs from the specification')
		return {'ok': not problems, 'expected': exp[:8], 'actual': problems or 'ok'}
	finally:
		shutil.rmtree(tmp, ignore_errors=True)


def run_case(case):
	if case.get('long'):
		return run_long_case(case)
	from gambit.kmers import KmerSpec
	from gambit.seq import SequenceFile
	from gambit.sigs.calc import calc_file_signature, calc_signature
	rnd = random.Random(case['seed'])
	k, prefix = case['k'], case['prefix'].encode()
	ks = KmerSpec(k, case['prefix'])
	contigs = _genome(rnd, k, prefix, case['ncontigs'])
	exp = spec_signature(k, prefix, contigs)
	# the union clause, through the library's own per-contig signatures
	per = sorted(set().union(*[set(map(int, calc_signature(ks, c))) for c in contigs])) if contigs else []
	tmp = tempfile.mkdtemp(prefix='c06_')
	try:
		problems = []
		if per != exp:
			problems.append('union of per-contig signatures differs from the specification')
		if fast_spec_signature(k, prefix, contigs) != exp:
			raise RuntimeError('oracle self-check: the bytes-level specification disagrees with the brute-force one')
		for v in range(case.get('variants', 6)):
			cs = list(contigs)
			if v > 0:
				cs = [revcomp(c) if rnd.random() < .5 else c for c in cs]
				rnd.shuffle(cs)
				cs = [bytes((b | 0x20) if rnd.random() < case.get('lower', .3) and chr(b).isalpha() else b for b in c) for c in cs]
			width = None if v == 0 else rnd.choice([1, 2, 3, 7, 60, 61, 80, None])
			eol = b'\n' if v == 0 else rnd.choice([b'\n', b'\r\n'])
			gz = v > 0 and rnd.random() < .5
			ext = rnd.choice(['.fasta', '.fa', '.fna', '.fasta.gz', '.gz', '', '.txt'])       # the name says nothing about the content
			path = os.path.join(tmp, f'g{v}{ext}')
			_write(path, cs, rnd, width, eol, final_newline=(v == 0 or rnd.random() < .6), gz=gz, blank_desc=rnd.random() < .5, members=rnd.choice([1, 1, 2, 4]))
			if case.get('fail_before') and v == 2:
				# a computation that fails part-way (truncated gzip of a larger genome) must not influence the next one
				bad = os.path.join(tmp, 'bad.fasta.gz')
				big = b''.join(b'>x%d\n' % i + bytes(rnd.choice(b'ACGT') for _ in range(4000)) + b'\n' for i in range(12))
				blob = gzip.compress(big)
				open(bad, 'wb').write(blob[:int(len(blob) * .6)])
				try:
					calc_file_signature(ks, SequenceFile(bad, 'fasta', 'auto'))
					problems.append('a truncated gzip file was accepted')
				except Exception:
					pass
			try:
				got = list(map(int, calc_file_signature(ks, SequenceFile(path, 'fasta', 'auto'))))
			except Exception as e:
				got = f'raised {type(e).__name__}: {e}'
			if got != exp:
				problems.append({'variant': v, 'width': width, 'crlf': eol == b'\r\n', 'gzip': gz, 'ext': ext, 'contigs': [c.decode() for c in cs], 'got': got if isinstance(got, str) else got[:8]})
				break
		return {'ok': not problems, 'expected': exp[:8], 'actual': problems or 'ok'}
	finally:
		shutil.rmtree(tmp, ignore_errors=True)


def bounded(tier, seed):
	rnd = random.Random(seed)
	n, failures, sample = 0, [], []
	N = 150 if tier == 'quick' else 3000
	for i in range(N):
		k = rnd.choice([1, 2, 3, 4, 5])
		prefix = rnd.choice(['A', 'AT', 'ATG', 'GC', 'ATGAC'][:4 if k > 1 else 5])
		c = {'seed': rnd.randrange(10 ** 9), 'k': k, 'prefix': prefix, 'ncontigs': rnd.choice([1, 2, 3, 5]), 'variants': 5, 'lower': rnd.choice([0, .3, 1]), 'fail_before': i % 5 == 0}
		r = run_case(c)
		n += 1
		if len(sample) < 2 and i % 50 == 7:
			sample.append({'case': c, 'result': {'ok': r.get('ok')}})
		if not r.get('ok'):
			failures.append({'case': c, 'expected': r.get('expected'), 'actual': r.get('actual'), 'class': 'file'})
			if len(failures) >= 4:
				break
	# long contigs: every multiple of 2^16, 10^6 and 2^20 is straddled by a planted match
	LONG = [{'k': 11, 'prefix': 'ATGAC', 'ncontigs': 4, 'length': (1 << 20) + (1 << 16) + 100, 'steps': [1 << 16, 10 ** 6, 1 << 20], 'stride': rnd.randrange(1, 15)},
	        {'k': 4, 'prefix': 'ATG', 'ncontigs': 12, 'length': (1 << 20) + 100, 'steps': [1 << 16, 1 << 20], 'background': 'C'},
	        {'k': 11, 'prefix': 'ATGAC', 'ncontigs': 30, 'length': (1 << 16) + 100, 'steps': [1 << 12, 1 << 16], 'background': 'C'}]
	if tier != 'quick':
		LONG += [{'k': 11, 'prefix': 'ATGAC', 'ncontigs': 30, 'length': (1 << 21) + 100, 'steps': [1 << 16, 10 ** 6, 1 << 20]},
		         {'k': 7, 'prefix': 'AT', 'ncontigs': 16, 'length': (1 << 22) + 100, 'steps': [1 << 16, 1 << 20, 1 << 22], 'background': 'C'},
		         {'k': 16, 'prefix': 'ATGAC', 'ncontigs': 40, 'length': (1 << 20) + 100, 'steps': [1 << 16, 1 << 20], 'background': 'C'}]
	for lc in LONG:
		c = dict(lc, long=True, seed=rnd.randrange(10 ** 9))
		r = run_case(c)
		n += 1
		if not r.get('ok'):
			failures.append({'case': c, 'expected': r.get('expected'), 'actual': r.get('actual'), 'class': 'long-contig'})
	return {'tool': 'real calc_file_signature / calc_signature on generated FASTA files against the brute-force specification',
	        'bound': f'{N} genomes of <= 5 contigs (matches planted flush with both contig ends on both strands, junctions that would match if contigs were joined) x 5 rewrites each: per-contig reverse complement, contig shuffle, per-letter case, line width 1..80/unwrapped, LF/CRLF, final newline or not, gzip or not (single- and multi-member), 7 file extensions; every fifth genome has a failing computation (truncated gzip) interleaved; plus {len(LONG)} genomes of contigs longer than 2^16 .. 2^22 with a match planted across every multiple of 2^12/2^16/10^6/2^20/2^22 at every distance 1..total_len-1 on alternating strands (3 rewrites each)',
	        'cases': n, 'failures': failures, 'samples': sample}
