"""Executable check for C17: the tree is the UPGMA dendrogram of the pairwise distances (real hclust/linkage_to_bio_tree
and the real `gambit tree` command; Newick parsed back with Biopython; heights from scipy's cophenetic distances)."""
import io
import os
import random
import re
import sys


def _check_tree(tree, labels, dmat, atol):
	import numpy as np
	from scipy.cluster.hierarchy import linkage, cophenet
	from scipy.spatial.distance import squareform
	problems = []
	leaves = tree.get_terminals()
	names = [l.name for l in leaves]
	if sorted(names) != sorted(labels):
		problems.append(f'leaves {sorted(names)[:4]} != labels {sorted(labels)[:4]}')
		return problems
	for c in tree.find_clades():
		if not c.is_terminal() and len(c.clades) != 2:
			problems.append('not binary')
		if c is not tree.root and (c.branch_length is None or c.branch_length < -atol):
			problems.append(f'negative or missing branch length {c.branch_length}')
	depths = tree.depths()
	d = [depths[l] for l in leaves]
	if max(d) - min(d) > atol * 4:
		problems.append('leaves not equidistant from the root')
	n = len(labels)
	if n >= 2:
		coph = squareform(cophenet(linkage(squareform(dmat, checks=False), method='average')))
		by_name = {l.name: l for l in leaves}
		if len(set(labels)) == n:
			for i in range(n):
				for j in range(i + 1, n):
					pl = tree.distance(by_name[labels[i]], by_name[labels[j]])
					if abs(pl - 2 * coph[i, j]) > atol * 8:
						problems.append(f'path({labels[i]},{labels[j]}) = {pl} but 2 x merge height = {2 * coph[i, j]}')
						return problems
	return problems


def run_case(case):
	import numpy as np
	from gambit.cluster import hclust, linkage_to_bio_tree
	rnd = random.Random(case['seed'])
	n = case['n']
	if case['kind'] == 'library':
		vals = [0.0, 0.25, 0.5, 0.5, 0.75, 1.0]
		dmat = np.zeros((n, n), dtype=np.float32)
		for i in range(n):
			for j in range(i + 1, n):
				dmat[i, j] = dmat[j, i] = rnd.choice(vals) if case.get('ties') else rnd.random()
		if case.get('identical') and n >= 2:
			dmat[0, 1] = dmat[1, 0] = 0.0
			for k in range(n):
				dmat[1, k] = dmat[0, k]
				dmat[k, 1] = dmat[k, 0]
			dmat[1, 1] = 0.0
		labels = [f'g{i}' for i in range(n)]
		link = hclust(dmat)
		tree = linkage_to_bio_tree(link, labels)
		problems = _check_tree(tree, labels, dmat, 1e-6)
		return {'ok': not problems, 'expected': 'UPGMA dendrogram', 'actual': problems or 'ok'}
	# the real command
	from Bio import Phylo
	from specs.C08_oracle import _root, spec_label
	from gambit.kmers import KmerSpec
	from gambit.metric import jaccarddist
	from specs.C16_oracle import _sig
	root = _root()
	gdir = os.path.join(root, 'queries', 'genomes')
	allg = sorted(set(re.sub(r'\.fasta(\.gz)?$', '', f) for f in os.listdir(gdir)))
	gs = rnd.sample(allg, n)
	paths = [os.path.join(gdir, g + '.fasta') for g in gs]
	dup_tmp = None
	if case.get('dups'):
		# some genomes occur several times under different names (identical content: distance 0), next to distinct ones
		import tempfile, shutil
		dup_tmp = tempfile.mkdtemp(prefix='c17d_')
		for j in range(case['dups']):
			src = paths[j % 2]
			dst = os.path.join(dup_tmp, f'copy{j}_of_{os.path.basename(src)}')
			shutil.copy(src, dst)
			paths.insert(rnd.randrange(len(paths) + 1), dst)
	if case.get('odd_names'):
		# labels that need quoting in Newick (white space, brackets, quotes, colons, commas, semicolons - in first, middle and last position)
		import tempfile, shutil
		dup_tmp = dup_tmp or tempfile.mkdtemp(prefix='c17d_')
		pool = list(ODD_NAMES)
		rnd.shuffle(pool)
		for j in range(len(paths)):
			if j < len(pool) and (j % 3 != 2):
				dst = os.path.join(dup_tmp, pool[j] + '.fasta')
				shutil.copy(paths[j], dst)
				paths[j] = dst
	from gambit.cli import cli
	old = sys.stdout
	sys.stdout = buf = io.StringIO()
	try:
		if case['kind'] == 'cli_sigs':
			# the signature-file channel: labels are the stored ids
			import tempfile, shutil
			tmp = tempfile.mkdtemp(prefix='c17_')
			try:
				sf = os.path.join(tmp, 'q.gs')
				cli.main(['signatures', 'create', '--no-progress', '-k', '6', '-p', 'AT', '-o', sf] + paths, standalone_mode=False)
				cli.main(['tree', '--no-progress', '-s', sf], standalone_mode=False)
			finally:
				shutil.rmtree(tmp, ignore_errors=True)
		elif case['kind'] == 'cli_list':
			import tempfile, shutil
			tmp = tempfile.mkdtemp(prefix='c17_')
			try:
				lf = os.path.join(tmp, 'l.txt')
				open(lf, 'w').write(''.join((os.path.basename(p) if os.path.dirname(p) == gdir else p) + '\n' for p in paths))
				cli.main(['tree', '--no-progress', '-k', '6', '-p', 'AT', '-l', lf, '--ldir', gdir] + (['-c', str(case['cores'])] if case.get('cores') else []), standalone_mode=False)
			finally:
				shutil.rmtree(tmp, ignore_errors=True)
		else:
			cli.main(['tree', '--no-progress', '-k', '6', '-p', 'AT'] + (['-c', str(case['cores'])] if case.get('cores') else []) + paths, standalone_mode=False)
	except SystemExit:
		pass
	finally:
		sys.stdout = old
	if case['kind'] == 'cli_list' and dup_tmp:
		pass
	tree = Phylo.read(io.StringIO(buf.getvalue()), 'newick')
	for t in tree.get_terminals():
		if t.name is not None:
			t.name = t.name.replace("\\'", "'").replace('\\\\', '\\')      # inverse of the writer's escaping inside quoted labels
	ks = KmerSpec(6, 'AT')
	sigs = [_sig(p, ks) for p in paths]
	dmat = np.array([[float(jaccarddist(a, b)) for b in sigs] for a in sigs])
	problems = _check_tree(tree, [spec_label(p) for p in paths], dmat, 2e-5)     # Newick carries 5 decimals
	if dup_tmp:
		import shutil
		shutil.rmtree(dup_tmp, ignore_errors=True)
	return {'ok': not problems, 'expected': 'UPGMA dendrogram of the pairwise distances', 'actual': problems or 'ok'}


# (a label that BEGINS with a single quote is left out: Bio.Phylo's own Newick reader does not read back what its writer produces for it,
#  so the oracle, which parses the output with that reader, could not tell a correct tree from a wrong one)
ODD_NAMES = ['E coli K-12', 'sample (1)', 'iso[2]', "O'Brien_7", 'run:5,lane;3', '(lead', 'trail)', 'semi;colon', 'a:b', 'x,y', 'two  spaces', "it's", '[whole]',
             'tab\there', 'under_score-dash.dot', 'quote"double', 'end:', ';start', 'a(b)c:d,e;f[g]h']


def bounded(tier, seed):
	rnd = random.Random(seed)
	cases = []
	for kind in ('cli', 'cli_sigs', 'cli_list'):
		for n in ((5, 9) if tier == 'quick' else (2, 3, 5, 9, 13, 20)):
			cases.append({'kind': kind, 'seed': rnd.randrange(10 ** 6), 'n': n, 'odd_names': True})
	for _ in range(60 if tier == 'quick' else 1500):
		cases.append({'kind': 'library', 'seed': rnd.randrange(10 ** 6), 'n': rnd.choice([2, 3, 4, 5, 8, 13]), 'ties': rnd.random() < .5, 'identical': rnd.random() < .3})
	for _ in range(6 if tier == 'quick' else 40):
		cases.append({'kind': rnd.choice(['cli', 'cli_sigs', 'cli_list']), 'seed': rnd.randrange(10 ** 6), 'n': rnd.choice([2, 3, 5, 9])})
	# duplicated genomes (zero distances inside a group) next to distinct ones, every channel
	for kind, n, dups in (('cli', 3, 1), ('cli_sigs', 4, 2), ('cli_list', 3, 3), ('cli_sigs', 5, 1)):
		cases.append({'kind': kind, 'seed': rnd.randrange(10 ** 6), 'n': n, 'dups': dups})
	# many more genomes than worker processes (work is then split into batches / chunks per worker)
	for kind, n, cores in (('cli', 9, 1), ('cli_list', 11, 2), ('cli', 6, 1)):
		cases.append({'kind': kind, 'seed': rnd.randrange(10 ** 6), 'n': n, 'cores': cores})
	n, failures, sample = 0, [], []
	for c in cases:
		r = run_case(c)
		n += 1
		if len(sample) < 2 and n % 20 == 1:
			sample.append({'case': c, 'result': r})
		if not r.get('ok'):
			failures.append({'case': c, 'expected': r.get('expected'), 'actual': r.get('actual'), 'class': c['kind']})
			if len(failures) >= 3:
				break
	return {'tool': 'real hclust + linkage_to_bio_tree on random matrices (zeros, ties, identical genomes) and the real `gambit tree` command (files, list file, signature file), against scipy cophenetic distances',
	        'bound': f'{len(cases)} cases, <= 13 leaves (20 in the thorough tier); labels incl. white space, brackets, quotes, colons, commas and semicolons in every position, every channel', 'cases': n, 'failures': failures, 'samples': sample}
