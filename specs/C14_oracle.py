"""Executable check for C14: the real CLI (in-process) with signature files built for chosen k-mer parameters."""
import os
import random
import shutil
import tempfile

DB = None


def _db():
	import gambit
	here = os.path.dirname(os.path.dirname(os.path.dirname(gambit.__file__)))
	for cand in (os.path.join(here, 'tests', 'data', 'testdb_210818'), '/repo/tests/data/testdb_210818'):
		if os.path.isdir(cand):
			return cand
	raise RuntimeError('test database not found')


def _mksigs(path, k, prefix, n, seed):
	import numpy as np
	from gambit.kmers import KmerSpec
	from gambit.sigs import SignatureArray, AnnotatedSignatures, dump_signatures
	rnd = random.Random(seed)
	ks = KmerSpec(k, prefix)
	sigs = [np.array(sorted(rnd.sample(range(min(4 ** k, 4000)), rnd.randrange(1, 30))), dtype=ks.index_dtype) for _ in range(n)]
	dump_signatures(path, AnnotatedSignatures(SignatureArray(sigs, ks), [f's{i}' for i in range(n)]))


def _run(argv):
	import click
	from gambit.cli import cli
	try:
		cli.main(argv, standalone_mode=False)
		return 'ok'
	except click.ClickException as e:
		return 'ClickException'
	except SystemExit as e:
		return 'ok' if not e.code else f'exit{e.code}'
	except Exception as e:
		return type(e).__name__


def run_case(case):
	tmp = tempfile.mkdtemp(prefix='c14_')
	try:
		out = os.path.join(tmp, 'out.csv')
		kind = case['kind']
		DBSPEC = (6, 'AT')   # parameters of the bundled test database
		if kind == 'query_sigfile':
			k, p = case['k'], case['prefix']
			_mksigs(os.path.join(tmp, 'q.gs'), k, p, 3, 1)
			status = _run(['--db', _db(), 'query', '--no-progress', '-s', os.path.join(tmp, 'q.gs'), '-o', out])
			mismatch = (k, p.upper()) != DBSPEC
		elif kind == 'dist':
			argv = ['dist', '--no-progress', '-o', out]
			specs = []
			if case.get('qfiles'):
				gd = os.path.join(_db(), 'queries', 'genomes')
				argv += ['-q', os.path.join(gd, sorted(os.listdir(gd))[0])]
			if case.get('qs'):
				_mksigs(os.path.join(tmp, 'q.gs'), *case['qs'], 2, 2)
				argv += ['--qs', os.path.join(tmp, 'q.gs')]
				specs.append((case['qs'][0], case['qs'][1].upper()))
			if case.get('rs'):
				_mksigs(os.path.join(tmp, 'r.gs'), *case['rs'], 3, 3)
				argv += ['--rs', os.path.join(tmp, 'r.gs')]
				specs.append((case['rs'][0], case['rs'][1].upper()))
			elif case.get('use_db'):
				argv = ['--db', _db()] + argv + ['-d']
				specs.append(DBSPEC)
			elif case.get('square'):
				argv += ['-s']
			if case.get('kp'):
				argv += ['-k', str(case['kp'][0]), '-p', case['kp'][1]]
				specs.append((case['kp'][0], case['kp'][1].upper()))
			status = _run(argv)
			mismatch = len(set(specs)) > 1
		else:
			return {'error': 'unknown kind'}
		wrote = os.path.exists(out) and os.path.getsize(out) > 0
		if mismatch:
			ok = status != 'ok' and not wrote
			exp = 'error, non-zero status, nothing written'
		else:
			ok = status == 'ok' and wrote
			exp = 'success, output written'
		return {'ok': bool(ok), 'expected': exp, 'actual': {'status': status, 'output_written': wrote}}
	finally:
		shutil.rmtree(tmp, ignore_errors=True)


def bounded(tier, seed):
	specs = [(6, 'AT'), (6, 'at'), (7, 'AT'), (6, 'AC'), (9, 'ATG'), (5, 'AT')]
	cases = [{'kind': 'query_sigfile', 'k': k, 'prefix': p} for k, p in specs]
	# the complete decision table over 4 parameter sets: query signatures x (reference signatures | database | square) x explicit options
	for a in specs[:4]:
		for kp in [None] + specs[:3] + [specs[3]]:
			for b in specs[:4]:
				cases.append({'kind': 'dist', 'qs': a, 'rs': b, 'kp': kp})
			cases.append({'kind': 'dist', 'qs': a, 'use_db': True, 'kp': kp})
			cases.append({'kind': 'dist', 'qs': a, 'square': True, 'kp': kp})
	# genome files on the query side (their signatures are computed with the options / the reference's parameters)
	for b in specs[:4]:
		for kp in [None] + specs[:4]:
			cases.append({'kind': 'dist', 'qfiles': True, 'rs': b, 'kp': kp})
	n, failures, sample = 0, [], []
	for c in cases:
		r = run_case(c)
		n += 1
		if len(sample) < 2:
			sample.append({'case': c, 'result': r})
		if not r.get('ok'):
			failures.append({'case': c, 'expected': r.get('expected'), 'actual': r.get('actual'), 'class': c['kind']})
	return {'tool': 'real CLI in-process with generated signature files of foreign k / prefix', 'bound': f'{len(cases)} command lines over 6 parameter sets',
	        'cases': n, 'failures': failures[:4], 'samples': sample}
