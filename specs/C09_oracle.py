"""Executable specification for C09: the closest-genomes list of the real get_result_item."""
import random
from types import SimpleNamespace
from specs.classify_common import *


def run_case(case):
	import numpy as np
	from gambit.query import get_result_item, QueryParams, QueryInput
	taxa, genomes = build(case)
	dists = np.array(case['dists'], dtype=np.float32)
	db = SimpleNamespace(genomes=genomes)
	N = int(case.get('N', 10))
	item = get_result_item(db, QueryParams(report_closest=N, classify_strict=bool(case.get('strict'))), dists, QueryInput('q'))
	dl = [float(x) for x in dists]
	order = sorted(range(len(dl)), key=lambda i: (dl[i], i))[:N]
	exp = {'indices': order, 'distances': [dl[i] for i in order], 'taxa': [spec_match(case, case['genomes'][i], dl[i]) for i in order],
	       'first_is_closest_match': True}
	act_idx = [genomes.index(m.genome) for m in item.closest_genomes]
	act = {'indices': act_idx, 'distances': [float(m.distance) for m in item.closest_genomes],
	       'taxa': [tid(taxa, m.matched_taxon) for m in item.closest_genomes],
	       'first_is_closest_match': (not item.closest_genomes) or item.closest_genomes[0].genome is item.classifier_result.closest_match.genome}
	return {'ok': exp == act, 'expected': exp, 'actual': act}


def cases(tier, seed):
	rnd = random.Random(seed)
	for n in (1, 2, 3, 5, 17, 33, 64, 100, 257):
		taxa = [{'parent': None, 'thr': .5, 'report': True}]
		for val in (0.25, 0.0, 1.0):
			yield {'taxa': taxa, 'genomes': [0] * n, 'dists': [val] * n, 'N': rnd.choice([1, 3, 10, n, n + 5])}
	# large reference sets (sizes at which an implementation may switch to a selection algorithm), the rank-N cut-off inside a group of
	# equidistant references: the list is still the (distance, reference order) prefix
	for n in ((1000, 1200, 6001) if tier == 'quick' else (1000, 1023, 1024, 1200, 4097, 6001, 20000, 70000)):
		taxa = [{'parent': None, 'thr': .5, 'report': True}]
		for N in (1, 2, 3, 5, 10, 25, 100):
			g1 = rnd.choice([0, 1, N - 1, N // 2])              # references strictly closer than the tie group
			dists = [rnd.choice([.2, .3, .4, .6]) for _ in range(n)]
			for i in rnd.sample(range(n), g1):
				dists[i] = .1
			yield {'taxa': taxa, 'genomes': [0] * n, 'dists': dists, 'N': N, 'strict': rnd.random() < .5}
	for _ in range(300 if tier == 'quick' else 5000):
		nt = rnd.randrange(1, 6)
		taxa = random_forest(rnd, nt)
		n = rnd.choice([1, 2, 3, 8, 20, 50, 130])
		vals = [rnd.choice([0.0, .25, .5, .75, 1.0]) for _ in range(3)]
		dists = [rnd.choice(vals) if rnd.random() < .8 else rnd.random() for _ in range(n)]
		yield {'taxa': taxa, 'genomes': [rnd.randrange(nt) for _ in range(n)], 'dists': dists, 'N': rnd.choice([1, 2, 5, 10, n, n + 3]), 'strict': rnd.random() < .5}
	# ties between genomes of different taxa / thresholds, both classification modes (the closest match is the FIRST nearest genome in either)
	for _ in range(300 if tier == 'quick' else 3000):
		taxa = [{'parent': None, 'thr': rnd.choice([.5, .9, None]), 'report': True}]
		for i in range(rnd.randrange(1, 5)):
			taxa.append({'parent': rnd.randrange(len(taxa)), 'thr': rnd.choice([None, .05, .2, .3, .5]), 'report': True})
		n = rnd.randrange(2, 7)
		d0 = rnd.choice([0.0, .1, .25, .3])
		dists = [d0 if rnd.random() < .6 else rnd.choice([.4, .6, d0 + .05]) for _ in range(n)]
		yield {'taxa': taxa, 'genomes': [rnd.randrange(len(taxa)) for _ in range(n)], 'dists': dists, 'N': rnd.choice([1, 3, 10]), 'strict': rnd.random() < .7}


def bounded(tier, seed):
	n, failures, sample = 0, [], []
	for c in cases(tier, seed):
		r = run_case(c)
		n += 1
		if len(sample) < 2 and n % 97 == 3:
			sample.append({'case': {k: (v if k != 'dists' else v[:8]) for k, v in c.items()}, 'result': {'ok': r.get('ok')}})
		if not r.get('ok'):
			failures.append({'case': c, 'expected': r.get('expected'), 'actual': r.get('actual'), 'class': 'tie-order'})
			if len(failures) >= 3:
				break
	return {'tool': 'real get_result_item on tie-heavy float32 distance vectors against sorted(range(n), key=(d, i))[:N]',
	        'bound': 'all-equal vectors of 9 lengths up to 257; vectors of 1000..6001 references (..70000 in the thorough tier) whose rank-N cut-off (N = 1..100) lies inside a group of equidistant references; random vectors of <= 130 entries drawn from <= 3 values; tied nearest genomes under different taxa / thresholds; strict and non-strict mode', 'cases': n,
	        'failures': failures, 'samples': sample}
