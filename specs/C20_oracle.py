"""Executable specification for C20: signature collections against plain Python lists / NumPy fancy indexing."""
import itertools
import os
import random
import shutil
import tempfile


def _mk(kind, sigs, ks, tmp):
	from gambit.sigs import SignatureArray, SignatureList, dump_signatures, load_signatures
	if kind == 'list':
		return SignatureList(sigs, ks)
	if kind == 'array':
		return SignatureArray(sigs, ks)
	p = os.path.join(tmp, f'c{random.random()}.gs')
	dump_signatures(p, SignatureArray(sigs, ks))
	return load_signatures(p)


def _expected(plain, index):
	"""what a plain list (with NumPy's rules for array indices) selects: ('ok', list) | ('err', class name)"""
	import numpy as np
	n = len(plain)
	if isinstance(index, (int, np.integer)):
		i = int(index)
		if not -n <= i < n:
			return ('err', 'IndexError')
		return ('one', plain[i])
	if isinstance(index, slice):
		for v in (index.start, index.stop, index.step):
			if v is not None and not isinstance(v, (int, np.integer)):
				return ('err', 'TypeError')
		if index.step == 0:
			return ('err', 'ValueError')
		return ('ok', plain[index])
	arr = index if isinstance(index, np.ndarray) else (np.asarray(index) if len(index) else np.empty(0, dtype=int))
	if arr.ndim != 1:
		return ('err', 'IndexError')
	if arr.dtype.kind == 'b':
		if len(arr) != n:
			return ('err', 'IndexError')
		return ('ok', [plain[i] for i in range(n) if arr[i]])
	if arr.dtype.kind in 'iu':
		idx = [int(x) for x in arr]
		if any(not -n <= i < n for i in idx):
			return ('err', 'IndexError')
		return ('ok', [plain[i] for i in idx])
	return ('err', 'IndexError')


def _index_from(case_index):
	import numpy as np
	t = case_index['t']
	if t == 'int':
		return case_index['v']
	if t == 'npint':
		return np.dtype(case_index['dt']).type(case_index['v'])
	if t == 'slice':
		return slice(*case_index['v'])
	if t == 'list':
		return list(case_index['v'])
	if t == 'array':
		return np.array(case_index['v'], dtype=case_index['dt'])
	if t == 'array2d':
		return np.zeros((2, 2), dtype=int)
	raise ValueError(t)


def run_case(case):
	import numpy as np
	from gambit.kmers import KmerSpec
	from gambit.sigs import SignatureArray, SignatureList
	from gambit.sigs.base import AbstractSignatureArray
	from gambit.sigs.base import sigarray_eq
	rnd = random.Random(case.get('seed', 0))
	ks = KmerSpec(case.get('k', 3), 'AT')
	dt = ks.index_dtype
	n = case['n']
	plain = [np.array(sorted(rnd.sample(range(4 ** ks.k), rnd.randrange(0, 6))), dtype=dt) for _ in range(n)]
	tmp = tempfile.mkdtemp(prefix='c20_')
	try:
		kind = case['kind']
		if kind == 'index':
			coll = _mk(case['coll'], plain, ks, tmp)
			index = _index_from(case['index'])
			keep = index.copy() if isinstance(index, np.ndarray) else None
			exp = _expected(plain, index)
			try:
				res = coll[index]
				if isinstance(res, AbstractSignatureArray):
					ok_meta = res.kmerspec == ks and np.dtype(res.dtype) == dt and len(res) == len(list(res))
					act = ('ok', [np.asarray(x) for x in res])
				else:
					ok_meta = True
					act = ('one', np.asarray(res))
			except (IndexError, TypeError, ValueError) as e:
				act, ok_meta = ('err', type(e).__name__), True
			if exp[0] != act[0]:
				ok = False
			elif exp[0] == 'err':
				ok = exp[1] == act[1] or (exp[1] in ('IndexError', 'TypeError') and act[1] in ('IndexError', 'TypeError'))
			elif exp[0] == 'one':
				ok = np.array_equal(exp[1], act[1]) and act[1].dtype == dt
			else:
				ok = len(exp[1]) == len(act[1]) and all(np.array_equal(a, b) for a, b in zip(exp[1], act[1]))
			if keep is not None and not (np.array_equal(keep, index) and keep.dtype == index.dtype):
				ok = False
				act = ('caller index array modified', index.tolist())
			show = lambda r: (r[0], [x.tolist() for x in r[1]][:6]) if r[0] == 'ok' else ((r[0], r[1].tolist()) if r[0] == 'one' else r)
			return {'ok': bool(ok and ok_meta), 'expected': show(exp), 'actual': show(act) if act[0] in ('ok', 'one', 'err') else act}
		if kind == 'mutate':
			sl = SignatureList(list(plain), ks)
			ref = list(plain)
			for op in case['ops']:
				x = np.array([op[2] % (4 ** ks.k)], dtype=dt) if len(op) > 2 else None
				try:
					if op[0] == 'set':
						ref[op[1]] = x
					elif op[0] == 'del':
						del ref[op[1]]
					else:
						ref.insert(op[1], x)
					e = None
				except IndexError:
					e = 'IndexError'
				try:
					if op[0] == 'set':
						sl[op[1]] = x
					elif op[0] == 'del':
						del sl[op[1]]
					else:
						sl.insert(op[1], x)
					a = None
				except IndexError:
					a = 'IndexError'
				if e != a or len(sl) != len(ref) or not all(np.array_equal(p, q) for p, q in zip(sl, ref)):
					return {'ok': False, 'expected': [r.tolist() for r in ref], 'actual': [np.asarray(r).tolist() for r in sl]}
			return {'ok': True, 'expected': 'list semantics', 'actual': 'ok'}
		if kind == 'eq':
			a = _mk(case['coll'], plain, ks, tmp)
			other = list(plain)
			ks2 = ks
			if case['variant'] == 'changed' and n:
				j = rnd.randrange(n)
				other[j] = np.array(sorted(set(other[j].tolist()) ^ {1}), dtype=dt)
			elif case['variant'] == 'shorter' and n:
				other = other[:-1]
			elif case['variant'] == 'kspec':
				ks2 = KmerSpec(ks.k, 'AC')
			b = _mk(case['coll2'], other, ks2, tmp)
			exp = (case['variant'] == 'same') or (n == 0 and case['variant'] in ('changed', 'shorter'))
			act = bool(a == b)
			return {'ok': exp == act and bool(sigarray_eq(list(a), other)) == (case['variant'] in ('same', 'kspec') or n == 0), 'expected': exp, 'actual': act}
		return {'error': 'unknown kind'}
	finally:
		shutil.rmtree(tmp, ignore_errors=True)


def cases(tier, seed):
	rnd = random.Random(seed)
	colls = ['list', 'array', 'hdf5']
	for n in (0, 1, 4):
		for coll in colls:
			for i in range(-n - 2, n + 3):
				yield {'kind': 'index', 'coll': coll, 'n': n, 'index': {'t': 'int', 'v': i}}
			rng = [None, 0, 1, -1, 2, -2, n, -n, n + 1, -n - 1, 7]
			steps = [None, 1, 2, -1, -2, 3, 0]
			combos = list(itertools.product(rng, rng, steps))
			if tier == 'quick':
				combos = rnd.sample(combos, 60)
			for a, b, c in combos:
				yield {'kind': 'index', 'coll': coll, 'n': n, 'index': {'t': 'slice', 'v': [a, b, c]}}
			yield {'kind': 'index', 'coll': coll, 'n': n, 'index': {'t': 'slice', 'v': [0.5, None, None]}}
			yield {'kind': 'index', 'coll': coll, 'n': n, 'index': {'t': 'array2d'}}
			yield {'kind': 'index', 'coll': coll, 'n': n, 'index': {'t': 'array', 'v': [0.0], 'dt': 'f8'}}
			for _ in range(12 if tier == 'quick' else 80):
				m = rnd.randrange(0, 6)
				yield {'kind': 'index', 'coll': coll, 'n': n, 'index': {'t': rnd.choice(['list', 'array']), 'dt': rnd.choice(['i1', 'i2', 'i4', 'i8', 'u1', 'u8']),
				       'v': [rnd.randrange(-n - 1, n + 1) if rnd.random() < .9 else rnd.randrange(0, n + 2) for _ in range(m)]}}
				yield {'kind': 'index', 'coll': coll, 'n': n, 'index': {'t': 'array', 'dt': 'bool', 'v': [rnd.random() < .5 for _ in range(rnd.choice([n, n, n + 1, max(n - 1, 0)]))]}}
	# narrow index dtypes on collections longer than the dtype's range
	for coll in ('list', 'array'):
		for n, dt in ((130, 'i1'), (200, 'i1'), (300, 'u1'), (200, 'i2'), (40000 if tier != 'quick' else 200, 'i2')):
			for v in ([-1], [-n], [0, -1, 5], [n - 1], [-2, -3]):
				lo, hi = {'i1': (-128, 127), 'u1': (0, 255), 'i2': (-32768, 32767)}[dt]
				if all(lo <= x <= hi for x in v):
					yield {'kind': 'index', 'coll': coll, 'n': n, 'index': {'t': 'array', 'dt': dt, 'v': v}}
			yield {'kind': 'index', 'coll': coll, 'n': n, 'index': {'t': 'npint', 'dt': dt, 'v': -1}}
	for _ in range(30 if tier == 'quick' else 300):
		n = rnd.randrange(0, 5)
		ops = []
		for _ in range(rnd.randrange(1, 7)):
			ops.append(rnd.choice([('set', rnd.randrange(-6, 6), rnd.randrange(64)), ('del', rnd.randrange(-6, 6)), ('ins', rnd.randrange(-7, 7), rnd.randrange(64))]))
		yield {'kind': 'mutate', 'n': n, 'ops': ops, 'seed': rnd.randrange(1000)}
	for coll, coll2 in itertools.product(colls, colls):
		for variant in ('same', 'changed', 'shorter', 'kspec'):
			yield {'kind': 'eq', 'coll': coll, 'coll2': coll2, 'n': rnd.choice([0, 1, 3]), 'variant': variant, 'seed': rnd.randrange(1000)}


def bounded(tier, seed):
	n, failures, sample = 0, [], []
	for c in cases(tier, seed):
		r = run_case(c)
		n += 1
		if len(sample) < 3 and n % 211 == 5:
			sample.append({'case': c, 'result': r})
		if not r.get('ok'):
			cls = 'narrow-index-dtype' if c.get('index', {}).get('dt') in ('i1', 'u1', 'i2') and c['n'] > 127 else c['kind']
			failures.append({'case': c, 'expected': r.get('expected'), 'actual': r.get('actual'), 'class': cls})
			if len(failures) >= 5:
				break
	return {'tool': 'real SignatureList / SignatureArray / HDF5Signatures against plain lists with NumPy index rules',
	        'bound': 'collections of 0, 1, 4 signatures (and up to 300 for narrow index dtypes) x every int, a grid of slices, index lists/arrays of 6 dtypes, masks; mutation histories of <= 6 steps; equality variants',
	        'cases': n, 'failures': failures, 'samples': sample}
