"""Executable specification for C20: signature collections against plain Python lists / NumPy fancy indexing."""
import itertools
import os
import random
import shutil
import tempfile


def _mk(kind, sigs, ks, tmp, dt=None):
	"""a collection of the given kind whose STORED integer type is dt (not necessarily the k-mer spec's default)"""
	from gambit.sigs import SignatureArray, SignatureList, dump_signatures, load_signatures
	if kind == 'list':
		return SignatureList(sigs, ks, dtype=dt)
	if kind == 'array':
		return SignatureArray(sigs, ks, dtype=dt)
	p = os.path.join(tmp, f'c{random.random()}.gs')
	dump_signatures(p, SignatureArray(sigs, ks, dtype=dt))
	return load_signatures(p)


def _expected(plain, index):
	"""what a plain list (with NumPy's rules for array indices) selects: ('ok', list) | ('err', class name)"""
	import numpy as np
	n = len(plain)
	if isinstance(index, (int, np.integer)):
		i = int(index)
		if not -n <= i < n:
			return ('err', 'IndexError')
		return ('one', plain[i])
	if isinstance(index, slice):
		for v in (index.start, index.stop, index.step):
			if v is not None and not isinstance(v, (int, np.integer)):
				return ('err', 'TypeError')
		if index.step == 0:
			return ('err', 'ValueError')
		return ('ok', plain[index])
	arr = index if isinstance(index, np.ndarray) else (np.asarray(index) if len(index) else np.empty(0, dtype=int))
	if arr.ndim != 1:
		return ('err', 'IndexError')
	if arr.dtype.kind == 'b':
		if len(arr) != n:
			return ('err', 'IndexError')
		return ('ok', [plain[i] for i in range(n) if arr[i]])
	if arr.dtype.kind in 'iu':
		idx = [int(x) for x in arr]
		if any(not -n <= i < n for i in idx):
			return ('err', 'IndexError')
		return ('ok', [plain[i] for i in idx])
	return ('err', 'IndexError')


def _index_from(case_index):
	import numpy as np
	t = case_index['t']
	if t == 'int':
		return case_index['v']
	if t == 'npint':
		return np.dtype(case_index['dt']).type(case_index['v'])
	if t == 'slice':
		return slice(*case_index['v'])
	if t == 'list':
		return list(case_index['v'])
	if t == 'array':
		return np.array(case_index['v'], dtype=case_index['dt'])
	if t == 'array2d':
		return np.zeros((2, 2), dtype=int)
	raise ValueError(t)


def run_case(case):
	import numpy as np
	from gambit.kmers import KmerSpec
	from gambit.sigs import SignatureArray, SignatureList
	from gambit.sigs.base import AbstractSignatureArray
	from gambit.sigs.base import sigarray_eq
	rnd = random.Random(case.get('seed', 0))
	ks = KmerSpec(case.get('k', 3), 'AT')
	dt = np.dtype(case.get('dtype') or ks.index_dtype)
	n = case['n']
	plain = [np.array(sorted(rnd.sample(range(4 ** ks.k), rnd.randrange(0, 6))), dtype=dt) for _ in range(n)]
	tmp = tempfile.mkdtemp(prefix='c20_')
	try:
		kind = case['kind']
		if kind == 'index':
			coll = _mk(case['coll'], plain, ks, tmp, dt)
			index = _index_from(case['index'])
			keep = index.copy() if isinstance(index, np.ndarray) else None
			exp = _expected(plain, index)
			try:
				res = coll[index]
				if isinstance(res, AbstractSignatureArray):
					ok_meta = res.kmerspec == ks and np.dtype(res.dtype) == dt and len(res) == len(list(res))
					act = ('ok', [np.asarray(x) for x in res])
				else:
					ok_meta = True
					act = ('one', np.asarray(res))
			except (IndexError, TypeError, ValueError) as e:
				act, ok_meta = ('err', type(e).__name__), True
			if exp[0] != act[0]:
				ok = False
			elif exp[0] == 'err':
				ok = exp[1] == act[1] or (exp[1] in ('IndexError', 'TypeError') and act[1] in ('IndexError', 'TypeError'))
			elif exp[0] == 'one':
				ok = np.array_equal(exp[1], act[1]) and act[1].dtype == dt
			else:
				ok = len(exp[1]) == len(act[1]) and all(np.array_equal(a, b) for a, b in zip(exp[1], act[1]))
			if keep is not None and not (np.array_equal(keep, index) and keep.dtype == index.dtype):
				ok = False
				act = ('caller index array modified', index.tolist())
			show = lambda r: (r[0], [x.tolist() for x in r[1]][:6]) if r[0] == 'ok' else ((r[0], r[1].tolist()) if r[0] == 'one' else r)
			return {'ok': bool(ok and ok_meta), 'expected': show(exp), 'actual': show(act) if act[0] in ('ok', 'one', 'err') else act}
		if kind == 'indexgrid':
			# the complete grid of slices on ONE collection object (every start/stop/step combination, forwards and backwards)
			coll = _mk(case['coll'], plain, ks, tmp, dt)
			if np.dtype(coll.dtype) != dt:
				return {'ok': False, 'expected': f'collection dtype {dt}', 'actual': str(coll.dtype)}
			rng = [None, 0, 1, -1, 2, -2, 3, n - 1, n, -n, n + 1, -n - 1, 7]
			steps = [None, 1, 2, -1, -2, 3, -3, n or 1, -(n or 1), 7, -7]
			cnt = 0
			for a, b, c in itertools.product(rng, rng, steps):
				res = coll[slice(a, b, c)]
				exp = plain[slice(a, b, c)]
				got = [np.asarray(x) for x in res]
				cnt += 1
				if len(got) != len(exp) or not all(np.array_equal(p_, q_) for p_, q_ in zip(exp, got)) or res.kmerspec != ks or len(res) != len(exp) \
						or np.dtype(res.dtype) != dt or not all(x.dtype == dt for x in got):
					return {'ok': False, 'expected': {'slice': [a, b, c], 'dtype': str(dt), 'items': [x.tolist() for x in exp][:6]}, 'actual': {'dtype': str(res.dtype), 'items': [x.tolist() for x in got][:6]}}
			return {'ok': True, 'expected': f'{cnt} slices like a list', 'actual': 'ok'}
		if kind == 'indexlists':
			# EVERY index list of length <= 4 over one collection object (any order, repeats), as list and as int64 / int16 array
			coll = _mk(case['coll'], plain, ks, tmp, dt)
			cnt = 0
			for m in range(0, 5):
				for tup in itertools.product(range(n), repeat=m):
					variants = [list(tup), np.array(tup, dtype='i8')] + ([np.array([t - n if (k + cnt) % 2 else t for k, t in enumerate(tup)], dtype='i2')] if m else [])
					for index in variants:
						res = coll[index]
						exp = [plain[int(t)] for t in index]
						got = [np.asarray(x) for x in res]
						cnt += 1
						if len(got) != len(exp) or not all(np.array_equal(p_, q_) for p_, q_ in zip(exp, got)) or res.kmerspec != ks or np.dtype(res.dtype) != dt:
							return {'ok': False, 'expected': {'index': [int(t) for t in index], 'dtype': str(dt), 'items': [x.tolist() for x in exp][:6]},
							        'actual': {'dtype': str(res.dtype), 'items': [x.tolist() for x in got][:6]}}
			return {'ok': True, 'expected': f'{cnt} index lists like a list', 'actual': 'ok'}
		if kind == 'mutate':
			sl = SignatureList(list(plain), ks)
			ref = list(plain)
			mk = lambda v: np.array(sorted({(v + 7 * t) % (4 ** ks.k) for t in range(v % 4)}), dtype=dt)

			lives = [(sl, ref)]      # every collection alive in this history with its plain-list model (slices taken along the way are independent lists)

			def observe(step):
				for sl_, ref_ in lives:
					bad = observe1(step, sl_, ref_)
					if bad:
						return bad, sl_, ref_
				return None

			def observe1(step, sl, ref):
				# every observable view of the list must agree with the plain-list reference
				views = {'len': len(sl) == len(ref), 'iter': sigarray_eq(list(sl), ref),
				         'getitem': all(np.array_equal(sl[i], ref[i]) for i in range(len(ref))),
				         'sizes': list(map(int, sl.sizes())) == [len(r) for r in ref],
				         'sizeof': all(int(sl.sizeof(i)) == len(ref[i]) for i in range(len(ref))),
				         'eq-list': bool(sl == SignatureList(list(ref), ks)) and not bool(sl != SignatureList(list(ref), ks)),
				         'eq-array': bool(sl == SignatureArray(list(ref), ks, dtype=dt)) and bool(SignatureArray(list(ref), ks, dtype=dt) == sl),
				         'neq-extra': not bool(sl == SignatureList(list(ref) + [mk(5)], ks))}
				if case.get('dump') and len(ref):
					from gambit.sigs.hdf5 import dump_signatures_hdf5, load_signatures_hdf5
					from gambit.sigs import AnnotatedSignatures, SignaturesMeta
					f = os.path.join(tmp, f'd{step}.h5')
					dump_signatures_hdf5(f, AnnotatedSignatures(sl, [str(i) for i in range(len(sl))], SignaturesMeta()))
					with load_signatures_hdf5(f) as back:
						views['dump'] = sigarray_eq(list(back), ref)
				bad = [k for k, v in views.items() if not v]
				return bad
			for step, op in enumerate(case['ops']):
				if op[0] == 'fork':
					# a slice of a live collection becomes a live collection of its own; from now on both are mutated and observed
					src_sl, src_ref = lives[op[1] % len(lives)]
					lives.append((src_sl[slice(*op[2])], src_ref[slice(*op[2])]))
					if case.get('observe', 'each') == 'each':
						bad = observe(step)
						if bad:
							return {'ok': False, 'expected': {'after': list(case['ops'][:step + 1]), 'list': [r.tolist() for r in bad[2]]},
							        'actual': {'disagreeing_views': bad[0], 'iter': [np.asarray(r).tolist() for r in bad[1]], 'sizes': np.asarray(bad[1].sizes()).tolist()}}
					continue
				if op[0] == 'on':
					sl, ref = lives[op[1] % len(lives)]
					op = op[2]
				kindop = op[0]
				x = mk(op[2]) if len(op) > 2 and not isinstance(op[2], list) else None
				xs = [mk(v) for v in op[2]] if len(op) > 2 and isinstance(op[2], list) else None
				idx = slice(*op[1]) if isinstance(op[1], list) else op[1]

				def apply(t):
					if kindop == 'set':
						t[idx] = x
					elif kindop == 'setslice':
						t[idx] = xs
					elif kindop in ('del', 'delslice'):
						del t[idx]
					elif kindop == 'ins':
						t.insert(idx, x)
					elif kindop == 'append':
						t.append(x)
					elif kindop == 'extend':
						t.extend(xs)
					elif kindop == 'pop':
						t.pop(idx)
					elif kindop == 'reverse':
						t.reverse()
					elif kindop == 'iadd':
						t += xs
				res = []
				for t in (ref, sl):
					try:
						apply(t)
						res.append(None)
					except (IndexError, ValueError) as e2:
						res.append(type(e2).__name__)
				if res[0] != res[1]:
					return {'ok': False, 'expected': f'step {step} {op}: {res[0]}', 'actual': res[1]}
				if case.get('observe', 'each') == 'each' or step == len(case['ops']) - 1 or (case.get('observe') == 'first' and step == 0):
					bad = observe(step)
					if bad:
						return {'ok': False, 'expected': {'after': list(case['ops'][:step + 1]), 'list': [r.tolist() for r in bad[2]]},
						        'actual': {'disagreeing_views': bad[0], 'iter': [np.asarray(r).tolist() for r in bad[1]], 'sizes': np.asarray(bad[1].sizes()).tolist()}}
			return {'ok': True, 'expected': 'list semantics', 'actual': 'ok'}
		if kind == 'eq':
			a = _mk(case['coll'], plain, ks, tmp)
			other = list(plain)
			ks2 = ks
			if case['variant'] == 'changed' and n:
				j = rnd.randrange(n)
				other[j] = np.array(sorted(set(other[j].tolist()) ^ {1}), dtype=dt)
			elif case['variant'] == 'shorter' and n:
				other = other[:-1]
			elif case['variant'] == 'kspec':
				ks2 = KmerSpec(ks.k, 'AC')
			b = _mk(case['coll2'], other, ks2, tmp)
			exp = (case['variant'] == 'same') or (n == 0 and case['variant'] in ('changed', 'shorter'))
			act = bool(a == b)
			return {'ok': exp == act and bool(sigarray_eq(list(a), other)) == (case['variant'] in ('same', 'kspec') or n == 0), 'expected': exp, 'actual': act}
		return {'error': 'unknown kind'}
	finally:
		shutil.rmtree(tmp, ignore_errors=True)


def cases(tier, seed):
	rnd = random.Random(seed)
	colls = ['list', 'array', 'hdf5']
	for n in (0, 1, 4):
		for coll in colls:
			for i in range(-n - 2, n + 3):
				yield {'kind': 'index', 'coll': coll, 'n': n, 'index': {'t': 'int', 'v': i}}
			rng = [None, 0, 1, -1, 2, -2, n, -n, n + 1, -n - 1, 7]
			steps = [None, 1, 2, -1, -2, 3, 0]
			combos = list(itertools.product(rng, rng, steps))
			if tier == 'quick':
				combos = rnd.sample(combos, 60)
			for a, b, c in combos:
				yield {'kind': 'index', 'coll': coll, 'n': n, 'index': {'t': 'slice', 'v': [a, b, c]}}
			yield {'kind': 'index', 'coll': coll, 'n': n, 'index': {'t': 'slice', 'v': [0.5, None, None]}}
			yield {'kind': 'index', 'coll': coll, 'n': n, 'index': {'t': 'array2d'}}
			yield {'kind': 'index', 'coll': coll, 'n': n, 'index': {'t': 'array', 'v': [0.0], 'dt': 'f8'}}
			for _ in range(12 if tier == 'quick' else 80):
				m = rnd.randrange(0, 6)
				yield {'kind': 'index', 'coll': coll, 'n': n, 'dtype': rnd.choice([None, 'u8', 'i4']), 'index': {'t': rnd.choice(['list', 'array']), 'dt': rnd.choice(['i1', 'i2', 'i4', 'i8', 'u1', 'u8']),
				       'v': [rnd.randrange(-n - 1, n + 1) if rnd.random() < .9 else rnd.randrange(0, n + 2) for _ in range(m)]}}
				yield {'kind': 'index', 'coll': coll, 'n': n, 'dtype': rnd.choice([None, 'u8']), 'index': {'t': 'array', 'dt': 'bool', 'v': [rnd.random() < .5 for _ in range(rnd.choice([n, n, n + 1, max(n - 1, 0)]))]}}
	for n in (0, 1, 2, 4, 5, 6):
		for coll in colls:
			# stored integer type: the k-mer spec's default and wider / signed ones
			yield {'kind': 'indexgrid', 'coll': coll, 'n': n, 'seed': n, 'dtype': [None, 'u8', 'i4', 'u2'][(n + len(coll)) % 4]}
			if n in (2, 5):
				yield {'kind': 'indexgrid', 'coll': coll, 'n': n, 'seed': n, 'dtype': 'u8'}
	# every integer dtype (incl. uint64, whose arithmetic with Python ints is promoted to float) as index array and as scalar
	for coll in colls:
		for dtn in ('i1', 'i2', 'i4', 'i8', 'u1', 'u2', 'u4', 'u8'):
			for v in ([0], [3, 0, 3], [2]):
				yield {'kind': 'index', 'coll': coll, 'n': 4, 'index': {'t': 'array', 'dt': dtn, 'v': v}}
			for v in (0, 3) + ((-1, -4) if dtn[0] == 'i' else ()):
				yield {'kind': 'index', 'coll': coll, 'n': 4, 'index': {'t': 'npint', 'dt': dtn, 'v': v}}
	# unsigned values near the top of the 64-bit range: out of range for every collection, never a negative index
	for coll in colls:
		for v in ([2 ** 64 - 1], [2 ** 64 - 4], [0, 2 ** 64 - 2], [2 ** 63], [2 ** 63 - 1], [2 ** 64 - 5, 1]):
			yield {'kind': 'index', 'coll': coll, 'n': 4, 'index': {'t': 'array', 'dt': 'u8', 'v': v}}
			yield {'kind': 'index', 'coll': coll, 'n': 4, 'index': {'t': 'list', 'v': v}}
		for v in (2 ** 64 - 1, 2 ** 63, 2 ** 64 - 4):
			yield {'kind': 'index', 'coll': coll, 'n': 4, 'index': {'t': 'npint', 'dt': 'u8', 'v': v}}
	for coll in colls:
		yield {'kind': 'indexlists', 'coll': coll, 'n': 4 if (tier == 'quick' and coll == 'hdf5') else 5, 'seed': 11, 'dtype': 'u8' if coll == 'array' else None}
	# narrow index dtypes on collections longer than the dtype's range
	for coll in ('list', 'array'):
		for n, dt in ((130, 'i1'), (200, 'i1'), (300, 'u1'), (200, 'i2'), (40000 if tier != 'quick' else 200, 'i2')):
			for v in ([-1], [-n], [0, -1, 5], [n - 1], [-2, -3]):
				lo, hi = {'i1': (-128, 127), 'u1': (0, 255), 'i2': (-32768, 32767)}[dt]
				if all(lo <= x <= hi for x in v):
					yield {'kind': 'index', 'coll': coll, 'n': n, 'index': {'t': 'array', 'dt': dt, 'v': v}}
			yield {'kind': 'index', 'coll': coll, 'n': n, 'index': {'t': 'npint', 'dt': dt, 'v': -1}}
	for it in range(120 if tier == 'quick' else 8000):
		n = rnd.randrange(0, 5)
		ops = []
		pre = rnd.random() < .3   # start with an observation of the untouched list (op that changes nothing)
		if pre:
			ops.append(('extend', 0, []))
		for _ in range(rnd.randrange(1, 7)):
			sl3 = [rnd.choice([None, 0, 1, 2, -1, -2, 5]), rnd.choice([None, 0, 1, 2, 3, -1, 5]), rnd.choice([None, None, 1, 2, -1])]
			ops.append(rnd.choice([
				('set', rnd.randrange(-6, 6), rnd.randrange(64)), ('del', rnd.randrange(-6, 6)), ('ins', rnd.randrange(-7, 7), rnd.randrange(64)),
				('setslice', sl3, [rnd.randrange(64) for _ in range(rnd.randrange(0, 4))]), ('delslice', sl3),
				('append', 0, rnd.randrange(64)), ('extend', 0, [rnd.randrange(64) for _ in range(rnd.randrange(0, 3))]),
				('pop', rnd.randrange(-3, 3)), ('reverse', 0), ('iadd', 0, [rnd.randrange(64) for _ in range(rnd.randrange(0, 3))])]))
		yield {'kind': 'mutate', 'n': n, 'ops': ops, 'seed': rnd.randrange(1000), 'observe': rnd.choice(['each', 'each', 'last', 'first']), 'dump': it % 6 == 0}
	# histories over SEVERAL live collections: slices are taken along the way and become collections of their own; a slice is an independent
	# list, so mutating the parent or the slice must never show in the other (shared caches / views between derived objects)
	for it in range(150 if tier == 'quick' else 6000):
		n = rnd.randrange(2, 6)
		ops = []
		if rnd.random() < .6:
			ops.append(('extend', 0, []))                      # an observation before anything happens (fills whatever is cached lazily)
		nl = 1
		for _ in range(rnd.randrange(2, 8)):
			sl3 = [rnd.choice([None, 0, 1, 2, -1, -2]), rnd.choice([None, 1, 2, 3, -1, 5]), rnd.choice([None, None, 1, 2, -1])]
			if rnd.random() < .3 and nl < 4:
				ops.append(('fork', rnd.randrange(nl), sl3))
				nl += 1
			else:
				ops.append(('on', rnd.randrange(nl), rnd.choice([
					('set', rnd.randrange(-3, 3), rnd.randrange(64)), ('set', rnd.randrange(-3, 3), rnd.randrange(64)), ('del', rnd.randrange(-3, 3)), ('ins', rnd.randrange(-4, 4), rnd.randrange(64)),
					('setslice', sl3, [rnd.randrange(64) for _ in range(rnd.randrange(0, 4))]), ('append', 0, rnd.randrange(64)), ('pop', rnd.randrange(-2, 2)), ('reverse', 0)])))
		yield {'kind': 'mutate', 'n': n, 'ops': ops, 'seed': rnd.randrange(1000), 'observe': rnd.choice(['each', 'each', 'last']), 'dump': it % 10 == 0}
	for coll, coll2 in itertools.product(colls, colls):
		for variant in ('same', 'changed', 'shorter', 'kspec'):
			yield {'kind': 'eq', 'coll': coll, 'coll2': coll2, 'n': rnd.choice([0, 1, 3]), 'variant': variant, 'seed': rnd.randrange(1000)}


def bounded(tier, seed):
	n, failures, sample = 0, [], []
	for c in cases(tier, seed):
		r = run_case(c)
		n += 1
		if len(sample) < 3 and n % 211 == 5:
			sample.append({'case': c, 'result': r})
		if not r.get('ok'):
			cls = 'narrow-index-dtype' if c.get('index', {}).get('dt') in ('i1', 'u1', 'i2') and c['n'] > 127 else c['kind']
			failures.append({'case': c, 'expected': r.get('expected'), 'actual': r.get('actual'), 'class': cls})
			if len(failures) >= 5:
				break
	return {'tool': 'real SignatureList / SignatureArray / HDF5Signatures against plain lists with NumPy index rules',
	        'bound': 'collections of 0, 1, 4 signatures (and up to 300 for narrow index dtypes) x every int, a grid of slices, index lists/arrays of 6 dtypes, masks; mutation histories of <= 7 steps over set/del/insert/slice assignment/slice delete/append/extend/pop/reverse/+= with every observable view (len, iteration, indexing, sizes, sizeof, ==/!= against list- and array-backed copies, HDF5 dump/load) compared against a plain list after each step, after the first step, or only at the end; histories over up to 4 live collections where slices taken along the way are mutated and observed next to their parents; equality variants',
	        'cases': n, 'failures': failures, 'samples': sample}
