#!/bin/sh
# usage: confirm_mutant.sh <ID>   -- in /tmp/wt_<ID>: full test suite with the change, demo with the change and on the unchanged /repo
i=$1
cd /tmp/wt_$i || exit 9
PYTHONPATH=/tmp/wt_$i/src /venv/bin/python -m pytest -q -p no:cacheprovider --timeout=900 2>&1 | tail -1 > /tmp/tests_$i.log
PYTHONPATH=/tmp/wt_$i/src /venv/bin/python _mutant/demo.py >/dev/null 2>&1; echo "with=$?" >> /tmp/tests_$i.log
cd /tmp/wt_clean; PYTHONPATH=/tmp/wt_clean/src /venv/bin/python /tmp/wt_$i/_mutant/demo.py > /dev/null 2>&1; echo "without=$?" >> /tmp/tests_$i.log
cat /tmp/tests_$i.log
