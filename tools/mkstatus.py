#!/usr/bin/env python3
"""Prints the 'as built' tables of DESIGN.md section 8 from MANIFEST.json, evidence/*.json, known_findings.json and seeded/*/meta.json."""
import json, glob, os
from pathlib import Path
V = Path(__file__).resolve().parent.parent
man = json.loads((V / 'MANIFEST.json').read_text())
print('| id | functions under contract | obligations discharged / counted | back ends | solver s | bounded stand-in (cases) | result on the current tree |')
print('|---|---|---|---|---|---|---|')
kf = json.loads((V / 'known_findings.json').read_text())
kf = kf if isinstance(kf, list) else kf.get('findings', kf.get('entries', []))
for c in man['checks']:
	pid = c['property_id']
	try:
		e = json.loads((V / 'evidence' / f'{pid}.json').read_text())
	except Exception:
		continue
	cov = e['coverage']
	b = cov.get('bounded') or {}
	res = 'holds'
	for k in kf:
		if k.get('property') == pid:
			res = ('known finding: ' + k.get('class', k.get('bounded_class', ''))) if k.get('status') == 'known' else (res if 'known finding' in res else f"holds after fix {k.get('commit', '')[:7]}")
	print(f"| {pid} | {len(cov.get('functions_under_contract', []))} | {cov['discharged']} / {cov['obligations']} | {', '.join(f'{k}: {v}' for k, v in sorted(cov.get('backends', {}).items()))} | {cov.get('solver_seconds', '')} | {b.get('cases', '-')} | {res} |")
print()
print('| seeded change | breaks | first run | now | caught by |')
print('|---|---|---|---|---|')
res = json.loads((V / 'seeded' / 'RESULTS.json').read_text()) if (V / 'seeded' / 'RESULTS.json').exists() else {}
for d in sorted(glob.glob(str(V / 'seeded' / '*' / 'meta.json'))):
	m = json.loads(open(d).read())
	name = os.path.basename(os.path.dirname(d))
	r = res.get(name, {})
	det = m.get('detected', '')
	first = 'missed' if 'MISSED' in det else ('undecided (exit 2)' if 'first UNDECIDED' in det else 'exit 1')
	print(f"| {name} | {m.get('clause', '')[:110]} | {first} | exit {r.get('exit', '?')} | {det[:260]} |")
