#!/usr/bin/env python3
"""Apply each seeded change under /verif/seeded/*/patch.diff to the tree, run the property's quick check, undo it.
Usage: tools/run_seeded.py [--jobs N] [ID-prefix ...]   (writes seeded/RESULTS.json)
Without --jobs the patch is applied to /repo itself (transiently); with --jobs N, N scratch worktrees of /repo's HEAD are
created under /tmp (compiled extension modules copied in), each patch is applied there and the check runs with --repo <worktree>;
the worktrees are removed at the end."""
import json, subprocess, sys, time, shutil
from concurrent.futures import ThreadPoolExecutor
from pathlib import Path
V = Path(__file__).resolve().parent.parent
args = sys.argv[1:]
jobs = 0
if '--jobs' in args:
	i = args.index('--jobs'); jobs = int(args[i + 1]); del args[i:i + 2]
sel = args
todo = [d for d in sorted((V / 'seeded').iterdir()) if (d / 'patch.diff').exists() and (not sel or any(d.name.startswith(s) for s in sel))]
res = {}


def run_one(d, tree):
	pid = d.name.split('_')[0]
	assert subprocess.run(['git', '-C', tree, 'status', '--porcelain', '--untracked-files=no'], capture_output=True, text=True).stdout.strip() == '', f'{tree} not clean'
	subprocess.run(['git', '-C', tree, 'apply', str(d / 'patch.diff')], check=True)
	try:
		t0 = time.time()
		cmd = [str(V / 'check'), pid, '--tier', 'quick', '--evidence-dir', '/tmp/ev_seeded' + (tree.replace('/', '_') if tree != '/repo' else '')]
		if tree != '/repo':
			cmd += ['--repo', tree]
		p = subprocess.run(cmd, capture_output=True, text=True, cwd=V)
		lines = [l for l in p.stdout.splitlines() if l.startswith(('VIOLATION', 'UNDECIDED', 'MACHINERY', '  failed obligation', 'KNOWN'))]
		res[d.name] = {'property': pid, 'exit': p.returncode, 'seconds': round(time.time() - t0, 1), 'lines': lines[:8]}
		print(d.name, 'exit', p.returncode, lines[-1] if lines else '', flush=True)
	finally:
		subprocess.run(['git', '-C', tree, 'checkout', '--', '.'], check=True)
		subprocess.run(['git', '-C', tree, 'clean', '-fdq', 'src'], check=False)      # files a patch added


if not jobs:
	for d in todo:
		run_one(d, '/repo')
else:
	trees = []
	for k in range(jobs):
		t = f'/tmp/wt_seed_{k}'
		subprocess.run(['git', '-C', '/repo', 'worktree', 'add', '--detach', '-q', t, 'HEAD'], check=True)
		for so in Path('/repo/src').rglob('*.so'):
			shutil.copy(so, Path(t) / so.relative_to('/repo'))
		trees.append(t)
	try:
		import queue
		free = queue.Queue()
		for t in trees:
			free.put(t)

		def work(d):
			t = free.get()
			try:
				run_one(d, t)
			finally:
				free.put(t)
		with ThreadPoolExecutor(jobs) as ex:
			list(ex.map(work, todo))
	finally:
		for t in trees:
			subprocess.run(['git', '-C', '/repo', 'worktree', 'remove', '--force', t], check=False)
		subprocess.run(['git', '-C', '/repo', 'worktree', 'prune'], check=False)
old = {}
if (V / 'seeded' / 'RESULTS.json').exists():
	old = json.loads((V / 'seeded' / 'RESULTS.json').read_text())
old.update(res)
(V / 'seeded' / 'RESULTS.json').write_text(json.dumps(old, indent=1, sort_keys=True))
