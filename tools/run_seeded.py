#!/usr/bin/env python3
"""Apply each seeded change under /verif/seeded/*/patch.diff to /repo, run the property's quick check, undo it.
Usage: tools/run_seeded.py [ID-prefix ...]   (writes seeded/RESULTS.json)"""
import json, subprocess, sys, time
from pathlib import Path
V = Path(__file__).resolve().parent.parent
res = {}
sel = sys.argv[1:]
for d in sorted((V / 'seeded').iterdir()):
	if not (d / 'patch.diff').exists():
		continue
	if sel and not any(d.name.startswith(s) for s in sel):
		continue
	pid = d.name.split('_')[0]
	assert subprocess.run(['git', '-C', '/repo', 'status', '--porcelain', '--untracked-files=no'], capture_output=True, text=True).stdout.strip() == '', '/repo not clean'
	subprocess.run(['git', '-C', '/repo', 'apply', str(d / 'patch.diff')], check=True)
	try:
		t0 = time.time()
		p = subprocess.run([str(V / 'check'), pid, '--tier', 'quick', '--evidence-dir', '/tmp/ev_seeded'], capture_output=True, text=True, cwd=V)
		lines = [l for l in p.stdout.splitlines() if l.startswith(('VIOLATION', 'UNDECIDED', 'MACHINERY', '  failed obligation', 'KNOWN'))]
		res[d.name] = {'property': pid, 'exit': p.returncode, 'seconds': round(time.time() - t0, 1), 'lines': lines[:8]}
		print(d.name, 'exit', p.returncode, lines[-1] if lines else '')
	finally:
		subprocess.run(['git', '-C', '/repo', 'checkout', '--', '.'], check=True)
old = {}
if (V / 'seeded' / 'RESULTS.json').exists():
	old = json.loads((V / 'seeded' / 'RESULTS.json').read_text())
old.update(res)
(V / 'seeded' / 'RESULTS.json').write_text(json.dumps(old, indent=1, sort_keys=True))
