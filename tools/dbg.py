#!/usr/bin/env python3-vt
"""debug helper: tools/dbg.py PROP QUALNAME [INSTANCE] [--dump NAME_SUBSTRING] [--rl N]"""
import sys, time, os, importlib
sys.path.insert(0, '/verif')
from pyvc.modules import Repo
from pyvc.contracts import Registry
from pyvc.interp import Engine
from pyvc import smt
args = sys.argv[1:]
dump = None
if '--dump' in args:
	i = args.index('--dump'); dump = args[i + 1]; del args[i:i + 2]
if '--rl' in args:
	i = args.index('--rl'); smt.RLIMIT = int(args[i + 1]); del args[i:i + 2]
if '--wall' in args:
	i = args.index('--wall'); smt.WALL = int(args[i + 1]); del args[i:i + 2]
pid, qual = args[0], args[1]
inst = args[2] if len(args) > 2 else None
mod = importlib.import_module(f'props.{pid}')
reg = Registry(); mod.register(reg)
eng = Engine(Repo(os.environ.get('R', '/repo')), reg, dict(mod.LIB), pid); eng.specns = dict(mod.SPECNS)
tg = mod.targets('quick') if callable(getattr(mod, 'targets', None)) else mod.TARGETS
for t in tg:
	q, i, ov = (t + (None, None))[:3]
	if q.endswith(qual) and (inst is None or i == inst):
		if len(t) > 3 and t[3] is not None:
			eng.registry = Registry(); t[3](eng.registry); eng.specns = dict(mod.SPECNS); eng.specns.update(getattr(t[3], 'specns', {})); eng.lib = dict(mod.LIB); eng.lib.update(getattr(t[3], 'lib', {}))
		t0 = time.time()
		eng.verify_function(q, i, ov)
		print('generated', len(eng.obligations), 'in', round(time.time() - t0, 1), 's; paths', eng.paths)
if dump:
	k = 0
	for ob in eng.obligations:
		if dump in ob.name and ob.goal is not True:
			fn = f'/tmp/dump_{k}.smt2'; k += 1
			open(fn, 'w').write(smt.smt2_text(ob.hyps, ob.goal, negate=ob.meta.get('expect') != 'sat'))
			print('wrote', fn, ob.name)
	sys.exit(0)
res = smt.discharge(eng.obligations)
for n, r in res.items():
	if r.verdict not in ('discharged', 'trivial') or r.seconds > 5:
		print(r.verdict, n, r.instances, round(r.seconds, 2), r.detail)
print(sum(1 for r in res.values() if r.verdict in ('discharged', 'trivial')), '/', len(res))
import z3
if os.environ.get('MODEL'):
	for n, r in res.items():
		if r.verdict == 'failed' and os.environ['MODEL'] in n:
			ob = r.failed_instance
			m = smt.model_of(ob)
			print('MODEL for', n)
			for d in m.decls():
				if d.arity() == 0 and not z3.is_array(m[d]):
					print('  ', d.name(), '=', m[d])
			print('GOAL', ob.goal)
			break
if os.environ.get('LIST'):
	for n, r in res.items():
		print('   ', r.verdict, n, r.backend, round(r.seconds, 2))
