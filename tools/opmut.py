#!/usr/bin/env python3
"""Operator-level mutation sweep (own canary, complements the sub-agent changes): small semantic edits of the anchored Python
files are applied to a SCRATCH copy of the source tree (never to /repo), and the quick checks of the properties anchored in
that file are run with --repo <scratch>.  Reports which edits no check notices.

usage: tools/opmut.py FILE [--max N] [--seed S] [--props C01,C05] [--out results.json]
FILE is relative to /repo, e.g. src/gambit/metric.py"""
import ast, copy, json, os, random, shutil, subprocess, sys, tempfile, time
from pathlib import Path

V = Path(__file__).resolve().parent.parent
args = sys.argv[1:]


def opt(name, default=None):
	if name in args:
		i = args.index(name)
		v = args[i + 1]
		del args[i:i + 2]
		return v
	return default


MAX = int(opt('--max', 20))
SEED = int(opt('--seed', 0))
PROPS = opt('--props')
OUT = opt('--out')
REL = args[0]
props = {}
for l in open(V / 'properties.jsonl'):
	d = json.loads(l)
	for f in d['anchors']['files']:
		props.setdefault(f, []).append(d['id'])
claimed = {c['property_id'] for c in json.load(open(V / 'MANIFEST.json'))['checks']}
targets = [p for p in (PROPS.split(',') if PROPS else props.get(REL, [])) if p in claimed]
src = Path('/repo') / REL
tree = ast.parse(src.read_text())

CMP = {ast.Lt: ast.LtE, ast.LtE: ast.Lt, ast.Gt: ast.GtE, ast.GtE: ast.Gt, ast.Eq: ast.NotEq, ast.NotEq: ast.Eq, ast.Is: ast.IsNot, ast.IsNot: ast.Is, ast.In: ast.NotIn, ast.NotIn: ast.In}
BIN = {ast.Add: ast.Sub, ast.Sub: ast.Add, ast.Mult: ast.FloorDiv, ast.FloorDiv: ast.Mult}

# candidate sites: (description, function that applies the edit to a deep copy located by index)
sites = []
nodes = list(ast.walk(tree))
for idx, n in enumerate(nodes):
	if isinstance(n, ast.Compare) and len(n.ops) == 1 and type(n.ops[0]) in CMP:
		sites.append((idx, 'cmp', f'line {n.lineno}: {ast.unparse(n)}  ->  {type(n.ops[0]).__name__} to {CMP[type(n.ops[0])].__name__}'))
	elif isinstance(n, ast.BinOp) and type(n.op) in BIN and not isinstance(n.left, ast.Constant) or (isinstance(n, ast.BinOp) and type(n.op) in BIN and isinstance(n.left, ast.Constant) and not isinstance(n.left.value, str)):
		sites.append((idx, 'bin', f'line {n.lineno}: {ast.unparse(n)}  ->  {type(n.op).__name__} to {BIN[type(n.op)].__name__}'))
	elif isinstance(n, ast.BoolOp):
		sites.append((idx, 'bool', f'line {n.lineno}: {ast.unparse(n)}  ->  and/or swapped'))
	elif isinstance(n, ast.Constant) and isinstance(n.value, int) and not isinstance(n.value, bool) and 0 <= n.value <= 3 and hasattr(n, 'lineno'):
		sites.append((idx, 'const', f'line {n.lineno}: constant {n.value} -> {n.value + 1}'))
	elif isinstance(n, ast.UnaryOp) and isinstance(n.op, ast.Not):
		sites.append((idx, 'not', f'line {n.lineno}: {ast.unparse(n)}  ->  negation dropped'))
	elif isinstance(n, ast.Constant) and isinstance(n.value, bool) and hasattr(n, 'lineno'):
		sites.append((idx, 'boolconst', f'line {n.lineno}: {n.value} -> {not n.value}'))
# docstrings / annotations are not code: drop constants that are statement expressions
doc_ids = {id(s.value) for s in nodes if isinstance(s, ast.Expr) and isinstance(s.value, ast.Constant)}
sites = [s for s in sites if id(nodes[s[0]]) not in doc_ids]
rnd = random.Random(SEED)
rnd.shuffle(sites)
sites = sites[:MAX]


def mutate(idx, kind):
	t = copy.deepcopy(tree)
	n = list(ast.walk(t))[idx]
	if kind == 'cmp':
		n.ops = [CMP[type(n.ops[0])]()]
	elif kind == 'bin':
		n.op = BIN[type(n.op)]()
	elif kind == 'bool':
		n.op = ast.Or() if isinstance(n.op, ast.And) else ast.And()
	elif kind == 'const':
		n.value = n.value + 1
	elif kind == 'not':
		n.op = ast.UAdd()      # replaced below by the operand
		return ast.unparse(_DropNot(n).visit(t))
	elif kind == 'boolconst':
		n.value = not n.value
	return ast.unparse(t)


class _DropNot(ast.NodeTransformer):
	def __init__(self, target):
		self.target = target

	def visit_UnaryOp(self, node):
		if node is self.target:
			return node.operand
		return self.generic_visit(node)


results = []
scratch = Path(tempfile.mkdtemp(prefix='opmut_'))
try:
	shutil.copytree('/repo/src', scratch / 'src')
	(scratch / 'tests').mkdir()
	os.symlink('/repo/tests/data', scratch / 'tests' / 'data')
	orig_text = (scratch / REL).read_text()
	print(f'{REL}: {len(sites)} edits x checks {targets}')
	for idx, kind, desc in sites:
		try:
			new = mutate(idx, kind)
			compile(new, REL, 'exec')
		except Exception as e:
			continue
		(scratch / REL).write_text(new)
		row = {'edit': desc, 'checks': {}}
		# does the package still import?
		imp = subprocess.run(['/venv/bin/python', '-c', 'import gambit.cli, gambit.query, gambit.cluster, gambit.results'], env=dict(os.environ, PYTHONPATH=str(scratch / 'src')), capture_output=True)
		if imp.returncode != 0:
			row['import'] = 'fails'
			results.append(row)
			continue
		for p in targets:
			t0 = time.time()
			r = subprocess.run([str(V / 'check'), p, '--tier', 'quick', '--repo', str(scratch), '--evidence-dir', str(scratch / 'ev')], capture_output=True, text=True, cwd=V)
			row['checks'][p] = {'exit': r.returncode, 's': round(time.time() - t0, 1), 'line': ([l for l in r.stdout.splitlines() if l.startswith(('VIOLATION', 'UNDECIDED', 'MACHINERY'))] or [''])[0][:160]}
		caught = [p for p, c in row['checks'].items() if c['exit'] == 1]
		und = [p for p, c in row['checks'].items() if c['exit'] == 2]
		row['verdict'] = 'caught' if caught else ('undecided-only' if und else 'SURVIVED')
		summary = ' '.join('%s:%s' % (p, c['exit']) for p, c in row['checks'].items())
		print('  %-15s %s   %s' % (row['verdict'], desc[:110], summary), flush=True)
		results.append(row)
	(scratch / REL).write_text(orig_text)
finally:
	shutil.rmtree(scratch, ignore_errors=True)
if OUT:
	old = json.loads(Path(OUT).read_text()) if Path(OUT).exists() else {}
	old[REL] = results
	Path(OUT).write_text(json.dumps(old, indent=1))
n = len([r for r in results if 'verdict' in r])
print(f"summary {REL}: {sum(r.get('verdict') == 'caught' for r in results)}/{n} caught, {sum(r.get('verdict') == 'undecided-only' for r in results)} undecided-only, {sum(r.get('verdict') == 'SURVIVED' for r in results)} survived")
