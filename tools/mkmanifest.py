#!/usr/bin/env python3
"""Regenerates MANIFEST.json from the table below (claimed checks) + the list of given property ids."""
import json
from pathlib import Path

V = Path(__file__).resolve().parent.parent
ids = [json.loads(l)['id'] for l in (V / 'properties.jsonl').read_text().splitlines() if l.strip()]

TECH = 'contract-based deductive verification: own VC generator (pyvc) over the real .py/.pyx source, sidecar contracts, z3/cvc5'

CLAIMED = {
	'C17': dict(
		text='linkage_to_bio_tree is verified for every linkage matrix and label list against a structural postcondition over ghost clade state (clade identity = allocation counter; name / branch_length / children in ghost arrays): leaf j is a new clade named labels[j], row i creates the clade with identity base+n+i whose two children are the clades of the row, every merged node gets branch_length = height of the row - height of the node (0 for leaves), the root is the last clade, AssertionError iff the label count is not rows+1 (loop invariant over the rows; the no-node-merged-twice precondition is what keeps earlier branch lengths from being overwritten). Lemmas over that postcondition and the assumed SciPy linkage contract: every branch length is parent height - node height and non-negative, path sums telescope (induction on the number of steps), hence all leaves are at the root height from the root and the path between two leaves is twice the height of their first common ancestor. hclust is verified to return linkage(squareform(dmat), method="average") of THAT matrix; tree_cmd (both input channels) is verified against the provenance contract "labels handed to the tree builder are the ids of the very signatures the distances/linkage were computed from". SciPy UPGMA itself, Newick printing and the float arithmetic are outside: BOUNDED stand-in (real hclust + linkage_to_bio_tree and the real command on files / list file / signature file, Newick parsed back, against SciPy cophenetic distances).',
		note='Trusted: SciPy linkage/squareform contract (UPGMA, ids, monotone heights), Biopython Clade/Tree/Newick writer, reals for float64, C05/C08/C12/C13 provenance contracts. Bounded only: numerical agreement of the printed tree with the UPGMA of the real distance matrix.',
		design='3/C17'),
	'C18': dict(
		text='Session clauses verified on the real code over an assumed SQLAlchemy model with ghost flags for "a real flush / commit happened": ReadOnlySession.flush is a no-op that never reaches Session.flush, ReadOnlySession.commit raises TypeError on every call; file_sessionmaker builds a maker whose session class and SQLite URL are decided by the arguments of THAT call alone (ReadOnlySession for the defaults, for every path string); load_genomeset and CLIContext._init_genomes (fresh and already-initialised context; the getter re-entrance is unfolded) hand out read-only sessions on the located genome file; load_signatures_hdf5 with no caller-supplied h5py arguments opens nothing in a mode that could create, truncate or modify a file (open(path, "rb"), h5py.File(path) = mode "r"). The history clause (no byte of either file changes under any sequence of read-side commands and calls) is covered by a BOUNDED stand-in: generated histories of real CLI commands (incl. failing ones) and library calls on a private copy of the bundled database, sha256 + size of both files and the directory listing after every step, session probes after every default open.',
		note='Trusted: SQLAlchemy model (Session.flush/commit are the only write paths of the ORM; SELECTs do not modify an SQLite file), h5py default mode. Bounded only: byte identity of the files over command histories.',
		design='3/C18'),
	'C06': dict(
		text='Lemmas over the C01 contract of calc_signature (result = strictly increasing array of exactly the x with sig(kmerspec, contig, x) for SOME contig; re-verified here for the default accumulator): reverse-complementing a contig leaves sig unchanged (forward matches become the mirrored reverse matches with the same k-mer index: inductive lemma encrc(RC(s)) = enc(s), complement is an involution), letter case leaves it unchanged (sig depends on the bytes through up() only), the union is invariant under any rearrangement of signature-equivalent contigs, and two strictly increasing arrays with the same members are the same array - so the signature array is identical; the union clause / no k-mer across contigs IS the postcondition. File glue verified over an assumed stream model: guess_compression decides by the first two CONTENT bytes for every path string, _open_auto / open_compressed (24 mode x compression instances incl. the ValueError cases) / SequenceFile.open / SequenceFile.parse build text>gzip>file exactly when the content starts with 1f 8b and hand the parser the stream over the file\'s own path and format; calc_file_signature = calc_signature over the sequences of ALL records in file order (sig opaque at this level). Line width, CRLF, final newline, gzip decoding are decided inside Bio.SeqIO / gzip / TextIOWrapper (external): BOUNDED stand-in only (real calc_file_signature on generated files under all rewrites). ClosingIterator.close / __exit__ / __enter__ are verified not to return a true value (a context manager that did would swallow the exception of a file failing part-way: C13).',
		note='Trusted: C01 base, induction as a proof rule (base/step obligations), stream model. Bounded only: everything the FASTA parser / gzip / text decoding decide.',
		design='3/C06'),
	'C11': dict(
		text='The column table of the CSV exporter is verified cell by cell (label; reported taxon name/rank/ncbi_id/threshold; closest distance and genome description; next taxon fields; empty cell exactly when the taxon is absent), the header, the export loop (one row per item, in order, after the header), the JSON item mapping (query, predicted_taxon = reported taxon, next_taxon, closest_genomes), the taxon/genome key sets of the JSON and archive writers, and the writer options set by __init__. The quoting contract of the csv module is an obligation on csv.writer(**options): every field containing a character that ends a record for the reader must be quoted under the options in use - it FAILS for a bare carriage return (lineterminator is "\\n"), the string counter-model is replayed through the real exporter and csv.reader, and it is listed as a known finding. The read-back side (CSV/JSON parse, archive reader) is bounded only.',
		note='Trusted: csv/json/attrs/cattrs/ORM contracts. Known finding: bare CR in a name splits the CSV row (known_findings.json). Bounded only: read-back of all three formats.',
		design='3/C11'),
	'C12': dict(
		text='Metadata and marker glue is verified over an assumed h5py store model: write_metadata (all 64 None/value shapes: h5py.Empty exactly for None, JSON text for extra), read_metadata (Empty/missing -> None, text otherwise, extra through json.loads), _init_attrs (marker = 1, k, prefix string, then the metadata), and load_signatures_hdf5 (SignaturesFileError exactly when the first 8 bytes are not the HDF5 magic or the root group lacks the marker). The dataset side (ids/values/bounds on both write paths, filters, reading back, indexing) is covered by a BOUNDED stand-in: real dump/load/compare on generated collections plus six kinds of foreign files.',
		note='Trusted: h5py store model, json round trip, open/read. Bounded only: _init_datasets, create, HDF5Signatures.__init__ reading, filters.',
		design='3/C12'),
	'C05': dict(
		text='_jaccarddist_parallel (real .pyx text, three type instantiations) is verified with a loop invariant "out[r] = D(query, r-th segment)" plus prange frame obligations (every iteration writes only its own cell, reads no written array, written and read views are different objects, assigned scalars are declared locals), which is what makes all interleavings and thread counts equal to the sequential result; jaccarddist_array is verified on both branches (concatenated fast path through the kernel contract incl. the bounds/dtype casts, and the per-item loop) for caller-supplied and allocated buffers incl. the ValueError cases; chunk_slices (generator; coverage of 0..n-1) and num_pairs. jaccarddist_matrix is verified (4 instances: all references / explicit index selection x one chunk / chunked; nested loop invariants "every column before the current chunk is complete" and "rows before the current query are complete for this chunk") over an abstract model: cell (i, c) = DV(queries[i], refs[ref_indices[c]]) for every selection with repeats in any order and every chunk size, ValueError iff chunksize <= 0; the reference chunk obeys the C20 indexing contract and the row views write through. jaccarddist_pairwise is verified over the same model (4 instances: square / flat x all / index selection; invariant "rows before i are complete, with their mirror cells, and the diagonal is zero"; the flat layout through the recursively defined row offset poff(n, a), proved equal to the squareform offset n*a - a(a+1)/2 by an induction lemma; every write lands inside the buffer). Caller-supplied buffers and plain-list arguments of the matrix / pairwise functions are covered by a BOUNDED stand-in only (bitwise comparison with a double loop over containers, chunk sizes, EVERY index selection of length <= 4 over 5 references, 1..16 threads, repeated runs).',
		note='Trusted: C02 base (D as the kernel value), OpenMP/Cython prange semantics, NumPy views, abstract collection/2-d array model for the matrix function. Bounded only: caller buffers, plain-list references.',
		design='3/C05'),
	'C20': dict(
		text='AdvancedIndexingMixin.__getitem__ is verified for every index kind (int, all eight None/int slice shapes, ill-typed slice fields, step 0, integer arrays of seven dtypes, boolean masks, float arrays, lists, the empty list) against an abstract sequence: result item j = item norm(index[j]) (Python negative-index rule), slices select range(*indices(n)), masks select the non-zero positions in order, IndexError/TypeError/ValueError exactly as a list/NumPy would, and the caller\'s index array is unchanged; _check_index, _getitem_slice, _getitem_bool_array separately. The NumPy contract for np.add carries the fixed width of the output dtype: on the original tree the int8/int16/int32 instances failed (wrap-around), the bounded run replayed it (130 signatures, int8 index -1), a fix: commit widened the copy, and all instances now discharge. The concrete hooks of SignatureList / ConcatenatedSignatureArray are verified to refine the abstract ones; the remaining container code is bounded only (plain-list differential, labelled). A second defect was found by the bounded run (seed sweep): uint64 index arrays / scalars raised on concatenated and HDF5-backed collections (uint64 + int promoted to float); repaired by a second fix: commit, and every integer dtype is now enumerated as array and scalar on every container.',
		note='Trusted: NumPy/slice contracts listed in the evidence; len < 2^63. Bounded only: _getitem_int_array, contiguous slice fast path, construction, HDF5-backed collections, del/insert, equality.',
		design='3/C20'),
	'C10': dict(
		text='find_matches is verified for every forest, genome list and distance vector: each genome index is filed under exactly the taxon its own lineage and distance select (the defined least-covering-index function of C03), indices in reference order, no match lost (dict-of-lists loop invariant). The consensus step and the strict branch of classify are covered by a BOUNDED stand-in, not a proof: the real classify(strict=True) is run under every permutation of the reference genomes on forests of <= 6 taxa and compared with a set-based specification (consensus = deepest taxon comparable with every matched taxon, warning iff a matched taxon lies strictly below it, primary match = nearest genome at or below it, failure iff no common root). That run exposed the order dependence of the original consensus_taxon (repaired by a fix: commit).',
		note='Trusted: C03 base. consensus_taxon / strict classify: bounded only (labelled; a contract is written but its forest obligations exceed the solver budget).',
		design='3/C10'),
	'C16': dict(
		text='dist_cmd is verified in all query/reference source combinations (signature file, files, database, square; symbolic flags) against a provenance contract: the row and column labels handed to the writer are the ids of exactly the signature collections the matrix was computed from (files and their labels are derived together; file signatures keep file order), non-square -> full matrix of queries x references, square -> pairwise of the queries. dump_dmat_csv is verified against a ghost CSV document: header = corner + column ids, row i = row id + 4-decimal rendering of each cell of row i, ValueError when the row count differs (strict zip). Bounded companion: the real command on the bundled genomes against per-pair distances.',
		note='Trusted: click, csv.writer.writerow, format(), C05/C08/C12/C13 contracts in provenance form.',
		design='3/C16'),
	'C08': dict(
		text='Labels: get_file_id / strip_seq_file_ext / strip_extensions are verified in the SMT theory of strings for all 14 (FASTA extension x gzip) shapes (cvc5). Order and context-freeness: query() (four input forms), query_parse(), get_sequence_files() (both channels) and SequenceFile.from_paths are verified against "one item per query, in order, item i = RI(db, params, ROW(db, query i), input i)" where ROW and RI are functions of the single query only, so no other query, batch size, chunk size or progress object can occur in a row. The end-to-end clause across channels/compression/cores is exercised by a bounded run of the real CLI against single-genome runs (labelled bounded).',
		note='Trusted: click, pathlib/os.path as uninterpreted functions, progress helpers, the row-form contracts of C05/C13 and the functional contract of get_result_item (C03/C09/C10), exporter row order (C11).',
		design='3/C08'),
	'C04': dict(
		text='genomes_by_id (strict and lenient), genomes_by_id_subset (loop invariant: parallel lists, every matched genome paired with the position of the signature carrying its identifier, positions strictly increasing, no matching signature skipped) and ReferenceDatabase.__init__ (TypeError iff id_attr absent; normal return only with len(genomes) = number of genomes in the set) are verified over opaque identifier values and a ghost genome set, for every order of signature IDs and any number of unrelated signatures. locate_files has a bounded stand-in only (real function on generated directories), and the composition with the distance matrix is exercised by the bounded run on the real SQLite/HDF5 database.',
		note='Trusted: contracts of the three SQLAlchemy helpers and Query.count(); pigeonhole step; locate_files bounded only (labelled, not counted as proved).',
		design='3/C04'),
	'C13': dict(
		text='calc_file_signatures is verified on all executor branches (sequential, thread pool, process pool, caller-supplied executor, invalid mode) against: one signature per file, in file order, each THE single-file result, and failure of the whole call iff some file fails. The completion loop is proved for an ARBITRARY permutation of the futures (as_completed specified as: every future once, any order), i.e. for every schedule; submission-loop invariant makes the future->index map injective. Loop/exit reachability canaries guard against vacuity. Bounded companion: the real function driven by an executor stub through every completion order for n <= 5.',
		note='Trusted: the concurrent.futures contract (fresh futures, as_completed permutation, result() value or exception), pickling in process mode, progress helpers, calc_file_signature as a function of its arguments.',
		design='3/C13'),
	'C14': dict(
		text='Every distance computation carries the ghost precondition "both sides have the same k-mer spec" (jaccarddist_matrix, query); dist_cmd (8 option instances x symbolic flags), query_cmd (both input channels), query_parse and kspec_from_params are verified against it, together with "nothing is written on an error path" (ghost flag set by the writers). The decision table of dist_cmd discharges; the query_cmd -s obligation failed on the original tree, was replayed on the real CLI (foreign-parameter signature file accepted), repaired by a fix: commit, and now discharges.',
		note='Trusted: click semantics, opaque KmerSpec equality, contracts of load_signatures / calc_file_signatures / get_sequence_files (C12/C13/C08).',
		design='3/C14'),
	'C03': dict(
		text='Taxon.ancestors (generator), matching_taxon, reportable_taxon, GenomeMatch.next_taxon (three loops), the attrs default methods and classify(strict=False) are verified over a ghost forest theory (depth function, i-th ancestor, least covering lineage index as a defined spec function) for every forest, genome assignment and distance vector including distances equal to a threshold; monotonicity is a lemma. The check first flagged next_taxon on the original tree (bounded real-code witness: a taxon without threshold returned as next); repaired by a fix: commit and now discharged.',
		note='Trusted: ORM attribute reads pure, argmin = first minimum, distances/thresholds as reals (no NaN), attrs constructors, finite-forest well-formedness as an axiom.',
		design='3/C03'),
	'C09': dict(
		text='get_result_item is verified against the documented contract of the sort call as written in the source: length min(N, n), every entry a reference with its exact distance and matched taxon, strict (distance, index) lexicographic order, completeness of the prefix, first entry = closest match. With the default (unstable) argsort two clauses were not derivable and the bounded real-code search produced a tie witness; after the fix: commit (kind=stable) all obligations discharge.',
		note='Trusted: numpy argsort/argmin contracts, slicing, C03 base; comprehension modelled by a generic element. Requires report_closest >= 0.',
		design='3/C09'),
	'C15': dict(
		text='Lemmas over the C02 postcondition: the merge loop, read from both sides, proves inter(A,B) = inter(B,A), so the value is bit-for-bit symmetric and mentions element values only (all nine type pairings); inductive set lemmas (distance 0 iff equal sets, 1 iff disjoint and not both empty) plus bit-precise FP lemmas (range and zero for all sizes < 2^62, one-iff for < 2^24); triangle inequality as a polynomial identity over the seven Venn regions with 61 non-negative monomials plus three half-ulp roundings; strict decrease proved for |A or B|+1 <= 2^23 (standard model of rounding, bit-precise for small sizes). Above 2^23 the strict-decrease obligation fails, the counter-model replays on the real kernel, and it is listed as a known finding.',
		note='Trusted: C02 base; standard model of correctly rounded arithmetic (half-ulp bound); set arithmetic linking sets to (|A xor B|, |A or B|). Known finding: strict decrease above 2^23 elements (known_findings.json).',
		design='3/C15'),
	'C01': dict(
		text='find_kmers (both search loops and the upper-casing loop, as a generator with ghost yield sequence), KmerMatch.kmer_index/kmer_indices, accumulate_kmers, both accumulators, default_accumulator, calc_signature, KmerSpec.__init__, index_dtype and nkmers are verified against a declarative spec (set of indices of valid k-mers following a prefix occurrence on either strand of the upper-cased text) for all sequences, all k <= 32, all non-empty ACGT prefixes, the four input types and all accumulator choices; result sorted, duplicate free and of the smallest unsigned dtype. Bridging lemmas (case folding, revcomp of the prefix) are separate obligations. A bounded run of the real calc_signature against a brute-force enumeration accompanies it and supplies replayable inputs.',
		note='Trusted: C07 base for the compiled encoders, library contracts for bytes.find/upper/slicing and numpy zeros/flatnonzero/astype/fromiter/sort, generators as yielded sequences. Bounds in requires: k <= 32, lengths < 2^31.',
		design='3/C01'),
	'C07': dict(
		text='Every obligation generated from the current text of kmers.pyx / kmers.py / seq.py (loop invariants for the four kernels, C-integer range and in-bounds obligations, exception protocol of the wrappers) plus inductive lemmas for the two inverses, the revcomp involution and rc-index consistency is discharged by z3 for all k <= 32, all 256 byte values and all sequence lengths < 2^31. A bounded run of the compiled kernels against an independent executable spec accompanies it (never counted as proved). The names under which the library itself uses these functions (gambit.seq.revcomp, gambit.kmers.revcomp, gambit.kmers.index_to_kmer) are targets too: re-exports are followed to their definition on every run, so rebinding one of them to another function is verified against the same contract.',
		note='Trusted: Cython/gcc translation and that the pre-built .so corresponds to the .pyx (Cython is not installed, so the binary cannot be rebuilt); C integer model; library contracts for bytearray/bytes/str.encode. Termination by decreases clauses.',
		design='3/C07'),
	'C02': dict(
		text='The two-pointer merge of c_jaccarddist is proved against the set-theoretic spec (union size via an inductive intersection count) for all array lengths and all 9 fused type instantiations, with in-bounds and no-overflow obligations; the Python wrappers for all 6x6 accepted dtype pairs and the rejected dtypes; binary32 exactness of both conversions below 2^24 in the SMT FP theory. Bounded conformance run of the binary on a 6-element universe x 36 dtype pairs.',
		note='Trusted: Cython/gcc translation, IEEE-754 binary32 RNE division/conversion, ndarray.view reinterpretation. Requires N+M < 2^62, sorted unique inputs, non-negative entries for signed arrays.',
		design='3/C02'),
}

NA = {
	'C19': 'quantifies over crash points inside libhdf5 and observes the on-disk image of a killed process; no contract on gambit functions can express or decide that (DESIGN.md section 5)',
}

checks = []
for pid in ids:
	if pid in CLAIMED:
		c = CLAIMED[pid]
		checks.append({
			'property_id': pid,
			'quick_cmd': f'./check {pid} --tier quick',
			'thorough_cmd': f'./check {pid} --tier thorough',
			'evidence_file': f'/verif/evidence/{pid}.json',
			'replay_cmd_template': f'./check {pid} --replay {{path}}',
			'engine': 'pyvc',
			'level_claimed': {'category': 'proof', 'text': c['text'], 'design_ref': c['design']},
			'level_note': c['note'],
			'technique': c.get('technique', TECH),
		})

na = []
for pid in ids:
	if pid not in CLAIMED:
		na.append({'property_id': pid, 'reason': NA.get(pid, 'check not built yet (construction order: DESIGN.md section 7); not claimed until its obligations are generated and discharged')})

m = {
	'version': 1,
	'setup_cmd': 'python3-vt -m compileall -q pyvc contracts props specs >/dev/null 2>&1; python3-vt -c "import z3; print(z3.get_version_string())"',
	'hooks': {
		'guard': 'GAMBIT_VERIF',
		'enable': 'no hooks: contracts are sidecar files under /verif/contracts; the real source under /repo/src is re-read (ast / de-cythonised) on every run',
		'baseline_off_cmd': 'cd /repo && /venv/bin/python -m pytest -ra -q -p no:cacheprovider --timeout=900 --continue-on-collection-errors',
		'source_commits': [],
		'add_only': True,
	},
	'engines': [{'name': 'pyvc', 'path': '/verif/pyvc', 'serves_properties': sorted(CLAIMED),
	             'kind_free_text': 'verification-condition generator for a Python/Cython subset (symbolic execution per path, loops cut at invariants, calls replaced by contracts), SMT-LIB2 back ends z3 5.1 / cvc5 1.0.3, counter-model replay on the real code'}],
	'checks': checks,
	'notes': 'Exit codes of ./check: 0 all obligations discharged; 1 VIOLATION (failed obligation, replayed where a failing input exists); 2 undecided (unknown / outside the subset); 3 machinery error.',
	'not_applicable': na,
}
(V / 'MANIFEST.json').write_text(json.dumps(m, indent=1))
print('claimed', sorted(CLAIMED), 'n/a', len(na))
