#!/usr/bin/env python3-vt
"""debug helper: tools/lem.py PROP [NAME_SUBSTRING] [--dump]  -- discharge only the lemma obligations of props/PROP.py"""
import sys, importlib, time
sys.path.insert(0, '/verif')
from pyvc import smt
args = sys.argv[1:]
dump = '--dump' in args
args = [a for a in args if a != '--dump']
mod = importlib.import_module(f'props.{args[0]}')
obs = [o for o in mod.lemmas('quick') if len(args) < 2 or args[1] in o.name]
for o in obs:
	if not o.name.startswith(args[0]):
		o.name = f'{args[0]}/{o.name}'
if dump:
	for k, ob in enumerate(obs):
		fn = f'/tmp/lem_{k}.smt2'
		open(fn, 'w').write(smt.smt2_text(ob.hyps, ob.goal, negate=ob.meta.get('expect') != 'sat'))
		print('wrote', fn, ob.name)
	sys.exit(0)
t0 = time.time()
res = smt.discharge(obs)
for n, r in res.items():
	print(r.verdict, n, r.backend, round(r.seconds, 2), (r.detail or '')[:100])
print(round(time.time() - t0, 1), 's')
