#!/bin/sh
# run the quick check of every claimed property; print exit code, wall time and the last line
cd "$(dirname "$0")/.." || exit 3
ids=$(python3 -c "import json;print(' '.join(c['property_id'] for c in json.load(open('MANIFEST.json'))['checks']))")
for p in $ids; do
	s=$(date +%s)
	out=$(./check $p --tier ${1:-quick} 2>/dev/null | tail -1)
	rc=$?
	e=$(date +%s)
	echo "$p $((e-s))s :: $out"
done
