#!/bin/sh
# usage: try_patch.sh <ID> <patch>  -- apply patch to /repo transiently, run ./check <ID>, revert
ID=$1; P=$2
cd /repo && git apply "$P" || exit 9
cd /verif && ./check "$ID" --evidence-dir /tmp/ev_try 2>&1 | tail -4 | cut -c1-300
echo "exit=$?"
git -C /repo checkout -- .
git -C /repo status --short | head
