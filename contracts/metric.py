"""Contracts for src/gambit/_cython/metric.pyx and src/gambit/metric.py (C02, C05, C15)."""
from pyvc.contracts import *
from pyvc.libspec.np import NdArr, DType

CM = 'gambit._cython.metric.'
PM = 'gambit.metric.'

FUSED = ['uint16_t', 'uint32_t', 'uint64_t']
KERNEL_INSTANCES = [(f'{a[4:-2]},{b[4:-2]}', {'COORDS_T': a, 'COORDS_T_2': b}) for a in FUSED for b in FUSED]

SORTED = ['sorted_unique(coords1)', 'sorted_unique(coords2)', 'len(coords1) + len(coords2) < 2**62']


def _cast_result(eng, st, env):
	"""unsigned array of the same width as the argument"""
	from pyvc.libspec.np import mk_ndarray, dtype_of
	dt = dtype_of(st.deref(env['arr']))
	return mk_ndarray(st, 'cast', DType('u', dt.itemsize), length=None)


def register(reg):
	reg.contract(CM + 'c_jaccarddist',
		requires=SORTED,
		ensures=['result == D(coords1, coords2)',
		         # C15: the same loop, read from the other side, counts the intersection from coords2:
		         # the value is bit-for-bit symmetric and mentions element values only (width independent)
		         'inter(coords1, coords2, len(coords1)) == inter(coords2, coords1, len(coords2))',
		         'result == D(coords2, coords1)'],
		loops={0: invariant(
			'0 <= i <= N and 0 <= j <= M',
			'N == len(coords1) and M == len(coords2)',
			'u == i + j - inter(coords1, coords2, i)',
			'u == i + j - inter(coords2, coords1, j)',
			'implies(i < N, forall(r, 0 <= r, r < j, coords2[r] < coords1[i]))',
			'implies(j < M, forall(q, 0 <= q, q < i, coords1[q] < coords2[j]))',
			decreases='(N - i) + (M - j)',
			use=['tail_lemma(coords1, coords2, i, N)', 'tail_lemma(coords2, coords1, j, M)'])},
	)
	reg.contract(CM + 'jaccarddist',
		requires=SORTED,
		ensures=['result == D(coords1, coords2)'],
		returns=Float32,
	)
	reg.contract(CM + 'jaccard',
		requires=SORTED,
		ensures=['result == one_minus(D(coords1, coords2))'],
		returns=Float32,
	)
	# metric.py
	reg.contract(PM + '_cast_sigs_array',
		raises={'ValueError': 'not dtype_ok(arr)'},
		ensures=['len(result) == len(arr)',
		         'is_unsigned_coords(result)',
		         'implies(nonneg(arr), same_values(result, arr))'],
		returns=_cast_result,
	)
	reg.contract(PM + 'jaccarddist',
		requires=['sorted_unique(coords1)', 'sorted_unique(coords2)', 'nonneg(coords1)', 'nonneg(coords2)',
		          'len(coords1) + len(coords2) < 2**62'],
		raises={'ValueError': 'not dtype_ok(coords1) or not dtype_ok(coords2)'},
		ensures=['result == D(coords1, coords2)'],
	)
	reg.contract(PM + 'jaccard',
		requires=['sorted_unique(coords1)', 'sorted_unique(coords2)', 'nonneg(coords1)', 'nonneg(coords2)',
		          'len(coords1) + len(coords2) < 2**62'],
		raises={'ValueError': 'not dtype_ok(coords1) or not dtype_ok(coords2)'},
		ensures=['result == one_minus(D(coords1, coords2))'],
	)


# ---- C05 ------------------------------------------------------------------------------------------------------------------
from pyvc.values import TRec, TInt
TSlice = TRec('Slice', 'builtins.slice', {'start': TInt, 'stop': TInt}, consts={'step': None})
UM = 'gambit.util.misc.'

PAR_INSTANCES = [(f'{a[4:-2]},{b[4:-2]}', {'COORDS_T': a, 'COORDS_T_2': b}) for a, b in (('uint16_t', 'uint16_t'), ('uint32_t', 'uint64_t'), ('uint64_t', 'uint16_t'))]


def register_bulk(reg):
	reg.contract(UM + 'chunk_slices',
		types={'n': Int, 'size': Int},
		raises={'ValueError': 'size <= 0'},
		yields=TSlice,
		ensures=['forall(j, 0 <= j, j < len(Y), Y[j].start == j * size and Y[j].stop == (j + 1) * size)',
		         'implies(n <= 0, len(Y) == 0)',
		         # the chunks cover 0..n-1: the last one starts below n and the next one would start at or after n
		         'implies(n > 0, len(Y) >= 1 and (len(Y) - 1) * size < n and n <= len(Y) * size)'],
		loops={0: invariant('start == len(Y) * size', 'start >= 0',
		                    'forall(j, 0 <= j, j < len(Y), Y[j].start == j * size and Y[j].stop == (j + 1) * size)',
		                    'implies(len(Y) >= 1, (len(Y) - 1) * size < n)', 'implies(n <= 0, len(Y) == 0)',
		                    decreases='n - start')},
	)
	reg.contract(PM + 'num_pairs', types={'n': Int}, requires=['n >= 0'], ensures=['2 * result <= n * (n - 1)', 'n * (n - 1) < 2 * result + 2'], returns=Int)   # = n(n-1)/2 (the product is even; parity is not needed for the floor form)
	SEG = 'ref_coords[ref_bounds[r]:ref_bounds[r + 1]]'
	reg.contract(CM + '_jaccarddist_parallel',
		requires=['len(ref_bounds) >= 1', 'len(out) == len(ref_bounds) - 1', 'len(ref_bounds) - 1 < 2**31',
		          'sorted_unique(query)',
		          'forall(r, 0 <= r, r < len(ref_bounds) - 1, 0 <= ref_bounds[r] and ref_bounds[r] <= ref_bounds[r + 1] and ref_bounds[r + 1] <= len(ref_coords))',
		          'forall(r, 0 <= r, r < len(ref_bounds) - 1, sorted_unique(' + SEG + '))',
		          'len(query) + len(ref_coords) < 2**62'],
		writes=['out'],
		ensures=['forall(r, 0 <= r, r < len(ref_bounds) - 1, out[r] == D(query, ' + SEG + '))'],
		loops={0: invariant('0 <= i <= N', 'N == len(ref_bounds) - 1', 'forall(r, 0 <= r, r < i, out[r] == D(query, ' + SEG + '))',
		                    counter='i', decreases='N - i')},
	)


# jaccarddist_array ---------------------------------------------------------------------------------------------------------
from pyvc.libspec.np import F32Arr
from .specns import NS
from pyvc.ops import *
from pyvc.values import *
import z3
from pyvc.values import TArr


class SigArrT(TypeSpec):
	def __init__(self, dt='u2'):
		self.dt = dt

	def make(self, name, st, eng):
		return Rec('gambit.sigs.base.SignatureArray', values=NdArr(self.dt), bounds=NdArr('i8'), kmerspec=Const(None)).make(name, st, eng)


def refview(pe, refs, r):
	"""the r-th reference signature: values[bounds[r]:bounds[r+1]] for a SignatureArray, refs[r] for a sequence"""
	from pyvc.values import Record
	rv = pe.deref(refs)
	r = int_term(r)
	if isinstance(rv, Record):
		v, b = pe.deref(rv.fields['values']), pe.deref(rv.fields['bounds'])
		return v.sub(b.at(r), b.at(r + 1))
	return rv.at(r)


def nrefs(pe, refs):
	from pyvc.values import Record
	rv = pe.deref(refs)
	if isinstance(rv, Record):
		return SInt(pe.deref(rv.fields['bounds']).length - 1)
	return SInt(rv.length)


def refs_ok(pe, refs):
	"""every reference is a sorted duplicate-free array of non-negative indices; a SignatureArray satisfies its representation invariant"""
	from pyvc.values import Record
	from pyvc import spec as S
	rv = pe.deref(refs)
	r, p = z3.Int(fresh_name('r')), z3.Int(fresh_name('p'))
	if isinstance(rv, Record):
		v, b = pe.deref(rv.fields['values']), pe.deref(rv.fields['bounds'])
		n = b.length - 1
		return SBool(z3.And(b.length >= 1, n < 2 ** 31,
			z3.ForAll([r], z3.Implies(z3.And(0 <= r, r < n), z3.And(0 <= b.at(r), b.at(r) <= b.at(r + 1), b.at(r + 1) <= v.length,
				S.strictly_increasing(v.arr, v.off + b.at(r), b.at(r + 1) - b.at(r))))),
			z3.ForAll([p], z3.Select(v.arr, p) >= 0)))
	return SBool(z3.ForAll([r], z3.Implies(z3.And(0 <= r, r < rv.length), z3.And(
		S.strictly_increasing(rv.at(r).arr, 0, rv.at(r).length), z3.ForAll([p], z3.Select(rv.at(r).arr, p) >= 0)))))


NS['refview'] = refview
NS['nrefs'] = nrefs
NS['refs_ok'] = refs_ok


def register_array(reg):
	reg.contract(PM + 'jaccarddist_array',
		requires=['sorted_unique(query)', 'nonneg(query)', 'refs_ok(refs)', 'lens_ok(query, refs)'],
		raises={'ValueError': 'not dtype_ok(query) or (not isnone(out) and (len(out) != nrefs(refs) or not is_f32(out)))'},
		ensures=['len(result) == nrefs(refs)', 'forall(r, 0 <= r, r < nrefs(refs), result[r] == D(query, refview(refs, r)))',
		         'isnone(out) or result is out'],
		writes=['out'],
		loops={0: invariant('0 <= _i0 <= len(__it0)', 'len(out) == len(refs)', 'forall(r, 0 <= r, r < _i0, out[r] == D(query, refview(refs, r)))',
		                    decreases='len(__it0) - _i0')},
	)
