"""Contracts for src/gambit/_cython/metric.pyx and src/gambit/metric.py (C02, C05, C15)."""
from pyvc.contracts import *
from pyvc.libspec.np import NdArr, DType

CM = 'gambit._cython.metric.'
PM = 'gambit.metric.'

FUSED = ['uint16_t', 'uint32_t', 'uint64_t']
KERNEL_INSTANCES = [(f'{a[4:-2]},{b[4:-2]}', {'COORDS_T': a, 'COORDS_T_2': b}) for a in FUSED for b in FUSED]

SORTED = ['sorted_unique(coords1)', 'sorted_unique(coords2)', 'len(coords1) + len(coords2) < 2**62']


def _cast_result(eng, st, env):
	"""unsigned array of the same width as the argument"""
	from pyvc.libspec.np import mk_ndarray, dtype_of
	dt = dtype_of(st.deref(env['arr']))
	return mk_ndarray(st, 'cast', DType('u', dt.itemsize), length=None)


def register(reg):
	reg.contract(CM + 'c_jaccarddist',
		requires=SORTED,
		ensures=['result == D(coords1, coords2)',
		         # C15: the same loop, read from the other side, counts the intersection from coords2:
		         # the value is bit-for-bit symmetric and mentions element values only (width independent)
		         'inter(coords1, coords2, len(coords1)) == inter(coords2, coords1, len(coords2))',
		         'result == D(coords2, coords1)'],
		loops={0: invariant(
			'0 <= i <= N and 0 <= j <= M',
			'N == len(coords1) and M == len(coords2)',
			'u == i + j - inter(coords1, coords2, i)',
			'u == i + j - inter(coords2, coords1, j)',
			'implies(i < N, forall(r, 0 <= r, r < j, coords2[r] < coords1[i]))',
			'implies(j < M, forall(q, 0 <= q, q < i, coords1[q] < coords2[j]))',
			decreases='(N - i) + (M - j)',
			use=['tail_lemma(coords1, coords2, i, N)', 'tail_lemma(coords2, coords1, j, M)'])},
	)
	reg.contract(CM + 'jaccarddist',
		requires=SORTED,
		ensures=['result == D(coords1, coords2)'],
		returns=Float32,
	)
	reg.contract(CM + 'jaccard',
		requires=SORTED,
		ensures=['result == one_minus(D(coords1, coords2))'],
		returns=Float32,
	)
	# metric.py
	reg.contract(PM + '_cast_sigs_array',
		raises={'ValueError': 'not dtype_ok(arr)'},
		ensures=['len(result) == len(arr)',
		         'is_unsigned_coords(result)',
		         'implies(nonneg(arr), same_values(result, arr))'],
		returns=_cast_result,
	)
	reg.contract(PM + 'jaccarddist',
		requires=['sorted_unique(coords1)', 'sorted_unique(coords2)', 'nonneg(coords1)', 'nonneg(coords2)',
		          'len(coords1) + len(coords2) < 2**62'],
		raises={'ValueError': 'not dtype_ok(coords1) or not dtype_ok(coords2)'},
		ensures=['result == D(coords1, coords2)'],
	)
	reg.contract(PM + 'jaccard',
		requires=['sorted_unique(coords1)', 'sorted_unique(coords2)', 'nonneg(coords1)', 'nonneg(coords2)',
		          'len(coords1) + len(coords2) < 2**62'],
		raises={'ValueError': 'not dtype_ok(coords1) or not dtype_ok(coords2)'},
		ensures=['result == one_minus(D(coords1, coords2))'],
	)
