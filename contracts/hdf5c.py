"""Contracts for src/gambit/sigs/hdf5.py (C12) over the assumed h5py store model."""
import z3
from pyvc.contracts import *
from pyvc.values import *
from pyvc.ops import *
from pyvc.interp import ExtObj, SDict
from pyvc.libspec.h5 import TJson, TAttrVal, JD, JL
from .specns import NS

H5 = 'gambit.sigs.hdf5.'
FIELDS = ('id', 'name', 'id_attr', 'version', 'description')


class GroupT(TypeSpec):
	"""an h5py group being written: its attribute store is a dict with concrete names"""

	def __init__(self, attrs=None):
		self.attrs = attrs

	def make(self, name, st, eng):
		a = Ref('dict')
		st.heap[a.addr] = dict(self.attrs or {})
		return Rec('h5py.Group', attrs=Const(a)).make(name, st, eng)


class MetaT(TypeSpec):
	def make(self, name, st, eng):
		return Rec('gambit.sigs.base.SignaturesMeta', extra=Obj('JsonVal', nonnull=False), **{f: Opt(Str) for f in FIELDS}).make(name, st, eng)


def attr_is(pe, group, key, v):
	"""attribute `key` of the group holds v: h5py.Empty for None, the value otherwise"""
	d = pe.deref(pe.attr(group, 'attrs'))
	if key not in d:
		return False
	cur = d[key]
	if v is None:
		return isinstance(cur, ExtObj) and cur.kind == 'h5empty'
	if isinstance(v, SOpt):
		if isinstance(cur, ExtObj):
			return SBool(v.is_none()) if cur.kind == 'h5empty' else False
		if isinstance(cur, SOpt):
			return SBool(z3.And(z3.Not(v.is_none()), cur.term == v.term))
		return SBool(z3.And(z3.Not(v.is_none()), to_term(cur) == to_term(v.value())))
	if isinstance(cur, ExtObj):
		return False
	return wrap_bool(values_equal(cur, v))


def extra_is(pe, group, extra):
	d = pe.deref(pe.attr(group, 'attrs'))
	if 'extra' not in d:
		return False
	cur = d['extra']
	if isinstance(cur, ExtObj):
		return SBool(extra.term == TJson.none) if cur.kind == 'h5empty' else False
	return SBool(z3.And(extra.term != TJson.none, to_term(cur) == JD(extra.term)))


NS['attr_is'] = attr_is
NS['extra_is'] = extra_is


def register(reg):
	reg.contract(H5 + 'none_to_empty', inline=True)
	reg.contract(H5 + 'empty_to_none', inline=True)
	reg.contract(H5 + 'write_metadata',
		types={'group': GroupT(), 'meta': MetaT()},
		writes=['group'],
		ensures=[f'attr_is(group, "{f}", meta.{f})' for f in FIELDS] + ['extra_is(group, meta.extra)'],
	)


EMPTY = ExtObj('h5empty')


def field_is(pe, meta, f, group):
	"""meta.f is what the attribute store holds for f: None for h5py.Empty (or a missing attribute), the value otherwise"""
	d = pe.deref(pe.attr(group, 'attrs'))
	cur = d.get(f)
	got = pe.attr(meta, f)
	if cur is None or (isinstance(cur, ExtObj) and cur.kind == 'h5empty'):
		return wrap_bool(is_none(got))
	return wrap_bool(mk_and(mk_not(is_none(got)), values_equal(got, cur)))


def extra_field_is(pe, meta, group):
	d = pe.deref(pe.attr(group, 'attrs'))
	cur = d.get('extra')
	got = pe.attr(meta, 'extra')
	if cur is None or (isinstance(cur, ExtObj) and cur.kind == 'h5empty'):
		return wrap_bool(is_none(got))
	return SBool(got.term == JL(to_term(cur)))


NS['field_is'] = field_is
NS['extra_field_is'] = extra_field_is


def attrs_instance(pattern):
	"""attribute store for reading: pattern[f] in {'str', 'empty', 'missing'}"""
	class _T(TypeSpec):
		def make(self, name, st, eng):
			d = {}
			for f, k in pattern.items():
				if k == 'str':
					d[f] = Str.make(f'attr_{f}', st, eng)
				elif k == 'empty':
					d[f] = EMPTY
			a = Ref('dict')
			st.heap[a.addr] = d
			return Rec('h5py.Group', attrs=Const(a)).make(name, st, eng)
	return _T()


READ_INSTANCES = {
	'all-str': {f: 'str' for f in FIELDS + ('extra',)},
	'all-empty': {f: 'empty' for f in FIELDS + ('extra',)},
	'mixed': {'id': 'str', 'name': 'empty', 'id_attr': 'str', 'version': 'missing', 'description': 'empty', 'extra': 'str'},
}


def register_read(reg):
	reg.contracts[H5 + 'write_metadata'].inline = True    # its six stores are executed in place at call sites (the attribute store is a concrete dict)
	reg.contract(H5 + 'read_metadata',
		axioms=['json'],
		ensures=[f'field_is(result, "{f}", group)' for f in FIELDS] + ['extra_field_is(result, group)'],
	)
	reg.contract(H5 + 'HDF5Signatures._init_attrs',
		types={'cls': Const(None), 'group': GroupT(), 'kmerspec': Rec('gambit.kmers.KmerSpec', k=Int, prefix_str=Str), 'meta': MetaT()},
		writes=['group'],
		ensures=['attr_is(group, "gambit_signatures_version", 1)', 'attr_is(group, "kmerspec_k", kmerspec.k)', 'attr_is(group, "kmerspec_prefix", kmerspec.prefix_str)']
		        + [f'attr_is(group, "{f}", meta.{f})' for f in FIELDS] + ['extra_is(group, meta.extra)'],
	)


MARKER = 'gambit_signatures_version'
MAGIC = b'\x89HDF\r\n\x1a\n'


def header_is_hdf5(pe, path):
	from pyvc.libspec.h5 import HEADER
	h = TArr(None, 'bytes').wrap(HEADER(to_term(path)))
	return SBool(z3.And(h.length == 8, *[h.at(i) == MAGIC[i] for i in range(8)]))


def has_marker(pe, path):
	from pyvc.libspec.h5 import HASMARK
	return SBool(HASMARK(to_term(path)))


NS['header_is_hdf5'] = header_is_hdf5
NS['has_marker'] = has_marker


def register_load(reg):
	reg.contract(H5 + 'HDF5Signatures.__init__',
		raises={'SignaturesFileError': 'not group_has_marker(group)'}, may_raise=['ValueError', 'KeyError'],
		note='C12: the constructor refuses a group without the marker; version/keys are further checks', trusted=False)
	reg.contract(H5 + 'load_signatures_hdf5',
		types={'path': Str},
		raises={'SignaturesFileError': 'not header_is_hdf5(path) or not has_marker(path)'},
		may_raise=['ValueError', 'KeyError'],
		# C18: with no caller-supplied h5py arguments nothing is opened in a mode that could create, truncate or modify a file
		ensures=['implies(len(kw) == 0, not opened_for_write())'],
	)


def opened_for_write(pe):
	return pe.st.ghosts['fs_write']


NS['opened_for_write'] = opened_for_write


def group_has_marker(pe, group):
	d = pe.deref(pe.attr(group, 'attrs'))
	if isinstance(d, dict):
		return MARKER in d
	return SBool(d.has(MARKER))


NS['group_has_marker'] = group_has_marker
