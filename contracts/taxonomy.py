"""Forest theory for the taxonomy (C03, C09, C10) and contracts for db/models.py, classify.py, query.py."""
import z3
from pyvc.values import *
from pyvc.ops import *
from pyvc.contracts import *
from pyvc import spec as S
from .specns import NS

# ---- the ORM rows as immutable records --------------------------------------------------------------------
TTaxon = TObj('Taxon')
TTaxon.field('parent', TTaxon).field('distance_threshold', TOpt(TReal)).field('report', TBool) \
	.field('name', TStr).field('rank', TOpt(TStr)).field('ncbi_id', TOpt(TInt)).field('id', TInt).field('key', TStr)
TGenomeRow = TObj('Genome')
TGenomeRow.field('key', TStr).field('description', TStr)
TGenome = TObj('AnnotatedGenome')
TGenome.field('taxon', TTaxon).field('genome', TGenomeRow).field('description', TStr).field('key', TStr) \
	.field('organism', TOpt(TStr)).field('genome_id', TInt).field('ncbi_db', TOpt(TStr)).field('ncbi_id', TOpt(TInt)) \
	.field('genbank_acc', TOpt(TStr)).field('refseq_acc', TOpt(TStr))

Taxon = Obj('Taxon')
OptTaxon = Obj('Taxon', nonnull=False)
Genome = Obj('AnnotatedGenome')

parent = TTaxon.fields['parent'][0]
thr = TTaxon.fields['distance_threshold'][0]
_OptR = TOpt(TReal)


class OptR:
	is_some = staticmethod(lambda t: _OptR.is_some_r(t))
	val = staticmethod(lambda t: _OptR.val_a(t))
NONE_T = TTaxon.none

depth = z3.Function('depth', TTaxon.sort, I)     # ghost: number of ancestors
anc = S._rec('anc', TTaxon.sort, I, TTaxon.sort)  # anc(t, i): the i-th ancestor (anc(t, 0) = t)
_t = z3.Const('t', TTaxon.sort)
_i = z3.Int('i')
z3.RecAddDefinition(anc, [_t, _i], z3.If(_i <= 0, _t, parent(anc(_t, _i - 1))))


def wf_forest():
	"""the taxonomy is a finite forest: every taxon has a depth, roots have depth 0, a parent is one level up"""
	t = z3.Const('t', TTaxon.sort)
	return z3.And(parent(NONE_T) == NONE_T,
		z3.ForAll([t], z3.Implies(t != NONE_T, z3.And(depth(t) >= 0, (parent(t) == NONE_T) == (depth(t) == 0),
			z3.Implies(parent(t) != NONE_T, depth(parent(t)) == depth(t) - 1))), patterns=[parent(t)]))


def anc_depth_stmt(t, i):
	return z3.Implies(z3.And(t != NONE_T, 0 <= i, i <= depth(t)), z3.And(anc(t, i) != NONE_T, depth(anc(t, i)) == depth(t) - i))


def forest_axioms():
	"""wf_forest + the lemma anc-depth (proved by induction in C03/lemma/anc-depth/*), with triggers"""
	t = z3.Const('t', TTaxon.sort)
	i = z3.Int('i')
	return z3.And(wf_forest(),
		z3.ForAll([t, i], anc_depth_stmt(t, i), patterns=[anc(t, i)]),
		z3.ForAll([t], z3.Implies(t != NONE_T, anc(t, depth(t) + 1) == NONE_T), patterns=[depth(t)]))


S.AXIOMS['forest'] = forest_axioms


# ---- vocabulary ----------------------------------------------------------------------------------------------------

def _tx(v):
	if v is None:
		return NONE_T
	if z3.is_expr(v):
		return v
	return v.term


def sp_depth(pe, t):
	return SInt(depth(_tx(t)))


def sp_anc(pe, t, i):
	return SObj(TTaxon, anc(_tx(t), int_term(i)))


def thr_ok(pe, t, d):
	"""t carries a threshold and the distance d is within it"""
	o = thr(_tx(t))
	return SBool(z3.And(OptR.is_some(o), real_term(d) <= OptR.val(o)))


def has_thr(pe, t):
	return SBool(OptR.is_some(thr(_tx(t))))


def on_lineage(pe, x, t):
	"""x is t or one of its ancestors"""
	x, t = _tx(x), _tx(t)
	return SBool(z3.And(x != NONE_T, t != NONE_T, depth(x) <= depth(t), anc(t, depth(t) - depth(x)) == x))


# midx(t, d): index in the lineage of t of the most specific taxon whose threshold covers d; depth(t)+1 if none.
# (the least element of a set of naturals, or the bound: it exists and is unique, so this is a definition)
midx = z3.Function('midx', TTaxon.sort, R, I)


def _ok(t, i, d):
	return z3.And(OptR.is_some(thr(anc(t, i))), d <= OptR.val(thr(anc(t, i))))


def midx_axiom():
	t = z3.Const('t', TTaxon.sort)
	d = z3.Real('d')
	j = z3.Int('j')
	m = midx(t, d)
	return z3.ForAll([t, d], z3.Implies(t != NONE_T, z3.And(0 <= m, m <= depth(t) + 1, z3.Implies(m <= depth(t), _ok(t, m, d)),
		z3.ForAll([j], z3.Implies(z3.And(0 <= j, j < m), z3.Not(_ok(t, j, d)))))), patterns=[midx(t, d)])


S.AXIOMS['midx'] = midx_axiom


def sp_midx(pe, t, d):
	return SInt(midx(_tx(t), real_term(d)))


def is_match(pe, r, t, d):
	"""r = the most specific taxon in the lineage of t whose threshold covers d, None if there is none"""
	t, r = _tx(t), _tx(r)
	m = midx(t, real_term(d))
	return SBool(z3.If(m <= depth(t), r == anc(t, m), r == NONE_T))


def is_next(pe, r, t, d):
	"""r = the nearest threshold-bearing taxon strictly below the prediction in the lineage of t (below everything
	when nothing is predicted), None if there is none"""
	t, r = _tx(t), _tx(r)
	m = midx(t, real_term(d))
	i, j = z3.Int(fresh_name('i')), z3.Int(fresh_name('j'))
	hasthr = lambda x: OptR.is_some(thr(anc(t, x)))
	none_case = z3.And(r == NONE_T, z3.ForAll([j], z3.Implies(z3.And(0 <= j, j < m), z3.Not(hasthr(j)))))
	some_case = z3.Exists([i], z3.And(0 <= i, i < m, r == anc(t, i), hasthr(i),
	                                 z3.ForAll([j], z3.Implies(z3.And(i < j, j < m), z3.Not(hasthr(j))))))
	return SBool(z3.Or(none_case, some_case))


def is_reportable(pe, r, t):
	"""r = the first taxon at or above t flagged reportable; None if t is None or there is none"""
	t, r = _tx(t), _tx(r)
	rep = TTaxon.fields['report'][0]
	i, j = z3.Int(fresh_name('i')), z3.Int(fresh_name('j'))
	none_case = z3.And(r == NONE_T, z3.Or(t == NONE_T, z3.ForAll([j], z3.Implies(z3.And(0 <= j, j <= depth(t)), z3.Not(rep(anc(t, j)))))))
	some_case = z3.And(t != NONE_T, z3.Exists([i], z3.And(0 <= i, i <= depth(t), r == anc(t, i), rep(anc(t, i)),
	                                                       z3.ForAll([j], z3.Implies(z3.And(0 <= j, j < i), z3.Not(rep(anc(t, j))))))))
	return SBool(z3.Or(none_case, some_case))


for _n, _f in (('depth', sp_depth), ('anc', sp_anc), ('thr_ok', thr_ok), ('has_thr', has_thr), ('on_lineage', on_lineage),
               ('is_match', is_match), ('midx', sp_midx), ('is_next', is_next), ('is_reportable', is_reportable)):
	NS[_n] = _f

MD = 'gambit.db.models.'
CL = 'gambit.classify.'


def register(reg):
	reg.contract(MD + 'Taxon.ancestors',
		types={'self': Taxon, 'incself': Bool},
		axioms=['forest', 'midx'],
		yields=TTaxon,
		ensures=['len(Y) == depth(self) + (1 if incself else 0)',
		         'forall(j, 0 <= j, j < len(Y), Y[j] == anc(self, j + (0 if incself else 1)) and not isnone(Y[j]))'],
		loops={0: invariant(
			'len(Y) <= depth(self) + (1 if incself else 0)',
			'taxon == anc(self, len(Y) + (0 if incself else 1))',
			'forall(j, 0 <= j, j < len(Y), Y[j] == anc(self, j + (0 if incself else 1)) and not isnone(Y[j]))',
			'implies(isnone(taxon), len(Y) == depth(self) + (1 if incself else 0))',
			types={'taxon': OptTaxon},
			decreases='depth(self) + 1 - len(Y)')},
	)
	reg.contract(CL + 'matching_taxon',
		types={'taxon': Taxon, 'd': Real},
		axioms=['forest', 'midx'],
		ensures=['is_match(result, taxon, d)'],
		returns=OptTaxon,
		loops={0: invariant('0 <= _i0 <= len(__it0)', 'forall(j, 0 <= j, j < _i0, not thr_ok(anc(taxon, j), d))',
		                    decreases='len(__it0) - _i0')},
	)
	reg.contract(MD + 'reportable_taxon',
		types={'taxon': OptTaxon},
		axioms=['forest', 'midx'],
		ensures=['is_reportable(result, taxon)'],
		returns=OptTaxon,
		loops={0: invariant('0 <= _i0 <= len(__it0)', 'forall(j, 0 <= j, j < _i0, not anc(taxon, j).report)',
		                    decreases='len(__it0) - _i0')},
	)


def hidx(pe, hi, t0):
	"""lineage index of hi in the lineage of t0 (depth(t0)+1 once hi has run off the top)"""
	hi, t0 = _tx(hi), _tx(t0)
	return SInt(z3.If(hi == NONE_T, depth(t0) + 1, depth(t0) - depth(hi)))


def lo_ok(pe, lo, t0, h):
	"""lo is the nearest threshold-bearing taxon strictly below lineage index h (None if there is none)"""
	lo, t0 = _tx(lo), _tx(t0)
	h = int_term(h)
	i, j = z3.Int(fresh_name('i')), z3.Int(fresh_name('j'))
	hasthr = lambda x: OptR.is_some(thr(anc(t0, x)))
	return SBool(z3.Or(
		z3.And(lo == NONE_T, z3.ForAll([j], z3.Implies(z3.And(0 <= j, j < h), z3.Not(hasthr(j))))),
		z3.Exists([i], z3.And(0 <= i, i < h, lo == anc(t0, i), hasthr(i), z3.ForAll([j], z3.Implies(z3.And(i < j, j < h), z3.Not(hasthr(j))))))))


NS['hidx'] = hidx
NS['lo_ok'] = lo_ok

GM = Rec(CL + 'GenomeMatch', genome=Genome, distance=Real, matched_taxon=OptTaxon)
T0 = 'self.genome.taxon'
NEXT_OUTER = invariant(
	f'isnone(hi) or on_lineage(hi, {T0})',
	f'forall(j, 0 <= j, j < hidx(hi, {T0}), not thr_ok(anc({T0}, j), self.distance))',
	f'lo_ok(lo, {T0}, hidx(hi, {T0}))',
	'isnone(hi) or has_thr(hi)',
	types={'lo': OptTaxon, 'hi': OptTaxon}, decreases=f'depth({T0}) + 1 - hidx(hi, {T0})')
NEXT_INNER = invariant(
	f'isnone(hi) or on_lineage(hi, {T0})',
	f'forall(j, 0 <= j, j < hidx(hi, {T0}), not thr_ok(anc({T0}, j), self.distance))',
	f'lo_ok(lo, {T0}, hidx(hi, {T0}))',
	types={'hi': OptTaxon}, decreases=f'depth({T0}) + 1 - hidx(hi, {T0})')
SKIP = invariant(
	f'isnone(hi) or on_lineage(hi, {T0})',
	f'forall(j, 0 <= j, j < hidx(hi, {T0}), not has_thr(anc({T0}, j)))',
	types={'hi': OptTaxon}, decreases=f'depth({T0}) + 1 - hidx(hi, {T0})')


def register_classify(reg, next_loops=None):
	reg.contract(CL + 'GenomeMatch.next_taxon',
		types={'self': GM},
		axioms=['forest', 'midx'],
		requires=[f'not isnone({T0})'],
		ensures=[f'is_next(result, {T0}, self.distance)'],
		returns=OptTaxon,
		loops=next_loops if next_loops is not None else {0: SKIP, 1: NEXT_OUTER, 2: NEXT_INNER},
	)
	reg.contract(CL + 'GenomeMatch._matched_taxon_default',
		types={'self': Rec(CL + 'GenomeMatch', genome=Genome, distance=Real)},
		requires=[f'not isnone({T0})'],
		ensures=[f'is_match(result, {T0}, self.distance)'],
		returns=OptTaxon, inline=True,
	)


def first_min(pe, d, a):
	"""a is the first index of the minimum of the vector d"""
	a = int_term(a)
	j = z3.Int(fresh_name('j'))
	return SBool(z3.And(0 <= a, a < d.length,
		z3.ForAll([j], z3.Implies(z3.And(0 <= j, j < d.length), z3.Select(d.arr, a) <= z3.Select(d.arr, j))),
		z3.ForAll([j], z3.Implies(z3.And(0 <= j, j < a), z3.Select(d.arr, a) < z3.Select(d.arr, j)))))


def all_have_taxon(pe, gs):
	j = z3.Int(fresh_name('j'))
	tx = TGenome.fields['taxon'][0]
	return SBool(z3.ForAll([j], z3.Implies(z3.And(0 <= j, j < gs.length), z3.And(z3.Select(gs.arr, j) != TGenome.none, tx(z3.Select(gs.arr, j)) != NONE_T))))


NS['first_min'] = first_min
NS['all_have_taxon'] = all_have_taxon

def taxonomy_GM():
	return GM


TGenomeMatch = TRec('GenomeMatch', CL + 'GenomeMatch', {'genome': TGenome, 'distance': TReal, 'matched_taxon': TTaxon})
QR = 'gambit.query.'


def same_match(pe, a, b):
	"""two genome matches describe the same reference: genome, distance and matched taxon agree"""
	fa = lambda x, f: pe.attr(x, f)
	return SBool(z3.And(fa(a, 'genome').term == fa(b, 'genome').term, fa(a, 'distance').term == fa(b, 'distance').term,
	                    _tx(fa(a, 'matched_taxon')) == _tx(fa(b, 'matched_taxon'))))


NS['same_match'] = same_match


def _classifier_result(eng, st, env):
	cm = GM.make('closest_match', st, eng)
	pm = GM.make('primary_match', st, eng)
	w = Ref('list')
	st.heap[w.addr] = TSeq(TStr).fresh('warnings')
	st.assume(st.heap[w.addr].length >= 0)
	r = Ref('record')
	st.heap[r.addr] = Record(CL + 'ClassifierResult', dict(
		success=SBool(z3.Bool(fresh_name('success'))), predicted_taxon=OptTaxon.make('predicted_taxon', st, eng),
		primary_match=SMaybe(z3.Bool(fresh_name('no_primary')), pm), closest_match=cm,
		next_taxon=OptTaxon.make('next_taxon', st, eng), warnings=w, error=TOpt(TStr).fresh('error')))
	return r


def register_query(reg):
	NONSTRICT = ('exists(a, first_min(dists, a) and result.closest_match.genome == ref_genomes[a] and result.closest_match.distance == dists[a]'
	             ' and is_match(result.predicted_taxon, ref_genomes[a].taxon, dists[a])'
	             ' and is_match(result.closest_match.matched_taxon, ref_genomes[a].taxon, dists[a])'
	             ' and is_next(result.next_taxon, ref_genomes[a].taxon, dists[a]))')
	reg.contract(CL + 'ClassifierResult._next_taxon_default',
		types={'self': Rec(CL + 'ClassifierResult', closest_match=taxonomy_GM())}, inline=True)
	reg.contract(CL + 'classify',
		types={'ref_genomes': SeqOf(Genome), 'dists': SeqOf(Real)},
		axioms=['forest', 'midx'],
		requires=['len(dists) == len(ref_genomes)', 'len(dists) >= 1', 'all_have_taxon(ref_genomes)'],
		ensures=[
			'implies(not strict, result.success and isnone(result.error))',
			'implies(not strict, ' + NONSTRICT + ')',
			# the primary match is the closest match exactly when a prediction is made
			'implies(not strict, ite(isnone(result.predicted_taxon), isnone(result.primary_match),'
			' not isnone(result.primary_match) and same_match(result.primary_match, result.closest_match)))',
		],
		returns=_classifier_result,
	)


def is_ref(pe, gm, gs, d, i):
	"""the closest-genomes entry gm describes reference i: that genome, its exact distance, and the taxon that distance alone assigns"""
	i = int_term(i)
	g = z3.Select(gs.arr, i)
	dist = z3.Select(d.arr, i)
	tx = TGenome.fields['taxon'][0]
	m = is_match(pe, gm.getattr('matched_taxon'), tx(g), SReal(dist))
	return SBool(z3.And(0 <= i, i < d.length, gm.getattr('genome').term == g, gm.getattr('distance').term == dist, truth(m)))


def is_idx(pe, gm, gs, d, i):
	"""the entry gm is reference i with its exact distance"""
	i = int_term(i)
	return SBool(z3.And(0 <= i, i < d.length, gm.getattr('genome').term == z3.Select(gs.arr, i), gm.getattr('distance').term == z3.Select(d.arr, i)))


def lexlt(pe, d, i, k):
	"""(d[i], i) < (d[k], k) lexicographically: smaller distance first, ties by reference order"""
	i, k = int_term(i), int_term(k)
	return SBool(z3.Or(z3.Select(d.arr, i) < z3.Select(d.arr, k), z3.And(z3.Select(d.arr, i) == z3.Select(d.arr, k), i < k)))


def lexrank(pe, d, k):
	"""position of reference k when the references are ordered by (distance, reference order)"""
	from pyvc.libspec.np import LEXRANK
	return SInt(LEXRANK(d.arr, d.length, int_term(k)))


NS['lexrank'] = lexrank
NS['is_ref'] = is_ref
NS['is_idx'] = is_idx
NS['lexlt'] = lexlt

TQueryInput = TObj('QueryInput')
DBT = Rec('gambit.db.refdb.ReferenceDatabase', genomes=SeqOf(Genome))
PARAMS = Rec(QR + 'QueryParams', classify_strict=Bool, chunksize=Int, report_closest=Int)


def register_result_item(reg):
	CG = 'result.closest_genomes'
	G, D = 'db.genomes', 'dists'
	reg.contract(QR + 'get_result_item',
		types={'db': DBT, 'params': PARAMS, 'dists': SeqOf(Real), 'input': Obj('QueryInput')},
		axioms=['forest', 'midx'],
		requires=[f'len({D}) == len({G})', f'len({D}) >= 1', f'all_have_taxon({G})', 'params.report_closest >= 0', 'not params.classify_strict'],
		ensures=[
			'result.input == input',
			f'len({CG}) == min(params.report_closest, len({D}))',
			# every entry is a reference genome with its exact distance and the taxon that distance alone assigns
			f'forall(r, 0 <= r, r < len({CG}), exists(i, is_ref({CG}[r], {G}, {D}, i)))',
			# entry r is THE reference whose (distance, reference order) rank is r: non-decreasing distance, ties by reference
			# order, nothing closer left out, and the same list on every run (the rank is a function of the distance row)
			f'forall(r, 0 <= r, r < len({CG}), exists(i, lexrank({D}, i) == r and is_ref({CG}[r], {G}, {D}, i)))',
			# its first entry is the genome reported as the closest match
			f'implies(len({CG}) >= 1, {CG}[0].genome == result.classifier_result.closest_match.genome)',
			'is_reportable(result.report_taxon, result.classifier_result.predicted_taxon)',
		],
	)


# ---- C10: consensus over the forest ---------------------------------------------------------------------------------------

def anc_compose_stmt(t, i, j):
	return z3.Implies(z3.And(i >= 0, j >= 0), anc(anc(t, i), j) == anc(t, i + j))


def forest2_axioms():
	"""lemma anc-compose (proved by induction in C10/lemma/anc-compose/*), with a trigger"""
	t = z3.Const('t', TTaxon.sort)
	i, j = z3.Ints('i j')
	return z3.ForAll([t, i, j], anc_compose_stmt(t, i, j), patterns=[anc(anc(t, i), j)])


S.AXIOMS['forest2'] = forest2_axioms
NS.setdefault('__qtypes__', {}).update({'x': TTaxon, 'y': TTaxon})


def _onl(a, t):
	return z3.And(a != NONE_T, t != NONE_T, depth(a) <= depth(t), anc(t, depth(t) - depth(a)) == a)


def cmp_(pe, a, b):
	"""a and b lie on one lineage (one is the other or its ancestor)"""
	a, b = _tx(a), _tx(b)
	return SBool(z3.Or(_onl(a, b), _onl(b, a)))


def below(pe, c, s):
	"""s is a strict descendant of c"""
	c, s = _tx(c), _tx(s)
	return SBool(z3.And(_onl(c, s), c != s))


def child_toward(pe, c, s):
	"""the child of c on the way down to its strict descendant s"""
	c, s = _tx(c), _tx(s)
	return SObj(TTaxon, anc(s, depth(s) - depth(c) - 1))


def root(pe, t):
	t = _tx(t)
	return SObj(TTaxon, anc(t, depth(t)))


def is_lin(pe, trunk, c):
	"""trunk is the lineage of c, bottom to top"""
	c = _tx(c)
	j = z3.Int(fresh_name('j'))
	return SBool(z3.And(c != NONE_T, trunk.length == depth(c) + 1,
		z3.ForAll([j], z3.Implies(z3.And(0 <= j, j < trunk.length), z3.Select(trunk.arr, j) == anc(c, j)))))


def in_seq(pe, x, seq, n=None):
	x = _tx(x)
	n = seq.length if n is None else int_term(n)
	j = z3.Int(fresh_name('j'))
	return SBool(z3.Exists([j], z3.And(0 <= j, j < n, z3.Select(seq.arr, j) == x)))


def all_taxa(pe, seq):
	j = z3.Int(fresh_name('j'))
	return SBool(z3.ForAll([j], z3.Implies(z3.And(0 <= j, j < seq.length), z3.Select(seq.arr, j) != NONE_T)))


def set_has(pe, s, x):
	from pyvc.values import EmptySet
	if isinstance(s, EmptySet):
		return False
	return SBool(s.has(x))


def in_lineages(pe, x, seq, n=None):
	"""x lies on the lineage of one of the first n taxa"""
	x = _tx(x)
	n = seq.length if n is None else int_term(n)
	j = z3.Int(fresh_name('j'))
	return SBool(z3.Exists([j], z3.And(0 <= j, j < n, _onl(x, z3.Select(seq.arr, j)))))


def cmp_all(pe, x, seq, n=None):
	x = _tx(x)
	n = seq.length if n is None else int_term(n)
	j = z3.Int(fresh_name('j'))
	return SBool(z3.ForAll([j], z3.Implies(z3.And(0 <= j, j < n), z3.Or(_onl(x, z3.Select(seq.arr, j)), _onl(z3.Select(seq.arr, j), x)))))


for _n, _f in (('cmp', cmp_), ('below', below), ('child_toward', child_toward), ('root', root), ('is_lin', is_lin), ('in_seq', in_seq),
               ('all_taxa', all_taxa), ('set_has', set_has), ('in_lineages', in_lineages), ('cmp_all', cmp_all)):
	NS[_n] = _f


def register_consensus(reg):
	C = 'trunk[0]'
	SEEN = '0 <= j, j <= _i0'
	reg.contract(CL + 'consensus_taxon',
		types={'taxa': SeqOf(Taxon)},
		axioms=['forest', 'forest2'],
		requires=['all_taxa(taxa)'],
		ensures=[
			'implies(len(taxa) == 0, isnone(result[0]))',
			'implies(len(taxa) == 0, forall(x, not set_has(result[1], x)))',
			# the consensus is comparable with every matched taxon ...
			'implies(not isnone(result[0]), cmp_all(result[0], taxa))',
			# ... lies on the lineage of one of them ...
			'implies(not isnone(result[0]), in_lineages(result[0], taxa))',
			# ... and is the deepest such taxon: hence a function of the SET of matched taxa (order independent)
			'implies(not isnone(result[0]), forall(x, in_lineages(x, taxa) and cmp_all(x, taxa), depth(x) <= depth(result[0])))',
			# others = the matched taxa strictly below the consensus
			'implies(not isnone(result[0]), forall(x, set_has(result[1], x) == (in_seq(x, taxa) and below(result[0], x))))',
			# no consensus only if two matched taxa have different roots; then every matched taxon is "other"
			'implies(isnone(result[0]) and len(taxa) > 0, exists((p, q), 0 <= p, p < len(taxa), 0 <= q, q < len(taxa), root(taxa[p]) != root(taxa[q])))',
			'implies(isnone(result[0]) and len(taxa) > 0, forall(x, set_has(result[1], x) == in_seq(x, taxa)))',
		],
		loops={
			0: invariant(
				'0 <= _i0 <= len(__it0)', 'len(trunk) >= 1', f'is_lin(trunk, {C})',
				f'forall(j, {SEEN}, cmp({C}, taxa[j]))',
				f'split or (exists(j, {SEEN}, taxa[j] == {C}) and forall(j, {SEEN}, on_lineage(taxa[j], {C})))',
				f'not split or exists((p, q), 0 <= p, p <= _i0, 0 <= q, q <= _i0, below({C}, taxa[p]) and below({C}, taxa[q])'
				f' and child_toward({C}, taxa[p]) != child_toward({C}, taxa[q]))',
				f'exists(j, {SEEN}, on_lineage({C}, taxa[j]))',
				types={'trunk': SeqOf(Taxon, ref=True), 'split': Bool},
				decreases='len(__it0) - _i0'),
			1: invariant(
				'0 <= _i1 <= len(__it1)',
				'forall(j, 0 <= j, j < _i1, not in_seq(__it1[j], trunk))',
				decreases='len(__it1) - _i1'),
		},
	)


def match_of(pe, t, d):
	"""THE taxon matched by a genome of taxon t at distance d (None if no threshold in its lineage covers d)"""
	t = _tx(t)
	m = midx(t, real_term(d))
	return SObj(TTaxon, z3.If(m <= depth(t), anc(t, m), NONE_T))


NS['match_of'] = match_of
NS.setdefault('__qtypes__', {})['t'] = TTaxon


class ZipGD(TypeSpec):
	"""zip_strict(ref_genomes, dists): pairs (genome, distance)"""

	def make(self, name, st, eng):
		from pyvc.interp import SZip
		gs = SeqOf(Genome).make('ref_genomes', st, eng)
		ds = SeqOf(Real).make('dists', st, eng)
		st.assume(gs.length == ds.length)
		st.env['__genomes'] = gs
		st.env['__dists'] = ds
		return SZip([gs, ds], gs.length)


def register_find_matches(reg):
	G, D = '__genomes', '__dists'
	MT = f'match_of({G}[{{i}}].taxon, {D}[{{i}}])'

	def clauses(n):
		return [
			f'forall(t, has_key(matches, t), not isnone(t) and len(matches[t]) >= 1)',
			f'forall((t, j), has_key(matches, t), 0 <= j, j < len(matches[t]), 0 <= matches[t][j] and matches[t][j] < {n} and ' + MT.format(i='matches[t][j]') + ' == t)',
			f'forall((t, p, q), has_key(matches, t), 0 <= p, p < q, q < len(matches[t]), matches[t][p] < matches[t][q])',
			f'forall(i, 0 <= i, i < {n}, isnone(' + MT.format(i='i') + ') or (has_key(matches, ' + MT.format(i='i') + ') and exists(j, 0 <= j and j < len(matches[' + MT.format(i='i') + ']) and matches[' + MT.format(i='i') + '][j] == i)))',
		]
	reg.contract(CL + 'find_matches',
		types={'itr': ZipGD()},
		axioms=['forest', 'midx'],
		requires=[f'all_have_taxon({G})'],
		ensures=[c.replace('matches', 'result') for c in clauses(f'len({G})')],
		loops={0: invariant(*(['0 <= _i0 <= len(__it0)'] + clauses('_i0')), types={'matches': DictOf(Taxon, SeqOf(Int))}, decreases='len(__it0) - _i0')},
	)
