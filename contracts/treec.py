"""Contracts for C17: src/gambit/cluster.py (hclust, linkage_to_bio_tree) and the tree command."""
import z3
from pyvc.contracts import *
from pyvc.values import *
from pyvc.ops import *
from pyvc.libspec import tree as T
from pyvc.interp import ExtObj
from pyvc.libspec.tree import SLink, TClade, CID, MKCL, LinkT
from .specns import NS

CL = 'gambit.cluster.'


def nrows(pe, link):
	return SInt(link.m)


def lnk_l(pe, link, i):
	return SInt(z3.Select(link.left, int_term(i)))


def lnk_r(pe, link, i):
	return SInt(z3.Select(link.right, int_term(i)))


def lnk_h(pe, link, i):
	return SReal(z3.Select(link.height, int_term(i)))


def hgt(pe, link, v):
	"""height of node v of the dendrogram: 0 for a leaf (v < m+1), the merge height of its row otherwise"""
	v = int_term(v)
	n = link.m + 1
	return SReal(z3.If(v < n, z3.RealVal(0), z3.Select(link.height, v - n)))


def _g(pe, name):
	return pe.st.ghosts[name]


def cbase(pe):
	return _g(pe, '_const_clade_base')


def nextcl(pe):
	return _g(pe, 'next_clade')


def cname(pe, i):
	return SStr(z3.Select(_g(pe, 'cl_name'), int_term(i)))


def cbl(pe, i):
	return SReal(z3.Select(_g(pe, 'cl_bl'), int_term(i)))


def chasbl(pe, i):
	return SBool(z3.Select(_g(pe, 'cl_hasbl'), int_term(i)))


def cleft(pe, i):
	return SInt(z3.Select(_g(pe, 'cl_left'), int_term(i)))


def cright(pe, i):
	return SInt(z3.Select(_g(pe, 'cl_right'), int_term(i)))


def cid(pe, c):
	return SInt(CID(c.term))


def is_clade(pe, c, i):
	"""c is THE clade object with identity i"""
	return SBool(c.term == MKCL(int_term(i)))


def wf_link(pe, link):
	"""every row merges two nodes that exist before it (leaves 0..m, row i creates node m+1+i)"""
	i = z3.Int(fresh_name('i'))
	n = link.m + 1
	L, Rr = z3.Select(link.left, i), z3.Select(link.right, i)
	return SBool(z3.ForAll([i], z3.Implies(z3.And(i >= 0, i < link.m), z3.And(L >= 0, L < n + i, Rr >= 0, Rr < n + i))))


def child_once(pe, link):
	"""no node is merged twice (each node is a child in at most one row, on one side)"""
	i, k = z3.Int(fresh_name('i')), z3.Int(fresh_name('k'))
	L = lambda t: z3.Select(link.left, t)
	Rr = lambda t: z3.Select(link.right, t)
	rng = z3.And(i >= 0, i < link.m, k >= 0, k < link.m)
	return SBool(z3.ForAll([i, k], z3.Implies(rng, z3.And(L(i) != Rr(k), z3.Implies(i != k, z3.And(L(i) != L(k), Rr(i) != Rr(k)))))))


NS.update(nrows=nrows, lnk_l=lnk_l, lnk_r=lnk_r, lnk_h=lnk_h, hgt=hgt, cbase=cbase, nextcl=nextcl, cname=cname, cbl=cbl, chasbl=chasbl,
          cleft=cleft, cright=cright, cid=cid, is_clade=is_clade, wf_link=wf_link, child_once=child_once)

N = '(nrows(link) + 1)'
LEAVES = f'forall(j, 0 <= j, j < {N}, cname(cbase() + j) == labels[j] and cleft(cbase() + j) == -1 and cright(cbase() + j) == -1)'
KIDS = lambda upto: (f'forall(i, 0 <= i, i < {upto}, cleft(cbase() + {N} + i) == cbase() + lnk_l(link, i) and cright(cbase() + {N} + i) == cbase() + lnk_r(link, i))')
BLS = lambda upto: (f'forall(i, 0 <= i, i < {upto}, chasbl(cbase() + lnk_l(link, i)) and cbl(cbase() + lnk_l(link, i)) == lnk_h(link, i) - hgt(link, lnk_l(link, i))'
                    f' and chasbl(cbase() + lnk_r(link, i)) and cbl(cbase() + lnk_r(link, i)) == lnk_h(link, i) - hgt(link, lnk_r(link, i)))')


def register(reg):
	reg.contract(CL + 'linkage_to_bio_tree',
		types={'link': LinkT(), 'labels': SeqOf(Str, ref=True)},
		axioms=['clade'],
		requires=['wf_link(link)', 'child_once(link)'],
		raises={'AssertionError': f'len(labels) != {N}'},
		ensures=[f'nextcl() == cbase() + 2 * nrows(link) + 1',
		         LEAVES, KIDS('nrows(link)'), BLS('nrows(link)'),
		         'is_clade(result.root, cbase() + 2 * nrows(link))', 'result.rooted == True'],
		loops={0: invariant(
			'0 <= _i0 <= nrows(link)', f'nleaves == {N}', f'len(clades) == {N} + _i0', f'nextcl() == cbase() + {N} + _i0',
			'forall(j, 0 <= j, j < len(clades), is_clade(clades[j], cbase() + j))',
			LEAVES, KIDS('_i0'), BLS('_i0'),
			decreases='nrows(link) - _i0')},
	)


# ---- hclust: condensed form + AVERAGE linkage of THAT matrix --------------------------------------------------------------
TSq = TObj('SquareMat')
TSq.field('ndim', TInt)
TCond = TObj('CondensedMat')
TLinkV = TObj('LinkageV')
COND = z3.Function('squareform_of', TSq.sort, TCond.sort)
LINK = z3.Function('linkage_of', TCond.sort, STR, TLinkV.sort)      # (condensed distances, method)


def upgma_of(pe, dmat):
	"""THE average-linkage (UPGMA) linkage matrix of the pairwise distance matrix dmat"""
	return SObj(TLinkV, LINK(COND(dmat.term), z3.StringVal('average')))


NS['upgma_of'] = upgma_of


def linksrc(pe, l):
	"""the signatures a linkage was computed from"""
	from .distcmd import TSigsP
	LSRC = z3.Function('linksrc', TLinkV.sort, TSigsP.sort)
	return SObj(TSigsP, LSRC(l.term))


NS['linksrc'] = linksrc


def install_hclust_lib(LIB):
	from pyvc.libspec.core import lib

	def _squareform(eng, st, args, kwargs, node):
		if len(args) != 1 or kwargs or not (isinstance(args[0], SObj) and args[0].T is TSq):
			raise Unsupported('squareform(...) other than squareform(<square matrix>)')
		yield st, SObj(TCond, COND(args[0].term))

	def _linkage(eng, st, args, kwargs, node):
		if len(args) != 1 or set(kwargs) - {'method'} or not (isinstance(args[0], SObj) and args[0].T is TCond):
			raise Unsupported('linkage(...) other than linkage(<condensed matrix>, method=...)')
		yield st, SObj(TLinkV, LINK(args[0].term, to_term(kwargs.get('method', 'single'))))
	LIB['scipy.spatial.distance.squareform'] = _squareform
	LIB['scipy.cluster.hierarchy.linkage'] = _linkage


def register_hclust(reg):
	reg.contract(CL + 'hclust', types={'dmat': Obj('SquareMat')},
		raises={'AssertionError': 'dmat.ndim != 2'},
		ensures=['result == upgma_of(dmat)'], returns=Obj('LinkageV'))


# ---- tree command: the printed tree is built from the UPGMA linkage of the pairwise distances of the very signatures whose
# ---- labels are handed to the tree builder, position by position -----------------------------------------------------------
def register_cmd(reg):
	from . import distcmd as D
	from .distcmd import TSigsP, TIds, TFilesP, TDM, rowsrc
	from . import cli as C14
	CC = 'gambit.cli.common.'
	SigsP = Obj('SigsP')
	reg.contract('gambit.sigs.base.load_signatures', returns=SigsP, trusted=True)
	reg.contract(CC + 'check_params_group', may_raise=['ClickException'], trusted=True)
	reg.contract(CC + 'warn_duplicate_file_ids', trusted=True)
	reg.contract(CC + 'get_sequence_files', returns=lambda eng, st, env: (Obj('IdsP').make('ids', st, eng), Obj('FilesP').make('files', st, eng)),
		ensures=['result[0] == labels_of_files(result[1])'], note='C08: ids and files are derived together, position by position')
	reg.contract('gambit.seq.SequenceFile.from_paths', returns=lambda eng, st, env: env['paths'], note='one SequenceFile per path, in order')
	reg.contract('gambit.sigs.calc.calc_file_signatures', returns=SigsP, may_raise=['Exception'],
		ensures=['result == sigs_of_files(kspec, files)', 'result.kmerspec == kspec'], note='C13: one signature per file, in file order')
	reg.contract('gambit.metric.jaccarddist_pairwise', returns=Obj('DMatP'),
		ensures=['rowsrc(result) == sigs', 'colsrc(result) == sigs', 'not is_cross(result)'], note='C05: cell (i, j) = D(sigs[i], sigs[j])')
	reg.contract(CC + 'kspec_from_params', returns=C14.OptKS, may_raise=['ClickException'])
	reg.contract(CL + 'hclust', returns=Obj('LinkageV'), ensures=['linksrc(result) == rowsrc(dmat)'],
		note='verified separately: the UPGMA linkage of THAT matrix')
	reg.contract(CL + 'linkage_to_bio_tree',
		# ghost precondition = the property: leaf j of the dendrogram is named after signature j of the collection it was computed from
		requires=['labels == linksrc(link).ids'],
		returns=Const(ExtObj('tree')))
	reg.contract('gambit.cli.tree.tree_cmd',
		types={'ctx': Const(ExtObj('ctx')), 'listfile': Const(None), 'ldir': Str, 'files_arg': SeqOf(Str), 'k': Const(None), 'prefix': Const(None),
		       'progress': Bool, 'cores': Const(None)},
		axioms=['file_labels'],
		may_raise=['ClickException', 'Exception'],
		ensures=['was_written()'])
