"""Contracts for src/gambit/_cython/kmers.pyx (C07, used by C01/C06)."""
from pyvc.contracts import *

K = 'gambit._cython.kmers.'


def register(reg):
	# ---- encoder -------------------------------------------------------------------------------
	reg.contract(K + 'c_kmer_to_index',
		requires=['len(kmer) <= 32'],
		ensures=[
			'implies(allnucp(kmer, len(kmer)), result == encp(kmer, len(kmer)) and exc[0] == old(exc[0]))',
			'implies(allnucp(kmer, len(kmer)), 0 <= result < pow4(len(kmer)))',
			'implies(not allnucp(kmer, len(kmer)), result == 0 and exc[0])',
		],
		writes=['exc'],
		loops={0: invariant(
			'0 <= i <= k',
			'idx == encp(kmer, i)',
			'0 <= idx < pow4(i)',
			'allnucp(kmer, i)',
			'exc[0] == old(exc[0])',
			counter='i', decreases='k - i')},
	)
	reg.contract(K + 'kmer_to_index',
		raises={'ValueError': 'len(kmer) > 32 or not allnucp(kmer, len(kmer))'},
		ensures=['result == encp(kmer, len(kmer))', '0 <= result < pow4(len(kmer))'],
		returns=Int,
	)
	# ---- reverse-complement encoder ---------------------------------------------------------------
	reg.contract(K + 'c_kmer_to_index_rc',
		requires=['len(kmer) <= 32'],
		ensures=[
			'implies(allnucp(kmer, len(kmer)), result == encrcp(kmer, len(kmer)) and exc[0] == old(exc[0]))',
			'implies(allnucp(kmer, len(kmer)), 0 <= result < pow4(len(kmer)))',
			'implies(not allnucp(kmer, len(kmer)), result == 0 and exc[0])',
		],
		writes=['exc'],
		loops={0: invariant(
			'0 <= i <= k',
			'idx == encrcp(kmer, i)',
			'0 <= idx < pow4(i)',
			'forall(j, k - i <= j, j < k, isnuc(kmer[j]))',
			'exc[0] == old(exc[0])',
			counter='i', decreases='k - i')},
	)
	reg.contract(K + 'kmer_to_index_rc',
		raises={'ValueError': 'len(kmer) > 32 or not allnucp(kmer, len(kmer))'},
		ensures=['result == encrcp(kmer, len(kmer))', '0 <= result < pow4(len(kmer))'],
		returns=Int,
	)
	# ---- decoder -----------------------------------------------------------------------------------
	reg.contract(K + 'c_index_to_kmer',
		requires=['len(out) <= 32'],
		ensures=[
			'forall(j, 0 <= j, j < len(out), isupnuc(out[j]) and dig(out[j]) == digit(old(index), len(out) - 1 - j))',
		],
		writes=['out'],
		loops={0: invariant(
			'0 <= i <= k',
			'k == len(out)',
			'index == digit_shift(old(index), i)',
			'forall(j, k - i <= j, j < k, isupnuc(out[j]) and dig(out[j]) == digit(old(index), k - 1 - j))',
			counter='i', decreases='k - i')},
	)
	reg.contract(K + 'index_to_kmer',
		types={'index': Int},
		raises={'ValueError': 'k < 0', 'OverflowError': 'k >= 0 and (index < 0 or index >= 2**64)'},
		requires=['k <= 32'],
		ensures=[
			'len(result) == k',
			'forall(j, 0 <= j, j < k, isupnuc(result[j]) and dig(result[j]) == digit(index, k - 1 - j))',
		],
		returns=Arr('bytes'),
	)
	# ---- reverse complement ---------------------------------------------------------------------------
	reg.contract(K + 'c_revcomp',
		requires=['len(out) == len(seq)', 'len(seq) < 2**31'],
		ensures=['is_rc(out, seq)'],
		writes=['out'],
		loops={0: invariant(
			'0 <= i <= n',
			'n == len(seq)',
			'forall(j, 0 <= j, j < i, out[n - 1 - j] == comp(seq[j]))',
			counter='i', decreases='n - i')},
	)
	reg.contract(K + 'revcomp',
		requires=['len(seq) < 2**31'],
		ensures=['is_rc(result, seq)'],
		returns=Arr('bytes'),
	)
