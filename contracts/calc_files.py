"""Contracts for calc_file_signatures (C13) over the assumed concurrent.futures model."""
from pyvc.contracts import *
from pyvc.values import *
from pyvc.libspec.conc import TFile, TSig, TKSpecV, filesig, fileerr
from .specns import NS
import z3

CA = 'gambit.sigs.calc.'
File = Obj('SequenceFile')
Sig = Obj('Signature')
OptSig = Obj('Signature', nonnull=False)
KSpecV = Obj('KmerSpecV')


def sp_filesig(pe, ks, f):
	"""THE result of calc_file_signature(kspec, file) (a function of the k-mer spec and the file)"""
	return SObj(TSig, filesig(ks.term, f.term))


def sp_fileerr(pe, ks, f):
	"""reading or parsing that file raises"""
	return SBool(fileerr(ks.term, f.term))


def sig_defined():
	"""a computed signature is an object, never None"""
	k = z3.Const('k', TKSpecV.sort)
	f = z3.Const('f', TFile.sort)
	return z3.ForAll([k, f], filesig(k, f) != TSig.none, patterns=[filesig(k, f)])


from pyvc import spec as S
S.AXIOMS['sig_defined'] = sig_defined
NS['filesig'] = sp_filesig
NS['fileerr'] = sp_fileerr


def register(reg):
	reg.contract(CA + 'calc_file_signature',
		types={'kspec': KSpecV, 'seqfile': File},
		raises={'Exception': 'fileerr(kspec, seqfile)'},
		ensures=['result == filesig(kspec, seqfile)'],
		returns=Sig,
		note='definitional in C13: filesig IS the single-file result; its content is C01/C06',
	)
	reg.contract('gambit.sigs.base.SignatureList.__init__',
		types={'self': Rec('gambit.sigs.base.SignatureList')},
		self_fields={'_list': SeqOf(OptSig, ref=True), 'kmerspec': Obj('KmerSpecV', nonnull=False)},
		ensures=['len(self._list) == len(signatures)', 'forall(j, 0 <= j, j < len(signatures), self._list[j] == signatures[j])',
		         'self.kmerspec == kmerspec'],
		note='abstract contract used by C13 (list contents and kmerspec are stored); the dtype bookkeeping is C20',
	)
	reg.contract(CA + 'calc_file_signatures',
		types={'kspec': KSpecV, 'files': SeqOf(File), 'progress': Const(None), 'max_workers': Const(None)},
		axioms=['sig_defined'],
		hints={'none_list_type': TSig},
		raises={'ValueError': 'isnone(executor) and concurrency not in (None, "threads", "processes")',
		        'Exception': '(not (isnone(executor) and concurrency not in (None, "threads", "processes"))) and exists(i, 0 <= i, i < len(files), fileerr(kspec, files[i]))'},
		ensures=['len(result._list) == len(files)',
		         'forall(i, 0 <= i, i < len(files), result._list[i] == filesig(kspec, files[i]))',
		         'result.kmerspec == kspec'],
		loops={
			# sequential branch
			0: invariant('0 <= _i0 <= len(__it0)', 'len(sigs) == _i0',
			             'forall(j, 0 <= j, j < _i0, sigs[j] == filesig(kspec, files[j]) and not fileerr(kspec, files[j]))',
			             types={'sigs': SeqOf(OptSig, ref=True)}, decreases='len(__it0) - _i0'),
			# submission loop: the j-th future stands for the call on files[j]; the map future -> index is injective
			1: invariant('0 <= _i1 <= len(files)', 'len(sigs) == len(files)', 'next_future_is(_i1)',
			             'forall(f, has_key(future_to_index, f) == (fut(0) <= f and f < fut(_i1)))',
			             'forall(j, 0 <= j, j < _i1, future_to_index[fut(j)] == j and fut_file_is(fut(j), files[j]) and fut_kspec_is(fut(j), kspec))',
			             'forall(j, 0 <= j, j < len(files), isnone(sigs[j]))',
			             types={'future_to_index': DictOf(Int, Int)}, decreases='len(files) - _i1'),
			# completion loop over an ARBITRARY permutation of the futures
			2: invariant('0 <= _i2 <= len(__it2)', 'len(sigs) == len(files)',
			             'forall(f, has_key(future_to_index, f) == (fut(0) <= f and f < fut(len(files))))',
			             'forall(j, 0 <= j, j < len(files), future_to_index[fut(j)] == j and fut_file_is(fut(j), files[j]) and fut_kspec_is(fut(j), kspec))',
			             'forall(m, 0 <= m, m < _i2, sigs[future_to_index[__it2[m]]] == filesig(kspec, files[future_to_index[__it2[m]]])'
			             ' and not fileerr(kspec, files[future_to_index[__it2[m]]]))',
			             'forall(j, 0 <= j, j < len(files), isnone(sigs[j]) or sigs[j] == filesig(kspec, files[j]))',
			             decreases='len(__it2) - _i2'),
		},
	)
