"""Contracts for src/gambit/seq.py and the thin wrappers in src/gambit/kmers.py (C07, C01)."""
from pyvc.contracts import *

# the four DNASeq input types, as instances of the same contract
SEQ_INSTANCES = {
	'bytes': Arr('bytes'),
	'bytearray': Arr('bytearray', ref=True),
	'str': Arr('str', lo=0, hi=0x10FFFF),
	'Seq': Arr('Seq', lo=0, hi=255),
}


def register(reg):
	reg.contract('gambit.seq.seq_to_bytes',
		raises={'UnicodeEncodeError': 'iskind(seq, "str") and exists(j, 0 <= j, j < len(seq), seq[j] > 127)'},
		ensures=['same_bytes(result, seq)', 'isbyteslike(result)'],
		returns=Arr('bytes'),
	)
	reg.contract('gambit.seq.validate_dna_seq_bytes',
		raises={'ValueError': 'exists(j, 0 <= j, j < len(seq), not isupnuc(seq[j]))'},
		loops={0: invariant('0 <= _i0 <= len(seq)', 'forall(j, 0 <= j, j < _i0, isupnuc(seq[j]))', decreases='len(seq) - _i0')},
	)
	reg.contract('gambit.kmers.kmer_to_index',
		raises={'ValueError': 'len(kmer) > 32 or not allnucp(kmer, len(kmer))',
		        'UnicodeEncodeError': 'iskind(kmer, "str") and exists(j, 0 <= j, j < len(kmer), kmer[j] > 127)'},
		ensures=['result == encp(kmer, len(kmer))', '0 <= result < pow4(len(kmer))'],
		returns=Int,
	)
	reg.contract('gambit.kmers.kmer_to_index_rc',
		raises={'ValueError': 'len(kmer) > 32 or not allnucp(kmer, len(kmer))',
		        'UnicodeEncodeError': 'iskind(kmer, "str") and exists(j, 0 <= j, j < len(kmer), kmer[j] > 127)'},
		ensures=['result == encrcp(kmer, len(kmer))', '0 <= result < pow4(len(kmer))'],
		returns=Int,
	)
