"""C16: provenance contracts for `gambit dist` - the labels written next to a row/column are the labels of the signatures
the cells were computed from - and the CSV writer contract of dump_dmat_csv."""
import z3
from pyvc.contracts import *
from pyvc.values import *
from pyvc.ops import *
from pyvc.interp import ExtObj
from pyvc.libspec.conc import TKSpecV
from .specns import NS
from .calc_files import KSpecV
from . import cli as C14

CC = 'gambit.cli.common.'
TSigsP = TObj('SigsP')          # a signature collection (opaque)
TIds = TObj('IdsP')             # a sequence of labels (opaque)
TFilesP = TObj('FilesP')        # a list of sequence files (opaque)
TDM = TObj('DMatP')
TSigsP.field('ids', TIds).field('kmerspec', TKSpecV)
labels_of_files = z3.Function('labels_of_files', TFilesP.sort, TIds.sort)    # get_sequence_files: ids derived from the same arguments as files
sigs_of_files = z3.Function('sigs_of_files', TKSpecV.sort, TFilesP.sort, TSigsP.sort)   # calc_file_signatures, in file order (C13)
rowsrc = z3.Function('rowsrc', TDM.sort, TSigsP.sort)
colsrc = z3.Function('colsrc', TDM.sort, TSigsP.sort)
is_cross = z3.Function('is_cross', TDM.sort, B)      # full query x reference matrix (C05 jaccarddist_matrix) vs. pairwise


def labels_axiom():
	"""signatures computed from files carry, position by position, the labels derived from those files"""
	k = z3.Const('k', TKSpecV.sort)
	f = z3.Const('f', TFilesP.sort)
	ids = TSigsP.fields['ids'][0]
	return z3.ForAll([k, f], ids(sigs_of_files(k, f)) == labels_of_files(f), patterns=[sigs_of_files(k, f)])


from pyvc import spec as S
S.AXIOMS['file_labels'] = labels_axiom


def sp_rowsrc(pe, m):
	return SObj(TSigsP, rowsrc(m.term))


def sp_colsrc(pe, m):
	return SObj(TSigsP, colsrc(m.term))


def sp_labels_of_files(pe, f):
	return SObj(TIds, labels_of_files(f.term))


def sp_sigs_of_files(pe, k, f):
	return SObj(TSigsP, sigs_of_files(k.term, f.term))


def sp_is_cross(pe, m):
	return SBool(is_cross(m.term))


for _n, _f in (('rowsrc', sp_rowsrc), ('colsrc', sp_colsrc), ('labels_of_files', sp_labels_of_files), ('sigs_of_files', sp_sigs_of_files), ('is_cross', sp_is_cross)):
	NS[_n] = _f

SigsP = Obj('SigsP')


class Ctx16(TypeSpec):
	def make(self, name, st, eng):
		obj = Rec(CC + 'CLIContext', signatures=SigsP).make(name + '.obj', st, eng)
		return Rec('click.Context', obj=Const(obj)).make(name, st, eng)


def register(reg):
	reg.contract('gambit.sigs.base.load_signatures', returns=SigsP, trusted=True)
	reg.contract(CC + 'check_params_group', may_raise=['ClickException'], trusted=True)
	reg.contract(CC + 'warn_duplicate_file_ids', trusted=True)
	reg.contract(CC + 'get_sequence_files', returns=lambda eng, st, env: (Obj('IdsP').make('ids', st, eng), Obj('FilesP').make('files', st, eng)),
		ensures=['result[0] == labels_of_files(result[1])'], note='C08: ids and files are derived together, position by position')
	reg.contract('gambit.seq.SequenceFile.from_paths', returns=lambda eng, st, env: env['paths'], note='one SequenceFile per path, in order')
	reg.contract('gambit.sigs.calc.calc_file_signatures', returns=SigsP, may_raise=['Exception'],
		ensures=['result == sigs_of_files(kspec, files)', 'result.kmerspec == kspec'], note='C13: one signature per file, in file order')
	reg.contract('gambit.metric.jaccarddist_matrix', returns=Obj('DMatP'),
		ensures=['rowsrc(result) == queries', 'colsrc(result) == refs', 'is_cross(result)'], note='C05: cell (i, j) = D(queries[i], refs[j])')
	reg.contract('gambit.metric.jaccarddist_pairwise', returns=Obj('DMatP'),
		ensures=['rowsrc(result) == sigs', 'colsrc(result) == sigs', 'not is_cross(result)'], note='C05: symmetric, zero diagonal, cell (i, j) = D(sigs[i], sigs[j])')
	reg.contract('gambit.cluster.dump_dmat_csv',
		# ghost precondition = the property: the labels written next to the cells are the labels of the signatures the cells came from
		requires=['row_ids == rowsrc(dmat).ids', 'col_ids == colsrc(dmat).ids'],
		hints={'sets_ghost': {'written': True}})
	reg.contract(CC + 'CLIContext.require_signatures', may_raise=['ClickException'], trusted=True)
	reg.contract('gambit.cli.dist.fmt_kspec', returns=Const('<kspec>'))
	reg.contract(CC + 'kspec_from_params', returns=C14.OptKS, may_raise=['ClickException'])
	reg.contract('gambit.cli.dist.dist_cmd',
		types={'ctx': Ctx16(), 'output': Str, 'q': SeqOf(Str), 'ql': Const(None), 'qdir': Str, 'r': SeqOf(Str), 'rl': Const(None), 'rdir': Str,
		       'square': Bool, 'use_db': Bool, 'progress': Bool, 'cores': Const(None), 'dump_params': Const(False), 'k': Const(None), 'prefix': Const(None)},
		axioms=['file_labels'],
		# the option group check guarantees exactly one reference source (r / rl / rs / use_db / square)
		requires=['not (square and (use_db or not isnone(rs)))'],
		may_raise=['ClickException', 'Exception'],
		ensures=['was_written()'],
	)


def csv_rows(pe):
	return pe.st.ghosts['csv_rows']


def fmt4(pe, x):
	from pyvc.libspec.cli import FMT
	return SStr(FMT(x.term))


NS['csv_rows'] = csv_rows
NS['fmt4'] = fmt4


def register_csv(reg):
	def rows(upto):
		return [f'forall(i, 0 <= i, i < {upto}, len(csv_rows[i + 1]) == 1 + len(dmat[i]))', f'forall(i, 0 <= i, i < {upto}, csv_rows[i + 1][0] == row_ids[i])',
		        f'forall((i, j), 0 <= i, i < {upto}, 0 <= j, j < len(dmat[i]), csv_rows[i + 1][1 + j] == fmt4(dmat[i][j]))']
	HEADER = ['len(csv_rows[0]) == 1 + len(col_ids) and csv_rows[0][0] == ""', 'forall(j, 0 <= j, j < len(col_ids), csv_rows[0][1 + j] == col_ids[j])']
	reg.contract('gambit.cluster.dump_dmat_csv',
		types={'file': Str, 'dmat': SeqOf(SeqOf(Float32)), 'row_ids': SeqOf(Str), 'col_ids': SeqOf(Str), 'corner': Const(None), 'fmt': Const('0.4f')},
		raises={'ValueError': 'len(row_ids) != len(dmat)'},
		ensures=['len(csv_rows) == 1 + len(row_ids)'] + HEADER + rows('len(row_ids)'),
		loops={0: invariant(*(['0 <= _i0 <= len(__it0)', 'len(csv_rows) == 1 + _i0'] + HEADER + rows('_i0')), decreases='len(__it0) - _i0')},
	)
