"""Contracts for the label / input-file helpers in src/gambit/cli/common.py (C08, C16) in the SMT theory of strings."""
import z3
from pyvc.contracts import *
from pyvc.values import *
from pyvc.ops import *
from .specns import NS

CC = 'gambit.cli.common.'
FASTA_EXT = ('.fasta', '.fna', '.ffn', '.faa', '.frn', '.fa')


def concat(pe, *parts):
	return SStr(z3.Concat(*[to_term(p) for p in parts]))


def has_slash(pe, s):
	return SBool(z3.Contains(to_term(s), z3.StringVal('/')))


def ends_with_any(pe, s, exts):
	return SBool(z3.Or(*[z3.SuffixOf(z3.StringVal(e), to_term(s)) for e in exts]))


def fasta_exts(pe):
	return FASTA_EXT


FILEID = z3.Function('fileid', STR, STR)    # THE label get_file_id derives from a path string


def fileid(pe, s):
	return SStr(FILEID(to_term(s)))


NS['fileid'] = fileid


NS['concat'] = concat
NS['has_slash'] = has_slash
NS['ends_with_any'] = ends_with_any
NS['fasta_exts'] = fasta_exts


def register(reg):
	label_clauses = []
	for fe in FASTA_EXT + ('',):
		for ge in ('', '.gz'):
			cond = [f'path == concat(d, stem, {fe!r}, {ge!r})', 'not has_slash(stem)', 'isnone_or_dir(d)']
			if ge == '':
				cond.append(f'not concat(stem, {fe!r}).term_endswith_gz()' if False else f'not ends_with_any(concat(stem, {fe!r}), (".gz",))')
			if fe == '':
				cond.append('not ends_with_any(stem, fasta_exts())')
			label_clauses.append('implies(' + ' and '.join(cond) + ', result == stem)')
	reg.contract(CC + 'strip_extensions', inline=True)
	reg.contract(CC + 'strip_seq_file_ext', inline=True)
	reg.contract(CC + 'get_file_id',
		types={'path': Str, 'strip_dir': Const(True), 'strip_ext': Const(True)},
		ghost={'d': Str, 'stem': Str},
		ensures=label_clauses,
		defines=['result == fileid(path)'],   # fileid(s) IS the value of this (pure, deterministic) function
		returns=Str,
	)



TPath = TObj('PathV')
TPath.field('pathstr', TStr)
from pyvc.libspec.conc import TFile
TFile.field('path', TPath).field('format', TStr).field('compression', TOpt(TStr))
PNORM = z3.Function('pnorm', STR, STR)         # str(Path(s)): pathlib's normalisation of a path string
PJOIN = z3.Function('pjoin', STR, STR, STR)    # str(Path(d) / s)


def pnorm(pe, s):
	return SStr(PNORM(to_term(s)))


def pjoin(pe, d, s):
	return SStr(PJOIN(to_term(d), to_term(s)))


NS['pnorm'] = pnorm
NS['pjoin'] = pjoin


TListFile = TObj('ListFile')
_SeqStr = TSeq(TStr)
LINES = z3.Function('lines_of', TListFile.sort, _SeqStr.sort)   # the stripped non-empty lines of a list file, in order


def lines_of(pe, f):
	return _SeqStr.wrap(LINES(f.term))


NS['lines_of'] = lines_of


from pyvc.modules import ClassRef as _CR
_SF = _CR('gambit.seq.SequenceFile')


def register_files(reg):
	reg.contract('gambit.seq.SequenceFile.from_paths', types={'cls': Const(_SF), 'paths': SeqOf(TSpec(TPath)), 'format': Str, 'compression': Opt(Str)},
		ensures=['len(result) == len(paths)', 'forall(i, 0 <= i, i < len(paths), result[i].path == paths[i] and result[i].format == format and result[i].compression == compression)'],
		returns=SeqOf(Obj('SequenceFile'), ref=True))
	reg.contract('gambit.util.io.read_lines', yields=TStr, trusted=True,
		ensures=['len(Y) == len(lines_of(file_or_path))', 'forall(j, 0 <= j, j < len(Y), Y[j] == lines_of(file_or_path)[j])'],
		note='stripped, non-empty lines of the list file in file order (text-file iteration is the library\'s)')
	FILE_OK = 'result[1][i].format == "fasta" and result[1][i].compression == "auto"'
	reg.contract(CC + 'get_sequence_files',
		types={'strip_dir': Const(True), 'strip_ext': Const(True)},
		requires=['isnone(explicit) or len(explicit) > 0', 'not (isnone(explicit) and isnone(listfile))'],
		ensures=['implies(not isnone(explicit), len(result[0]) == len(explicit) and len(result[1]) == len(explicit))',
		         'implies(not isnone(explicit), forall(i, 0 <= i, i < len(explicit), result[0][i] == fileid(pnorm(explicit[i]))'
		         ' and result[1][i].path.pathstr == pnorm(explicit[i]) and ' + FILE_OK + '))',
		         'implies(isnone(explicit), len(result[0]) == len(lines_of(listfile)) and len(result[1]) == len(lines_of(listfile)))',
		         'implies(isnone(explicit), forall(i, 0 <= i, i < len(lines_of(listfile)), result[0][i] == fileid(lines_of(listfile)[i])'
		         ' and result[1][i].path.pathstr == pjoin(pnorm(listfile_dir), lines_of(listfile)[i]) and ' + FILE_OK + '))'],
	)
