"""Contracts for the label / input-file helpers in src/gambit/cli/common.py (C08, C16) in the SMT theory of strings."""
import z3
from pyvc.contracts import *
from pyvc.values import *
from pyvc.ops import *
from .specns import NS

CC = 'gambit.cli.common.'
FASTA_EXT = ('.fasta', '.fna', '.ffn', '.faa', '.frn', '.fa')


def concat(pe, *parts):
	return SStr(z3.Concat(*[to_term(p) for p in parts]))


def has_slash(pe, s):
	return SBool(z3.Contains(to_term(s), z3.StringVal('/')))


def ends_with_any(pe, s, exts):
	return SBool(z3.Or(*[z3.SuffixOf(z3.StringVal(e), to_term(s)) for e in exts]))


def fasta_exts(pe):
	return FASTA_EXT


NS['concat'] = concat
NS['has_slash'] = has_slash
NS['ends_with_any'] = ends_with_any
NS['fasta_exts'] = fasta_exts


def register(reg):
	label_clauses = []
	for fe in FASTA_EXT + ('',):
		for ge in ('', '.gz'):
			cond = [f'path == concat(d, stem, {fe!r}, {ge!r})', 'not has_slash(stem)', 'isnone_or_dir(d)']
			if ge == '':
				cond.append(f'not concat(stem, {fe!r}).term_endswith_gz()' if False else f'not ends_with_any(concat(stem, {fe!r}), (".gz",))')
			if fe == '':
				cond.append('not ends_with_any(stem, fasta_exts())')
			label_clauses.append('implies(' + ' and '.join(cond) + ', result == stem)')
	reg.contract(CC + 'strip_extensions', inline=True)
	reg.contract(CC + 'strip_seq_file_ext', inline=True)
	reg.contract(CC + 'get_file_id',
		types={'path': Str, 'strip_dir': Const(True), 'strip_ext': Const(True)},
		ghost={'d': Str, 'stem': Str},
		ensures=label_clauses,
		returns=Str,
	)
