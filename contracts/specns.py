"""Specification vocabulary available inside contract clauses (names -> callables on values)."""
import z3
from pyvc.values import *
from pyvc.ops import *
from pyvc import spec as S


def _arr(v):
	if not isinstance(v, SArr):
		raise Unsupported(f'expected an integer array, got {v!r}')
	return v


def encp(pe, w, n):
	"""base-4 value of the first n bytes of w"""
	w = _arr(w)
	return SInt(S.enc(w.arr, w.off, int_term(n)))


def encrcp(pe, w, n):
	"""base-4 value of the first n bases of the reverse complement of w"""
	w = _arr(w)
	return SInt(S.encrc(w.arr, w.off, w.length, int_term(n)))


def allnucp(pe, w, n):
	w = _arr(w)
	return SBool(S.allnuc(w.arr, w.off, int_term(n)))


def pow4(pe, n):
	if isinstance(n, int):
		return 4 ** n
	return SInt(S.pow4(int_term(n)))


def digit(pe, x, m):
	"""m-th base-4 digit of x (m = 0 least significant), 0 <= m <= 32"""
	return SInt((int_term(x) / S.pow4(int_term(m))) % 4)


def up(pe, x):
	return SInt(S.up(int_term(x)))


def dig(pe, x):
	return SInt(S.dig(int_term(x)))


def comp(pe, x):
	return SInt(S.comp(int_term(x)))


def isnuc(pe, x):
	return SBool(S.isnuc(int_term(x)))


def isupnuc(pe, x):
	x = int_term(x)
	return SBool(z3.Or(x == 65, x == 67, x == 71, x == 84))


def same_bytes(pe, a, b):
	a, b = _arr(a), _arr(b)
	j = z3.Int(fresh_name('j'))
	return SBool(z3.And(a.length == b.length, z3.ForAll([j], z3.Implies(z3.And(j >= 0, j < a.length), a.at(j) == b.at(j)))))


def is_rc(pe, out, w):
	"""out is the reverse complement of w (byte-wise complement keeping case, mirrored)"""
	out, w = _arr(out), _arr(w)
	j = z3.Int(fresh_name('j'))
	return SBool(z3.And(out.length == w.length, z3.ForAll([j], z3.Implies(z3.And(j >= 0, j < w.length), out.at(w.length - 1 - j) == S.comp(w.at(j))))))


NS = {k: v for k, v in globals().items() if callable(v) and not k.startswith('_') and k not in ('SInt', 'SBool')}


def digit_shift(pe, x, m):
	return SInt(int_term(x) / S.pow4(int_term(m)))


NS['digit_shift'] = digit_shift


def iskind(pe, v, kind):
	return isinstance(v, SArr) and v.kind == kind


def isbyteslike(pe, v):
	return isinstance(v, SArr) and v.kind in ('bytes', 'bytearray')


NS['iskind'] = iskind
NS['isbyteslike'] = isbyteslike


# ---- sorted k-mer index sets (C02, C05, C15) ----------------------------------------------------------

def inter(pe, a, b, i):
	"""number of positions i' < i of a whose element occurs in b"""
	a, b = _arr(a), _arr(b)
	return SInt(S.inter(a.arr, a.off, b.arr, b.off, b.length, int_term(i)))


def sorted_unique(pe, a):
	a = _arr(a)
	return SBool(S.strictly_increasing(a.arr, a.off, a.length))


def nonneg(pe, a):
	a = _arr(a)
	return SBool(S.elems_in_range(a.arr, a.off, a.length, 0, 2 ** 64))


def jdist(pe, s, u):
	return SF32(S.jdist(int_term(s), int_term(u)))


def D(pe, a, b):
	"""THE distance of two sorted index arrays: |A xor B| / |A or B| as computed in binary32 (0 for two empty sets)"""
	a, b = _arr(a), _arr(b)
	it = S.inter(a.arr, a.off, b.arr, b.off, b.length, a.length)
	return SF32(S.jdist(a.length + b.length - 2 * it, a.length + b.length - it))


def one_minus(pe, d):
	return SF32(fsub(i2f(z3.IntVal(1)), d.term))


def tail_lemma(pe, a, b, i, n):
	"""instance of lemma C02/lemma/tail: no element of a[i..n) occurs in b  ==>  inter(n) == inter(i)"""
	a, b = _arr(a), _arr(b)
	i, n = int_term(i), int_term(n)
	p = z3.Int(fresh_name('p'))
	none = z3.ForAll([p], z3.Implies(z3.And(i <= p, p < n), z3.Not(S.member(b.arr, b.off, b.length, z3.Select(a.arr, a.off + p)))))
	return SBool(z3.Implies(z3.And(0 <= i, i <= n, none),
		S.inter(a.arr, a.off, b.arr, b.off, b.length, n) == S.inter(a.arr, a.off, b.arr, b.off, b.length, i)))


def same_values(pe, a, b):
	return same_bytes(pe, a, b)


for _n in ('inter', 'sorted_unique', 'nonneg', 'jdist', 'D', 'one_minus', 'tail_lemma', 'same_values'):
	NS[_n] = globals()[_n]


def _elem(v):
	v = _arr(v)
	return v.elem


def dtype_ok(pe, a):
	"""dtype is a 16/32/64-bit signed or unsigned integer"""
	e = _elem(a)
	return e is not None and e.kind == 'int' and e.bits in (16, 32, 64)


def is_unsigned_coords(pe, a):
	e = _elem(a)
	return e is not None and e.kind == 'int' and e.bits in (16, 32, 64) and not e.signed


def nonneg(pe, a):
	"""all entries are >= 0 (stated for every cell of the backing array: cells outside [0, len) are ghost)"""
	a = _arr(a)
	p = z3.Int(fresh_name('p'))
	return SBool(z3.ForAll([p], z3.Select(a.arr, p) >= 0))


for _n in ('dtype_ok', 'is_unsigned_coords', 'nonneg'):
	NS[_n] = globals()[_n]
