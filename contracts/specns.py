"""Specification vocabulary available inside contract clauses (names -> callables on values)."""
import z3
from pyvc.values import *
from pyvc.ops import *
from pyvc import spec as S


def _arr(v):
	if not isinstance(v, SArr):
		raise Unsupported(f'expected an integer array, got {v!r}')
	return v


def encp(pe, w, n):
	"""base-4 value of the first n bytes of w"""
	w = _arr(w)
	return SInt(S.enc(w.arr, w.off, int_term(n)))


def encrcp(pe, w, n):
	"""base-4 value of the first n bases of the reverse complement of w"""
	w = _arr(w)
	return SInt(S.encrc(w.arr, w.off, w.length, int_term(n)))


def allnucp(pe, w, n):
	w = _arr(w)
	return SBool(S.allnuc(w.arr, w.off, int_term(n)))


def pow4(pe, n):
	if isinstance(n, int):
		return 4 ** n
	return SInt(S.pow4(int_term(n)))


def digit(pe, x, m):
	"""m-th base-4 digit of x (m = 0 least significant), 0 <= m <= 32"""
	return SInt((int_term(x) / S.pow4(int_term(m))) % 4)


def up(pe, x):
	return SInt(S.up(int_term(x)))


def dig(pe, x):
	return SInt(S.dig(int_term(x)))


def comp(pe, x):
	return SInt(S.comp(int_term(x)))


def isnuc(pe, x):
	return SBool(S.isnuc(int_term(x)))


def isupnuc(pe, x):
	x = int_term(x)
	return SBool(z3.Or(x == 65, x == 67, x == 71, x == 84))


def same_bytes(pe, a, b):
	a, b = _arr(a), _arr(b)
	j = z3.Int(fresh_name('j'))
	return SBool(z3.And(a.length == b.length, z3.ForAll([j], z3.Implies(z3.And(j >= 0, j < a.length), a.at(j) == b.at(j)))))


def is_rc(pe, out, w):
	"""out is the reverse complement of w (byte-wise complement keeping case, mirrored)"""
	out, w = _arr(out), _arr(w)
	j = z3.Int(fresh_name('j'))
	return SBool(z3.And(out.length == w.length, z3.ForAll([j], z3.Implies(z3.And(j >= 0, j < w.length), out.at(w.length - 1 - j) == S.comp(w.at(j))))))


NS = {k: v for k, v in globals().items() if callable(v) and not k.startswith('_') and k not in ('SInt', 'SBool')}


def digit_shift(pe, x, m):
	return SInt(int_term(x) / S.pow4(int_term(m)))


NS['digit_shift'] = digit_shift


def iskind(pe, v, kind):
	return isinstance(v, SArr) and v.kind == kind


def isbyteslike(pe, v):
	return isinstance(v, SArr) and v.kind in ('bytes', 'bytearray')


NS['iskind'] = iskind
NS['isbyteslike'] = isbyteslike


# ---- sorted k-mer index sets (C02, C05, C15) ----------------------------------------------------------

def inter(pe, a, b, i):
	"""number of positions i' < i of a whose element occurs in b"""
	a, b = _arr(a), _arr(b)
	return SInt(S.inter(a.arr, a.off, b.arr, b.off, b.length, int_term(i)))


def sorted_unique(pe, a):
	a = _arr(a)
	return SBool(S.strictly_increasing(a.arr, a.off, a.length))


def nonneg(pe, a):
	a = _arr(a)
	return SBool(S.elems_in_range(a.arr, a.off, a.length, 0, 2 ** 64))


def jdist(pe, s, u):
	return SF32(S.jdist(int_term(s), int_term(u)))


def D(pe, a, b):
	"""THE distance of two sorted index arrays: |A xor B| / |A or B| as computed in binary32 (0 for two empty sets)"""
	a, b = _arr(a), _arr(b)
	it = S.inter(a.arr, a.off, b.arr, b.off, b.length, a.length)
	return SF32(S.jdist(a.length + b.length - 2 * it, a.length + b.length - it))


def one_minus(pe, d):
	return SF32(fsub(i2f(z3.IntVal(1)), d.term))


def tail_lemma(pe, a, b, i, n):
	"""instance of lemma C02/lemma/tail: no element of a[i..n) occurs in b  ==>  inter(n) == inter(i)"""
	a, b = _arr(a), _arr(b)
	i, n = int_term(i), int_term(n)
	p = z3.Int(fresh_name('p'))
	none = z3.ForAll([p], z3.Implies(z3.And(i <= p, p < n), z3.Not(S.member(b.arr, b.off, b.length, z3.Select(a.arr, a.off + p)))))
	return SBool(z3.Implies(z3.And(0 <= i, i <= n, none),
		S.inter(a.arr, a.off, b.arr, b.off, b.length, n) == S.inter(a.arr, a.off, b.arr, b.off, b.length, i)))


def same_values(pe, a, b):
	"""same length and the same backing values (cells outside [0, len) are ghost, see nonneg)"""
	a, b = _arr(a), _arr(b)
	return SBool(z3.And(a.length == b.length, a.off == b.off, a.arr == b.arr))


for _n in ('inter', 'sorted_unique', 'nonneg', 'jdist', 'D', 'one_minus', 'tail_lemma', 'same_values'):
	NS[_n] = globals()[_n]


def _elem(v):
	v = _arr(v)
	return v.elem


def dtype_ok(pe, a):
	"""dtype is a 16/32/64-bit signed or unsigned integer"""
	e = _elem(a)
	return e is not None and e.kind == 'int' and e.bits in (16, 32, 64)


def is_unsigned_coords(pe, a):
	e = _elem(a)
	return e is not None and e.kind == 'int' and e.bits in (16, 32, 64) and not e.signed


def nonneg(pe, a):
	"""all entries are >= 0 (stated for every cell of the backing array: cells outside [0, len) are ghost)"""
	a = _arr(a)
	p = z3.Int(fresh_name('p'))
	return SBool(z3.ForAll([p], z3.Select(a.arr, p) >= 0))


for _n in ('dtype_ok', 'is_unsigned_coords', 'nonneg'):
	NS[_n] = globals()[_n]


# ---- k-mer search (C01, C06) ---------------------------------------------------------------------------
from pyvc.values import Record, SRec, Ref


def _f(pe, rec, name):
	"""field of a (heap or symbolic) record"""
	return pe.attr(rec, name)


def _ks(pe, ks):
	P = _arr(_f(pe, ks, 'prefix'))
	return int_term(_f(pe, ks, 'k')), P, P.length


def wf_kspec(pe, ks):
	k, P, L = _ks(pe, ks)
	j = z3.Int(fresh_name('j'))
	pl, tl, nk = int_term(_f(pe, ks, 'prefix_len')), int_term(_f(pe, ks, 'total_len')), int_term(_f(pe, ks, 'nkmers'))
	return SBool(z3.And(k >= 1, k <= 32, L >= 1, L < 2 ** 31, pl == L, tl == k + L, nk == S.pow4(k),
		z3.ForAll([j], z3.Implies(z3.And(j >= 0, j < L), z3.Or(*[P.at(j) == c for c in b'ACGT'])))))


def _U(seq):
	"""the case-folded text that is searched: UP(bytes of seq)"""
	seq = _arr(seq)
	return S.uparr(seq.arr), seq.off, seq.length


def fwd(pe, ks, seq, p):
	"""the prefix occurs on the forward strand at p with room for a k-mer after it"""
	k, P, L = _ks(pe, ks)
	U, o, n = _U(seq)
	p = int_term(p)
	return SBool(z3.And(p >= 0, p + L + k <= n, S.occ(U, o, P.arr, P.off, L, p)))


def rev(pe, ks, seq, q):
	"""the reverse complement of the prefix occurs at q with room for a k-mer before it"""
	k, P, L = _ks(pe, ks)
	U, o, n = _U(seq)
	q = int_term(q)
	return SBool(z3.And(q >= k, q + L <= n, S.occrc(U, o, P.arr, P.off, L, q)))


def fwdh(pe, ks, hay, p):
	k, P, L = _ks(pe, ks)
	hay = _arr(hay)
	p = int_term(p)
	return SBool(z3.And(p >= 0, p + L + k <= hay.length, S.occ(hay.arr, hay.off, P.arr, P.off, L, p)))


def revh(pe, ks, hay, prc, q):
	k, P, L = _ks(pe, ks)
	hay, prc = _arr(hay), _arr(prc)
	q = int_term(q)
	return SBool(z3.And(q >= k, q + L <= hay.length, S.occ(hay.arr, hay.off, prc.arr, prc.off, L, q)))


def hay_equiv(pe, ks, hay, seq):
	"""searching the code's haystack is searching UP(seq): same occurrences of the prefix and of its reverse complement"""
	k, P, L = _ks(pe, ks)
	hay = _arr(hay)
	U, o, n = _U(seq)
	p = z3.Int(fresh_name('p'))
	return SBool(z3.And(hay.length == n, z3.ForAll([p], z3.Implies(z3.And(p >= 0, p + L <= n), z3.And(
		S.occ(hay.arr, hay.off, P.arr, P.off, L, p) == S.occ(U, o, P.arr, P.off, L, p),
		S.occrc(hay.arr, hay.off, P.arr, P.off, L, p) == S.occrc(U, o, P.arr, P.off, L, p))))))


def rc_equiv(pe, ks, hay, prc):
	"""an occurrence of the byte string revcomp(prefix) is an occurrence of the prefix's reverse complement"""
	k, P, L = _ks(pe, ks)
	hay, prc = _arr(hay), _arr(prc)
	p = z3.Int(fresh_name('p'))
	return SBool(z3.And(prc.length == L, z3.ForAll([p], z3.Implies(z3.And(p >= 0, p + L <= hay.length),
		S.occ(hay.arr, hay.off, prc.arr, prc.off, L, p) == S.occrc(hay.arr, hay.off, P.arr, P.off, L, p)))))


def no_lower_nuc(pe, hay, n):
	hay = _arr(hay)
	j = z3.Int(fresh_name('j'))
	return SBool(z3.ForAll([j], z3.Implies(z3.And(j >= 0, j < int_term(n)), z3.And(*[hay.at(j) != c for c in b'acgt']))))


# kvalid / kindex are opaque in contracts (uninterpreted): only kmer_index's own verification and the
# C06 lemmas need their definitions, which reveal_k() provides for one match at a time.
KVALID = z3.Function('kvalid', IntArr, I, I, I, I, B, B)   # (seq array, origin, k, L, pos, reverse)
KINDEX = z3.Function('kindex', IntArr, I, I, I, I, B, I)


def _rv(reverse):
	r = truth(reverse)
	return z3.BoolVal(r) if isinstance(r, bool) else r


def kvalid(pe, ks, seq, pos, reverse):
	"""the k-mer of the match (pos, reverse) consists of ACGTacgt only"""
	k, P, L = _ks(pe, ks)
	seq = _arr(seq)
	return SBool(KVALID(seq.arr, seq.off, k, L, int_term(pos), _rv(reverse)))


def kindex(pe, ks, seq, pos, reverse):
	"""index of the k-mer of the match: forward code of seq[pos+L : pos+L+k], or reverse-complement code of seq[pos-L-k+1 : pos-L+1]"""
	k, P, L = _ks(pe, ks)
	seq = _arr(seq)
	return SInt(KINDEX(seq.arr, seq.off, k, L, int_term(pos), _rv(reverse)))


def reveal_k(pe, ks, seq, pos, reverse):
	"""definitions of kvalid / kindex for one match"""
	k, P, L = _ks(pe, ks)
	seq = _arr(seq)
	pos = int_term(pos)
	r = _rv(reverse)
	fv, bv = S.allnuc(seq.arr, seq.off + pos + L, k), S.allnuc(seq.arr, seq.off + pos - L - k + 1, k)
	fi, bi = S.enc(seq.arr, seq.off + pos + L, k), S.encrc(seq.arr, seq.off + pos - L - k + 1, k, k)
	return SBool(z3.And(KVALID(seq.arr, seq.off, k, L, pos, r) == z3.If(r, bv, fv),
	                    KINDEX(seq.arr, seq.off, k, L, pos, r) == z3.If(r, bi, fi)))


def sig(pe, ks, seq, x):
	"""x is in the signature of seq: the index of a valid k-mer directly following an occurrence of the prefix on either strand"""
	k, P, L = _ks(pe, ks)
	sq = _arr(seq)
	U, o, n = _U(seq)
	x = int_term(x)
	p, q = z3.Int(fresh_name('p')), z3.Int(fresh_name('q'))
	T, F = z3.BoolVal(True), z3.BoolVal(False)
	f = z3.Exists([p], z3.And(p >= 0, p + L + k <= n, S.occ(U, o, P.arr, P.off, L, p),
		KVALID(sq.arr, sq.off, k, L, p, F), x == KINDEX(sq.arr, sq.off, k, L, p, F)))
	r = z3.Exists([q], z3.And(q >= k, q + L <= n, S.occrc(U, o, P.arr, P.off, L, q),
		KVALID(sq.arr, sq.off, k, L, q + L - 1, T), x == KINDEX(sq.arr, sq.off, k, L, q + L - 1, T)))
	return SBool(z3.Or(f, r))


SIG_OPAQUE = z3.Function('sig_opaque', I, IntArr, I, IntArr, I, I, I, B)


def sig_opaque(pe, ks, seq, x):
	"""sig as an ARBITRARY predicate of (k, prefix, sequence, x): what a caller proves with it holds for the defined one"""
	k, P, L = _ks(pe, ks)
	sq = _arr(seq)
	return SBool(SIG_OPAQUE(k, P.arr, L, sq.arr, sq.off, sq.length, int_term(x)))


def match_wf(pe, ks, seq, pos, reverse):
	"""a match as find_kmers yields it: the whole prefix + k-mer window lies inside the sequence"""
	k, P, L = _ks(pe, ks)
	n = _arr(seq).length
	pos = int_term(pos)
	r = truth(reverse)
	f = z3.And(pos >= 0, pos + L + k <= n)
	b = z3.And(pos - L - k + 1 >= 0, pos < n)
	if isinstance(r, bool):
		return SBool(b if r else f)
	return SBool(z3.If(r, b, f))


# ---- accumulators -------------------------------------------------------------------------------------------

def acchas(pe, acc, x):
	"""abstract view of an accumulator: x has been added"""
	if acc is None:
		return False
	acc = pe.deref(acc)
	x = int_term(x)
	if acc.cls.endswith('ArrayAccumulator'):
		a = _arr(pe.deref(acc.fields['array']))
		return SBool(z3.And(x >= 0, x < a.length, a.at(x) != 0))
	if acc.cls.endswith('SetAccumulator'):
		s = pe.deref(acc.fields['set'])
		from pyvc.values import EmptySet, SSet
		if isinstance(s, EmptySet):
			return False
		return SBool(s.has(x))
	raise Unsupported(f'acchas of {acc!r}')


def wf_acc(pe, acc):
	acc = pe.deref(acc)
	k = int_term(acc.fields['k'])
	dt = acc.fields['_dtype']
	hi = dt.ctype.hi
	base = z3.And(k >= 1, k <= 32, S.pow4(k) - 1 <= hi)
	if acc.cls.endswith('ArrayAccumulator'):
		a = _arr(pe.deref(acc.fields['array']))
		j = z3.Int(fresh_name('j'))
		return SBool(z3.And(base, a.length == S.pow4(k), z3.ForAll([j], z3.Or(z3.Select(a.arr, j) == 0, z3.Select(a.arr, j) == 1))))
	s = pe.deref(acc.fields['set'])
	from pyvc.values import EmptySet
	if isinstance(s, EmptySet):
		return SBool(base)
	x = z3.Int(fresh_name('x'))
	return SBool(z3.And(base, z3.ForAll([x], z3.Implies(s.has(x), z3.And(x >= 0, x < S.pow4(k))))))


def acc_dtype_is(pe, arr, acc):
	acc = pe.deref(acc)
	return _arr(arr).elem is not None and _arr(arr).elem.name == acc.fields['_dtype'].ctype.name


def result_dtype_ok(pe, arr, acc, k):
	"""dtype of the result: the accumulator's dtype if one was supplied, else the smallest unsigned type for k"""
	from pyvc.libspec.np import dtype_of
	if acc is None:
		return is_index_dtype(pe, dtype_of(_arr(arr)), k)
	return acc_dtype_is(pe, arr, acc)


def all_short(pe, seqs):
	"""every sequence is shorter than 2^31 (C int counters in revcomp)"""
	if isinstance(seqs, SArr):
		return SBool(seqs.length < 2 ** 31)
	j = z3.Int(fresh_name('j'))
	return SBool(z3.ForAll([j], z3.Implies(z3.And(j >= 0, j < seqs.length), seqs.at(j).length < 2 ** 31)))


def sigany(pe, ks, seqs, x, upto=None):
	"""x is in the signature of one of the sequences (of the first `upto` ones)"""
	if isinstance(seqs, SArr):
		return sig(pe, ks, seqs, x)
	j = z3.Int(fresh_name('j'))
	n = seqs.length if upto is None else int_term(upto)
	sig_ = getattr(getattr(pe, 'eng', None), 'specns', {}).get('sig', sig)      # a target may treat sig as an arbitrary predicate
	return SBool(z3.Exists([j], z3.And(j >= 0, j < n, truth(sig_(pe, ks, seqs.at(j), x)))))


NS['result_dtype_ok'] = result_dtype_ok
NS['all_short'] = all_short
NS['sigany'] = sigany


def is_index_dtype(pe, dt, k):
	"""dt is the smallest unsigned integer dtype able to hold 4^k - 1 (None above 32)"""
	k = int_term(k)
	if dt is None:
		return SBool(k > 32)
	if dt.kind != 'u':
		return False
	b = 8 * dt.itemsize
	smaller = {8: None, 16: 8, 32: 16, 64: 32}[b]
	fits = S.pow4(k) - 1 <= (1 << b) - 1
	least = z3.BoolVal(True) if smaller is None else S.pow4(k) - 1 > (1 << smaller) - 1
	return SBool(z3.And(k <= 32, fits, least))


def elem_set_is(pe, arr, pred_name):
	raise Unsupported('elem_set_is')


for _n in ('reveal_k', 'wf_kspec', 'fwd', 'rev', 'fwdh', 'revh', 'hay_equiv', 'rc_equiv', 'no_lower_nuc', 'kvalid', 'kindex', 'sig',
           'match_wf', 'acchas', 'wf_acc', 'acc_dtype_is', 'is_index_dtype'):
	NS[_n] = globals()[_n]


def _zero_origin(*arrs):
	for a in arrs:
		if not (z3.is_int_value(a.off) and a.off.as_long() == 0):
			raise Unsupported('lemma instance for a sliced array (the lemma is proved for origin 0)')


def hay_equiv_lemma(pe, ks, hay, seq):
	"""instance of lemma C01/lemma/hay-equiv: a haystack without a/c/g/t bytes that equals seq has the same prefix
	occurrences (both strands) as UP(seq)"""
	k, P, L = _ks(pe, ks)
	hay = _arr(hay)
	sq = _arr(seq)
	_zero_origin(hay, sq, P)
	same = z3.And(hay.length == sq.length, hay.arr == sq.arr, hay.off == sq.off)
	hyp = z3.And(same, truth(no_lower_nuc(pe, hay, hay.length)), truth(wf_kspec(pe, ks)))
	return SBool(z3.Implies(hyp, truth(hay_equiv(pe, ks, hay, seq))))


def rc_equiv_lemma(pe, ks, hay, prc):
	"""instance of lemma C01/lemma/rc-equiv"""
	k, P, L = _ks(pe, ks)
	_zero_origin(_arr(hay), _arr(prc), P)
	return SBool(z3.Implies(truth(is_rc(pe, prc, P)), truth(rc_equiv(pe, ks, hay, prc))))


NS['hay_equiv_lemma'] = hay_equiv_lemma
NS['rc_equiv_lemma'] = rc_equiv_lemma


# ---- ghost state of the futures model (C13) ---------------------------------------------------------------------

def next_future_is(pe, n):
	"""n futures have been created by this call"""
	nf = pe.st.ghosts['next_future']
	return SBool(int_term(nf) == int_term(pe.st.ghosts['_const_fut_base']) + int_term(n))


def fut(pe, j):
	"""the future created by the j-th submit of this call"""
	return SInt(int_term(pe.st.ghosts['_const_fut_base']) + int_term(j))


def fut_file_is(pe, f, file):
	fa = pe.st.ghosts.get('fut_file')
	if fa is None:
		return False
	return SBool(z3.Select(fa, int_term(f)) == file.term)


def fut_kspec_is(pe, f, ks):
	fa = pe.st.ghosts.get('fut_kspec')
	if fa is None:
		return False
	return SBool(z3.Select(fa, int_term(f)) == ks.term)


def has_key(pe, d, k):
	if isinstance(d, dict):
		if not d:
			return False
		raise Unsupported('has_key on a non-empty concrete dict')
	return SBool(d.has(k))


for _n in ('fut', 'next_future_is', 'fut_file_is', 'fut_kspec_is', 'has_key'):
	NS[_n] = globals()[_n]


def valid_name(pe, name):
	"""name is one of Genome.ID_ATTRS"""
	t = to_term(name)
	return SBool(z3.Or(*[t == z3.StringVal(s) for s in ('key', 'genbank_acc', 'refseq_acc', 'ncbi_id')]))


NS['valid_name'] = valid_name


MATCHED_COUNT = z3.Function('matched_count', z3.DeclareSort('GenomeSet'), z3.DeclareSort('IdAttr'), z3.ArraySort(I, z3.DeclareSort('IdVal')), I, I)


def matched_count(pe, gs, a, ids):
	"""number of positions of ids whose value is the identifier of a genome of the set (= len of the subset result)"""
	return SInt(MATCHED_COUNT(gs.term, a.term, ids.arr, ids.length))


NS['matched_count'] = matched_count


def isnone_or_dir(pe, d):
	"""d is empty or a directory prefix ending in '/'"""
	t = to_term(d)
	return SBool(z3.Or(t == z3.StringVal(''), z3.SuffixOf(z3.StringVal('/'), t)))


NS['isnone_or_dir'] = isnone_or_dir


def is_f32(pe, a):
	a = pe.deref(a) if isinstance(a, Ref) else a
	return isinstance(a, SSeq) and a.T is TF32


def lens_ok(pe, query, refs):
	"""machine-integer precondition of the kernel for every pair: len(query) + len(ref) < 2^62"""
	from pyvc.values import Record
	q = _arr(query)
	rv = pe.deref(refs)
	if isinstance(rv, Record):
		return SBool(q.length + pe.deref(rv.fields['values']).length < 2 ** 62)
	r = z3.Int(fresh_name('r'))
	return SBool(z3.ForAll([r], z3.Implies(z3.And(0 <= r, r < rv.length), q.length + rv.at(r).length < 2 ** 62)))


NS['is_f32'] = is_f32
NS['lens_ok'] = lens_ok
