"""Specification vocabulary available inside contract clauses (names -> callables on values)."""
import z3
from pyvc.values import *
from pyvc.ops import *
from pyvc import spec as S


def _arr(v):
	if not isinstance(v, SArr):
		raise Unsupported(f'expected an integer array, got {v!r}')
	return v


def encp(pe, w, n):
	"""base-4 value of the first n bytes of w"""
	w = _arr(w)
	return SInt(S.enc(w.arr, w.off, int_term(n)))


def encrcp(pe, w, n):
	"""base-4 value of the first n bases of the reverse complement of w"""
	w = _arr(w)
	return SInt(S.encrc(w.arr, w.off, w.length, int_term(n)))


def allnucp(pe, w, n):
	w = _arr(w)
	return SBool(S.allnuc(w.arr, w.off, int_term(n)))


def pow4(pe, n):
	if isinstance(n, int):
		return 4 ** n
	return SInt(S.pow4(int_term(n)))


def digit(pe, x, m):
	"""m-th base-4 digit of x (m = 0 least significant), 0 <= m <= 32"""
	return SInt((int_term(x) / S.pow4(int_term(m))) % 4)


def up(pe, x):
	return SInt(S.up(int_term(x)))


def dig(pe, x):
	return SInt(S.dig(int_term(x)))


def comp(pe, x):
	return SInt(S.comp(int_term(x)))


def isnuc(pe, x):
	return SBool(S.isnuc(int_term(x)))


def isupnuc(pe, x):
	x = int_term(x)
	return SBool(z3.Or(x == 65, x == 67, x == 71, x == 84))


def same_bytes(pe, a, b):
	a, b = _arr(a), _arr(b)
	j = z3.Int(fresh_name('j'))
	return SBool(z3.And(a.length == b.length, z3.ForAll([j], z3.Implies(z3.And(j >= 0, j < a.length), a.at(j) == b.at(j)))))


def is_rc(pe, out, w):
	"""out is the reverse complement of w (byte-wise complement keeping case, mirrored)"""
	out, w = _arr(out), _arr(w)
	j = z3.Int(fresh_name('j'))
	return SBool(z3.And(out.length == w.length, z3.ForAll([j], z3.Implies(z3.And(j >= 0, j < w.length), out.at(w.length - 1 - j) == S.comp(w.at(j))))))


NS = {k: v for k, v in globals().items() if callable(v) and not k.startswith('_') and k not in ('SInt', 'SBool')}


def digit_shift(pe, x, m):
	return SInt(int_term(x) / S.pow4(int_term(m)))


NS['digit_shift'] = digit_shift
