"""Contracts for src/gambit/db/refdb.py (C04).  Identifier values are opaque (TObj IdVal); the SQLAlchemy query helpers
are external with assumed contracts over a ghost description of the genome set."""
import z3
from pyvc.contracts import *
from pyvc.values import *
from pyvc.ops import *
from pyvc.interp import SDict, ExtObj
from .specns import NS
from .taxonomy import TGenome, Genome

RD = 'gambit.db.refdb.'
TId = TObj('IdVal')
TAttr = TObj('IdAttr')            # an instrumented Genome attribute (key / genbank_acc / refseq_acc / ncbi_id)
TGset = TObj('GenomeSet')
IdVal = Obj('IdVal')
Gset = Obj('GenomeSet')
Attr = Obj('IdAttr')

inset = z3.Function('inset', TGset.sort, TGenome.sort, B)                 # ghost: genome belongs to the genome set
idof = z3.Function('idof', TAttr.sort, TGenome.sort, TId.sort)            # value of the identifier attribute for a genome
gcount = z3.Function('gcount', TGset.sort, I)                            # number of genomes in the set
attr_named = z3.Function('attr_named', STR, TAttr.sort)                   # getattr(Genome, name)
valid_attr_name = z3.Function('valid_attr_name', STR, B)                  # name in Genome.ID_ATTRS


def sp_inset(pe, gs, g):
	return SBool(inset(gs.term, g.term))


def sp_idof(pe, a, g):
	return SObj(TId, idof(a.term, g.term))


def sp_gcount(pe, gs):
	return SInt(gcount(gs.term))


def sp_attr_named(pe, name):
	return SObj(TAttr, attr_named(to_term(name)))


def id_map_ok(pe, d, gs, a):
	"""d maps every identifier value of the set's genomes to that genome and has no other keys"""
	g = z3.Const(fresh_name('g'), TGenome.sort)
	k = z3.Const(fresh_name('k'), TId.sort)
	return SBool(z3.And(
		z3.ForAll([k], z3.Implies(z3.Select(d.dom, k), z3.And(z3.Select(d.vals, k) != TGenome.none, inset(gs.term, z3.Select(d.vals, k)), idof(a.term, z3.Select(d.vals, k)) == k))),
		z3.ForAll([g], z3.Implies(z3.And(g != TGenome.none, inset(gs.term, g)), z3.And(z3.Select(d.dom, idof(a.term, g)), z3.Select(d.vals, idof(a.term, g)) == g)))))


def no_genome(pe, gs, a, idv):
	"""no genome of the set has this identifier value"""
	g = z3.Const(fresh_name('g'), TGenome.sort)
	return SBool(z3.ForAll([g], z3.Implies(z3.And(g != TGenome.none, inset(gs.term, g)), idof(a.term, g) != idv.term)))


def unique_ids(pe, ids):
	p, q = z3.Int(fresh_name('p')), z3.Int(fresh_name('q'))
	return SBool(z3.ForAll([p, q], z3.Implies(z3.And(0 <= p, p < q, q < ids.length), z3.Select(ids.arr, p) != z3.Select(ids.arr, q))))


NS.setdefault('__qtypes__', {})['g'] = TGenome
for _n, _f in (('inset', sp_inset), ('idof', sp_idof), ('gcount', sp_gcount), ('attr_named', sp_attr_named), ('id_map_ok', id_map_ok), ('no_genome', no_genome), ('unique_ids', unique_ids)):
	NS[_n] = _f


class IdMap(TypeSpec):
	def make(self, name, st, eng):
		d = SDict(TId, TGenome, z3.Const(fresh_name(name + '_dom'), z3.ArraySort(TId.sort, B)), z3.Const(fresh_name(name + '_val'), z3.ArraySort(TId.sort, TGenome.sort)), None)
		r = Ref('dict')
		st.heap[r.addr] = d
		return r


MATCHED = ('forall(j, 0 <= j, j < len(result[0]), inset(genomeset, result[0][j]) and not isnone(result[0][j]) and 0 <= result[1][j] and result[1][j] < len(ids)'
           ' and idof({A}, result[0][j]) == ids[result[1][j]])')


def register(reg):
	# ---- external (SQLAlchemy) helpers: assumed ---------------------------------------------------------------------
	reg.contract(RD + '_check_genome_id_attr', types={'attr': Str},
		raises={'ValueError': 'not valid_name(attr)'}, ensures=['result == attr_named(attr)'], returns=Attr, trusted=True,
		note='string -> Genome attribute for the four ID_ATTRS, ValueError otherwise (getattr on the ORM class is external)')
	reg.contract(RD + '_check_genomes_have_ids', may_raise=['RuntimeError'], trusted=True)
	reg.contract(RD + '_map_ids_to_genomes', returns=IdMap(), ensures=['id_map_ok(result, genomeset, id_attr)'], trusted=True,
		note='one dict entry per genome of the set, keyed by the value of the attribute (SQL query; identifier values are unique within a set)')
	# ---- verified ---------------------------------------------------------------------------------------------------------
	reg.contract(RD + 'genomes_by_id',
		types={'genomeset': Gset, 'id_attr': Str, 'ids': SeqOf(IdVal)},
		raises={'ValueError': 'not valid_name(id_attr)',
		        'KeyError': 'valid_name(id_attr) and strict and exists(j, 0 <= j, j < len(ids), no_genome(genomeset, attr_named(id_attr), ids[j]))'},
		may_raise=['RuntimeError'],
		ensures=['len(result) == len(ids)',
		         'forall(j, 0 <= j, j < len(ids), ite(isnone(result[j]), no_genome(genomeset, attr_named(id_attr), ids[j]),'
		         ' inset(genomeset, result[j]) and idof(attr_named(id_attr), result[j]) == ids[j]))'],
		returns=SeqOf(Obj('AnnotatedGenome', nonnull=False), ref=True),
	)
	reg.contract(RD + 'genomes_by_id_subset',
		types={'genomeset': Gset, 'id_attr': Str, 'ids': SeqOf(IdVal)},
		raises={'ValueError': 'not valid_name(id_attr)'},
		may_raise=['RuntimeError'],
		ensures=['len(result[0]) == len(result[1])',
		         MATCHED.format(A='attr_named(id_attr)'),
		         # positions in the signature file, strictly increasing (so no signature is used twice)
		         'forall((p, q), 0 <= p, p < q, q < len(result[1]), result[1][p] < result[1][q])',
		         # every signature whose ID belongs to a genome of the set is used
		         'forall(i, 0 <= i, i < len(ids), no_genome(genomeset, attr_named(id_attr), ids[i])'
		         ' or exists(j, 0 <= j and j < len(result[1]) and result[1][j] == i))'],
		returns=lambda eng, st, env: (SeqOf(Genome, ref=True).make('genomes_out', st, eng), SeqOf(Int, ref=True).make('idxs_out', st, eng)),
		loops={0: invariant(
			'0 <= _i0 <= len(__it0)', 'len(genomes_out) == len(idxs_out)',
			'forall(j, 0 <= j, j < len(genomes_out), inset(genomeset, genomes_out[j]) and not isnone(genomes_out[j]) and 0 <= idxs_out[j] and idxs_out[j] < _i0'
			' and genomes_out[j] == genomes[idxs_out[j]])',
			'forall((p, q), 0 <= p, p < q, q < len(idxs_out), idxs_out[p] < idxs_out[q])',
			'forall(i, 0 <= i, i < _i0, isnone(genomes[i]) or exists(j, 0 <= j and j < len(idxs_out) and idxs_out[j] == i))',
			types={'genomes_out': SeqOf(Genome, ref=True), 'idxs_out': SeqOf(Int, ref=True)},
			decreases='len(__it0) - _i0')},
	)


TGQ = TObj('GenomeQuery')
TGset.field('genomes', TGQ)
gqcount = z3.Function('gqcount', TGQ.sort, I)


def sp_gcount2(pe, gs):
	"""number of genomes in the genome set = what genomeset.genomes.count() returns"""
	return SInt(gqcount(TGset.fields['genomes'][0](gs.term)))


NS['gcount'] = sp_gcount2

MetaT = lambda id_attr: Rec('gambit.sigs.base.SignaturesMeta', id_attr=id_attr)
RefSigs = lambda id_attr: Rec('ReferenceSignatures', meta=MetaT(id_attr), ids=SeqOf(IdVal))


def register_db(reg):
	A = 'attr_named(signatures.meta.id_attr)'
	reg.contract(RD + 'ReferenceDatabase.__init__',
		types={'self': Rec(RD + 'ReferenceDatabase'), 'genomeset': Gset},
		raises={'TypeError': 'isnone(signatures.meta.id_attr)'},
		# ValueError: invalid attribute name, or fewer matched genomes than the set has; a normal return therefore
		# means len(genomes) == gcount (ensures), i.e. (pigeonhole, ids unique) every genome got its own signature
		may_raise=['RuntimeError', 'ValueError'],
		ensures=['self.genomeset == genomeset', 'self.signatures is signatures',
		         'len(self.genomes) == len(self.sig_indices)', 'len(self.genomes) == gcount(genomeset)',
		         'forall(j, 0 <= j, j < len(self.genomes), inset(genomeset, self.genomes[j]) and 0 <= self.sig_indices[j] and self.sig_indices[j] < len(signatures.ids)'
		         ' and idof(' + A + ', self.genomes[j]) == signatures.ids[self.sig_indices[j]])',
		         'forall((p, q), 0 <= p, p < q, q < len(self.sig_indices), self.sig_indices[p] < self.sig_indices[q])'],
	)
