"""Contracts for gambit.query.query / query_parse and cli.common.get_sequence_files (C08): one result item per query,
in order, each a function of that query's signature, the database, the parameters and its own input label only."""
import z3
from pyvc.contracts import *
from pyvc.values import *
from pyvc.ops import *
from pyvc.interp import ExtObj
from pyvc.libspec.conc import TFile, TSig, TKSpecV, filesig, fileerr
from .specns import NS
from .calc_files import File, Sig, KSpecV

QR = 'gambit.query.'
CC = 'gambit.cli.common.'

TDb = TObj('DbV')
TSigsV = TObj('SigsV')
TMeta = TObj('MetaV')
TIdx = TObj('IdxV')
TGsetV = TObj('GenomeSetV')
TRow = TObj('Row')
TDMat = TObj('DMat')
TItem = TObj('ResultItem')
TParams = TObj('ParamsV')
TSigsV.field('meta', TMeta).field('kmerspec', TKSpecV)
TDb.field('signatures', TSigsV).field('sig_indices', TIdx).field('genomeset', TGsetV)
TParams.field('chunksize', TOpt(TInt)).field('classify_strict', TBool).field('report_closest', TInt)
TQInput = TRec('QueryInput', QR + 'QueryInput', {'label': TStr, 'file': TFile})

# ROWSPEC(refs, ref_indices, q): THE distance row of query signature q against the selected references (C05: every cell is
# the two-signature distance; no dependence on chunk size, threads, batch)
ROWSPEC = z3.Function('ROWSPEC', TSigsV.sort, TIdx.sort, TSig.sort, TRow.sort)
rowof = z3.Function('rowof', TDMat.sort, I, TRow.sort)
nrows = z3.Function('nrows', TDMat.sort, I)
# RI(db, params, row, input): THE result item get_result_item builds (C03/C09/C10: a function of its arguments)
RI = z3.Function('RI', TDb.sort, TParams.sort, TRow.sort, TQInput.sort, TItem.sort)


def sp_rowspec(pe, refs, idx, q):
	return SObj(TRow, ROWSPEC(refs.term, TIdx.unwrap(idx), q.term))


def sp_rowof(pe, m, i):
	return SObj(TRow, rowof(m.term, int_term(i)))


def sp_nrows(pe, m):
	return SInt(nrows(m.term))


def sp_ri(pe, db, params, row, inp):
	return SObj(TItem, RI(db.term, params.term, row.term, inp.term))


def default_input(pe, i):
	"""QueryInput(str(i + 1)): the default label of the i-th query"""
	return SRec(TQInput, TQInput.make_term({'label': SStr(z3.IntToStr(int_term(i) + 1)), 'file': SObj(TFile, TFile.none)}))


def mkinput(pe, label, file):
	return SRec(TQInput, TQInput.make_term({'label': label, 'file': file if file is not None else SObj(TFile, TFile.none)}))


from .labels import TPath


def fileinput(pe, f):
	"""QueryInput.convert(file): labelled with the file's path"""
	p = TFile.fields['path'][0](f.term)
	return SRec(TQInput, TQInput.make_term({'label': SStr(TPath.fields['pathstr'][0](p)), 'file': f}))


def as_input(pe, x):
	"""QueryInput.convert(x): a QueryInput is kept, a SequenceFile is labelled with its path, a str is the label"""
	if isinstance(x, SRec):
		return x
	if isinstance(x, SObj) and x.T is TFile:
		return fileinput(pe, x)
	if isinstance(x, (SStr, str)):
		return mkinput(pe, x, None)
	raise Unsupported(f'as_input({x!r})')


NS['fileinput'] = fileinput
NS['as_input'] = as_input
for _n, _f in (('ROWSPEC', sp_rowspec), ('rowof', sp_rowof), ('nrows', sp_nrows), ('RI', sp_ri), ('default_input', default_input), ('mkinput', mkinput)):
	NS[_n] = _f

Db = Obj('DbV')
ParamsV = Obj('ParamsV')


def register(reg):
	reg.contract('gambit.metric.jaccarddist_matrix',
		returns=Obj('DMat'),
		ensures=['nrows(result) == len(queries)',
		         'forall(i, 0 <= i, i < len(queries), rowof(result, i) == ROWSPEC(refs, ref_indices, queries[i]))'],
		note='C05 contract in row form: row i depends on queries[i], the references and the selected indices only')
	reg.contract(QR + 'get_result_item', returns=Obj('ResultItem'), ensures=['result == RI(db, params, dists, input)'],
		note='C03/C09/C10: the result item is a function of (db, params, distance row, input)')
	reg.contract(QR + 'QueryInput.convert', inline=True)
	ITEM = 'RI(db, params, ROWSPEC(db.signatures, db.sig_indices, queries[i]), {inp})'
	reg.contract(QR + 'query',
		types={'db': Db, 'queries': SeqOf(Sig), 'params': ParamsV, 'progress': Const(None)},
		raises={'ValueError': 'len(queries) == 0 or (not isnone(inputs) and len(inputs) != len(queries))'},
		ensures=['len(result.items) == len(queries)',
		         'forall(i, 0 <= i, i < len(queries), result.items[i] == ' + ITEM.format(inp='(default_input(i) if isnone(inputs) else as_input(inputs[i]))') + ')',
		         'result.params == params', 'result.genomeset == db.genomeset', 'result.signaturesmeta == db.signatures.meta'],
		returns=lambda eng, st, env: Rec(QR + 'QueryResults', items=SeqOf(Obj('ResultItem'), ref=True), params=ParamsV, genomeset=Obj('GenomeSetV'),
		                                 signaturesmeta=Obj('MetaV')).make('results', st, eng),
	)



def register_parse(reg):
	reg.contract('gambit.sigs.calc.calc_file_signatures',
		may_raise=['Exception'],
		returns=lambda eng, st, env: Rec('gambit.sigs.base.SignatureList', _list=SeqOf(Sig, ref=True), kmerspec=KSpecV).make('sigs', st, eng),
		ensures=['len(result._list) == len(files)', 'forall(i, 0 <= i, i < len(files), result._list[i] == filesig(kspec, files[i]))', 'result.kmerspec == kspec'],
		note='C13 contract')
	reg.contract(QR + 'query_parse',
		types={'db': Db, 'files': SeqOf(File), 'params': ParamsV, 'parse_kw': Const(None)},
		raises={'ValueError': 'len(files) == 0 or (not isnone(file_labels) and len(file_labels) != len(files))'},
		may_raise=['Exception'],
		ensures=['len(result.items) == len(files)',
		         'forall(i, 0 <= i, i < len(files), result.items[i] == RI(db, params, ROWSPEC(db.signatures, db.sig_indices, filesig(db.signatures.kmerspec, files[i])),'
		         ' (fileinput(files[i]) if isnone(file_labels) else mkinput(file_labels[i], files[i]))))'],
	)
