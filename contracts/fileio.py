"""Contracts for the file glue of C06: src/gambit/util/io.py (compression detection, open_compressed) and
src/gambit/seq.py (SequenceFile.open / parse), over the stream model of pyvc/libspec/fio.py."""
import z3
from pyvc.contracts import *
from pyvc.values import *
from pyvc.ops import *
from pyvc.interp import ExtObj
from pyvc.libspec import fio
from .specns import NS

IO = 'gambit.util.io.'
SQ = 'gambit.seq.'


class FileAtStart(TypeSpec):
	"""a binary file object, freshly opened on some path (position 0)"""

	def make(self, name, st, eng):
		return ExtObj('file', path=TStr.fresh(name + '_path'), mode='rb', enter=None, closed=[False], kw={}, chain='file')


def isgz(pe, path):
	"""the file at `path` starts with the two gzip magic bytes 1f 8b"""
	c = fio.content_of(path)
	return SBool(z3.And(c.length >= 2, z3.Select(c.arr, c.off) == 0x1f, z3.Select(c.arr, c.off + 1) == 0x8b))


class _NoStream:
	"""what the inspection functions return for a value that is not a stream (compares unequal to everything)"""

	def __eq__(self, other):
		return False

	def __ne__(self, other):
		return True

	def __repr__(self):
		return '<not a stream>'


NOSTREAM = _NoStream()


def _data(s, key, default=None):
	return s.data.get(key, default) if isinstance(s, ExtObj) else NOSTREAM


def chain(pe, s):
	"""how a stream was built, outermost first: e.g. text>gzip>file"""
	return _data(s, 'chain')


def spath(pe, s):
	return _data(s, 'path')


def smode(pe, s):
	return _data(s, 'mode')


def skw(pe, s, key):
	"""keyword argument `key` given to the text layer of the stream (None when absent)"""
	kw = _data(s, 'kw', {})
	return kw.get(key) if isinstance(kw, dict) else NOSTREAM


def kwget(pe, kwargs, key):
	d = pe.deref(kwargs)
	return d.get(key) if isinstance(d, dict) else None


def sformat(pe, s):
	return _data(s, 'format')


def sstream(pe, s):
	return _data(s, 'stream')


NS.update(kwget=kwget, isgz=isgz, chain=chain, spath=spath, smode=smode, skw=skw, sformat=sformat, sstream=sstream)


def register(reg):
	reg.contract(IO + 'guess_compression', types={'fobj': FileAtStart()}, returns=Str,
		ensures=['implies(isgz(spath(fobj)), result == "gzip")', 'implies(not isgz(spath(fobj)), result == "none")'],
		note='decided by the first two CONTENT bytes only')
	# the stream handed back for reading: over the SAME path, binary at the bottom, gunzip layer exactly when the content starts with the magic
	auto = ['spath(result) == path', 'smode(result) == "rb"']
	reg.contract(IO + '_open_auto', types={'path': Str}, inline=True,
		raises={'ValueError': 'mode[0] != "r"'},
		ensures=auto + ['implies(isgz(path), chain(result) == ("text>gzip>file" if mode[1] == "t" else "gzip>file"))',
		                'implies(not isgz(path), chain(result) == ("text>file" if mode[1] == "t" else "file"))',
		                'implies(mode[1] == "t", skw(result, "encoding") == kwget(kwargs, "encoding"))'])
	reg.contract(IO + 'open_compressed', types={'path': Str}, inline=True,
		raises={'ValueError': 'not (len(mode) == 2 and mode[0] in "rwax" and mode[1] in "tb") or compression not in ("none", "gzip", "auto") or (compression == "auto" and mode[0] != "r")'},
		ensures=['spath(result) == path',
		         'implies(compression == "none", chain(result) == "file" and smode(result) == mode)',
		         'implies(compression == "gzip", chain(result) == ("text>gzip>file" if mode[1] == "t" else "gzip>file"))',
		         'implies(compression == "auto" and isgz(path), chain(result) == ("text>gzip>file" if mode[1] == "t" else "gzip>file"))',
		         'implies(compression == "auto" and not isgz(path), chain(result) == ("text>file" if mode[1] == "t" else "file"))'])


class SeqFileT(TypeSpec):
	def __init__(self, compression):
		self.compression = compression

	def make(self, name, st, eng):
		return Rec(SQ + 'SequenceFile', path=Str, format=Str, compression=Const(self.compression)).make(name, st, eng)


def _chain_for(comp, text=True):
	"""clauses saying which stream a SequenceFile with this compression setting opens for text reading"""
	t = 'text>' if text else ''
	if comp in (None, 'none'):
		return ['chain({S}) == "file"', 'smode({S}) == "rt"']
	if comp == 'gzip':
		return [f'chain({{S}}) == "{t}gzip>file"']
	return [f'implies(isgz(self.path), chain({{S}}) == "{t}gzip>file")', f'implies(not isgz(self.path), chain({{S}}) == "{t}file")']


def register_seqfile(reg, comp):
	reg.contract(SQ + 'SequenceFile.open', inline=True,
		ensures=['spath(result) == self.path'] + [c.format(S='result') for c in _chain_for(comp)])
	reg.contract(SQ + 'SequenceFile.parse',
		# the records are parsed, in the file's own format, from the stream opened over the file's own path, and that same stream is the one closed later
		ensures=['spath(result.fobj) == self.path', 'sstream(result.iterator) is result.fobj', 'sformat(result.iterator) == self.format',
		         'chain(result.iterator) == "records>" + chain(result.fobj)'] + [c.format(S='result.fobj') for c in _chain_for(comp)])


# ---- calc_file_signature: the records of the file, in file order, every record's sequence ---------------------------------
TSeqRecord = TObj('SeqRecord')
TSeqRecord.field('seq', TArr(None, 'Seq'))
RECS = TSeq(TSeqRecord)


def _parse_result(eng, st, env):
	"""what SequenceFile.parse returns, seen from a caller: a context manager / iterator over THE records of that file"""
	return ExtObj('file', enter=st.ghosts['_const_records'], kind2='records_cm')


def fresh_records(st):
	recs = RECS.fresh('records')
	st.assume(recs.length >= 0)
	j = z3.Int(fresh_name('j'))
	e = TArr(None, 'Seq').wrap(TSeqRecord.fields['seq'][0](z3.Select(recs.arr, j)))
	k = z3.Int(fresh_name('k'))
	st.assume(z3.ForAll([j], z3.And(e.length >= 0, z3.ForAll([k], z3.And(z3.Select(e.arr, k) >= 0, z3.Select(e.arr, k) <= 255)))))
	return recs


def records_of(pe, seqfile):
	return pe.st.ghosts['_const_records']


NS['records_of'] = records_of


def register_calc_file(reg):
	from .kmers_calc import KSpecT, CA
	reg.contract(SQ + 'SequenceFile.parse', returns=_parse_result,
		note='caller view: a closing iterator over the records Bio.SeqIO parses from the file (verified separately against the stream model)')
	# caller view of calc_signature: the clauses C01 verifies, minus the dtype bookkeeping (a subset, hence also verified)
	import copy
	c = copy.copy(reg.contracts[CA + 'calc_signature'])
	c.ensures = [e for e in c.ensures if 'dtype' not in e]

	def _sig_array(eng, st, env):
		v = SArr(z3.Const(fresh_name('sig'), IntArr), z3.Int(fresh_name('sig_len')), 0, None, 'ndarray')
		st.assume(v.length >= 0)
		r = Ref('ndarray')
		st.heap[r.addr] = v
		return r
	c.returns = _sig_array
	reg.contracts[CA + 'calc_signature'] = c
	R = 'records_of(seqfile)'
	reg.contract(CA + 'calc_file_signature',
		types={'kspec': KSpecT(), 'seqfile': SeqFileT('auto'), 'accumulator': Const(None)},
		requires=['wf_kspec(kspec)', f'forall(i, 0 <= i, i < len({R}), len({R}[i].seq) < 2**31)'],
		may_raise=['UnicodeEncodeError'],
		# every record of the file, each searched on its own: the result is the sorted duplicate-free union of the records' signatures
		ensures=['sorted_unique(result)',
		         f'forall(j, 0 <= j, j < len(result), exists(i, 0 <= i, i < len({R}), sig(kspec, {R}[i].seq, result[j])))',
		         f'forall(x, forall(i, 0 <= i, i < len({R}), implies(sig(kspec, {R}[i].seq, x), exists(j, 0 <= j, j < len(result), result[j] == x))))'])


# ---- ClosingIterator: the context manager must never swallow an exception raised while reading (C13: "the whole call fails") ----
class ClosingT(TypeSpec):
	def make(self, name, st, eng):
		f = ExtObj('file', path=TStr.fresh(name + '_path'), mode='rt', enter=None, closed=[False], kw={}, chain='file')
		return Rec(IO + 'ClosingIterator', fobj=Const(f), iterator=Const(ExtObj('records', stream=f, format='fasta', chain='records>file'))).make(name, st, eng)


def register_closing(reg):
	reg.contract(IO + 'ClosingIterator.close', types={'self': ClosingT()}, ensures=['isnone(result)'])
	reg.contract(IO + 'ClosingIterator.__exit__', types={'self': ClosingT(), 'args': ()},
		ensures=['isnone(result) or result == False'], note='a true return value would suppress the exception raised inside the with block')
	reg.contract(IO + 'ClosingIterator.__enter__', types={'self': ClosingT()}, ensures=['result is self'])
