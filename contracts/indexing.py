"""Contracts for src/gambit/util/indexing.py and the sequence hooks of src/gambit/sigs/base.py (C20).

AdvancedIndexingMixin is verified against an abstract sequence: clen(self) items ITEM(self, i); the hooks a subclass must
provide get abstract contracts (stated pointwise), and the real hooks of SignatureList / ConcatenatedSignatureArray are
verified to refine them."""
import z3
from pyvc.contracts import *
from pyvc.values import *
from pyvc.ops import *
from pyvc.libspec.np import NdArr, DType
from .specns import NS

IX = 'gambit.util.indexing.AdvancedIndexingMixin.'
TColl = TObj('CollV')       # result collections (opaque)
TItemV = TObj('ItemV')      # items (opaque)
CLEN = z3.Function('clen', I, I)                       # length of the abstract sequence held by object id
ITEM = z3.Function('ITEM', I, I, TItemV.sort)          # i-th item of object id
rlen = z3.Function('rlen', TColl.sort, I)
ritem = z3.Function('ritem', TColl.sort, I, TItemV.sort)


def _oid(pe, self):
	return int_term(pe.attr(self, '_oid'))


def clen(pe, self):
	return SInt(CLEN(_oid(pe, self)))


def item(pe, self, i):
	return SObj(TItemV, ITEM(_oid(pe, self), int_term(i)))


def sp_rlen(pe, r):
	return SInt(rlen(r.term))


def sp_ritem(pe, r, j):
	return SObj(TItemV, ritem(r.term, int_term(j)))


def norm(pe, self, i):
	"""Python's index normalisation: i + len for negative i"""
	n = CLEN(_oid(pe, self))
	i = int_term(i)
	return SInt(z3.If(i < 0, i + n, i))


def sel_count(pe, start, stop, step):
	"""len(range(start, stop, step))"""
	a, b, s = int_term(start), int_term(stop), int_term(step)
	return SInt(z3.If(s > 0, z3.If(b > a, (b - a + s - 1) / s, 0), z3.If(a > b, (a - b + (-s) - 1) / (-s), 0)))


for _n, _f in (('clen', clen), ('item', item), ('rlen', sp_rlen), ('ritem', sp_ritem), ('norm', norm), ('sel_count', sel_count)):
	NS[_n] = _f

MIX = 'gambit.util.indexing.AdvancedIndexingMixin'
Self = Rec(MIX, _oid=Int)
Coll = Obj('CollV')


def register(reg):
	reg.contract(IX + '__len__', types={'self': Self}, ensures=['result == clen(self)', 'result >= 0', 'result < 2**63'], returns=Int, trusted=True,
		note='abstract: supplied by the subclass')
	reg.contract(IX + '_check_index', types={'self': Self, 'i': Int},
		raises={'IndexError': 'not (0 <= norm(self, i) and norm(self, i) < clen(self))'},
		ensures=['result == norm(self, i)'], returns=Int)
	reg.contract(IX + '_getitem_int', types={'self': Self, 'i': Int}, requires=['0 <= i', 'i < clen(self)'],
		ensures=['result == item(self, i)'], returns=Obj('ItemV'), trusted=True, note='abstract hook (refined by the subclasses below)')
	reg.contract(IX + '_getitem_int_array', types={'self': Self},
		requires=['forall(j, 0 <= j, j < len(index), 0 <= index[j] and index[j] < clen(self))'],
		ensures=['rlen(result) == len(index)', 'forall(j, 0 <= j, j < len(index), ritem(result, j) == item(self, index[j]))'],
		returns=Coll, trusted=True, note='abstract hook')
	reg.contract(IX + '_getitem_slice', types={'self': Self},
		requires=['isnone(index.step) or index.step != 0'],
		ensures=['exists_sel(self, index, result)'], returns=Coll)
	reg.contract(IX + '_getitem_bool_array', types={'self': Self},
		requires=['len(index) == clen(self)'],
		ensures=['mask_sel(self, index, result)'], returns=Coll)


def exists_sel(pe, self, index, result):
	"""result holds exactly the items range(*index.indices(len)) selects, in that order"""
	oid = _oid(pe, self)
	n = CLEN(oid)
	step = z3.IntVal(1) if index.step is None else int_term(index.step)
	neg = step < 0

	def adj(v, dpos, dneg):
		if v is None:
			return z3.If(neg, dneg, dpos)
		t = int_term(v)
		t = z3.If(t < 0, t + n, t)
		return z3.If(neg, z3.If(t < -1, -1, z3.If(t > n - 1, n - 1, t)), z3.If(t < 0, 0, z3.If(t > n, n, t)))
	start = adj(index.start, z3.IntVal(0), n - 1)
	stop = adj(index.stop, n, z3.IntVal(-1))
	cnt = z3.If(step > 0, z3.If(stop > start, (stop - start + step - 1) / step, 0), z3.If(start > stop, (start - stop + (-step) - 1) / (-step), 0))
	j = z3.Int(fresh_name('j'))
	return SBool(z3.And(rlen(result.term) == cnt,
		z3.ForAll([j], z3.Implies(z3.And(0 <= j, j < cnt), ritem(result.term, j) == ITEM(oid, start + j * step)))))


def mask_sel(pe, self, index, result):
	"""result holds the items at the non-zero positions of the mask, in increasing position order
	(positions = flatnz(mask): strictly increasing, exactly the non-zero positions)"""
	from pyvc.libspec.np import flatnz
	oid = _oid(pe, self)
	index = index if isinstance(index, SArr) else pe.deref(index)
	nz, char = flatnz(index)
	j = z3.Int(fresh_name('j'))
	return SBool(z3.And(rlen(result.term) == nz.length,
		z3.ForAll([j], z3.Implies(z3.And(0 <= j, j < nz.length), ritem(result.term, j) == ITEM(oid, nz.at(j))))))


NS['exists_sel'] = exists_sel
NS['mask_sel'] = mask_sel


def register_getitem(reg):
	ITEMS = ('rlen(result) == len(index) and forall(j, 0 <= j, j < len(index), ritem(result, j) == item(self, norm(self, index[j])))')
	OOB = 'exists(j, 0 <= j, j < len(index), not (0 <= norm(self, index[j]) and norm(self, index[j]) < clen(self)))'
	reg.contract(IX + '__getitem__',
		types={'self': Self},
		ensures=['getitem_post(self, index, old(index), result)'],
		raises={'IndexError': 'getitem_raises(self, index, "IndexError")', 'TypeError': 'getitem_raises(self, index, "TypeError")',
		        'ValueError': 'getitem_raises(self, index, "ValueError")'},
		loops={1: invariant('0 <= _i1 <= len(__it1)', 'forall(j, 0 <= j, j < _i1, 0 <= norm(self, index[j]) and norm(self, index[j]) < clen(self))',
		                    decreases='len(__it1) - _i1')},
	)


def _kind(pe, index):
	from pyvc.libspec.core import value_kind
	return value_kind(pe.st, index)


def getitem_raises(pe, self, index, exc):
	"""when sequence[index] raises, by the kind of index (list/NumPy rules)"""
	from pyvc.libspec.np import dtype_of
	n = CLEN(_oid(pe, self))
	iv = pe.deref(index) if isinstance(index, Ref) else index
	if is_intlike(iv):
		i = int_term(iv)
		nm = z3.If(i < 0, i + n, i)
		return SBool(z3.Not(z3.And(0 <= nm, nm < n))) if exc == 'IndexError' else False
	if isinstance(iv, SSlice):
		fields = [iv.start, iv.stop, iv.step]
		bad = any(f is not None and not is_intlike(f) for f in fields)
		if exc == 'TypeError':
			return bad
		if exc == 'ValueError':
			return (not bad) and iv.step is not None and wrap_bool(simp(int_term(iv.step) == 0))
		return False
	if isinstance(iv, (SArr, SSeq, list)):
		if isinstance(iv, list):
			return False if exc != 'IndexError' else (len(iv) != 0)
		if exc != 'IndexError':
			return False
		kind = dtype_of(iv).kind if isinstance(iv, SArr) else 'i'
		if kind == 'b':
			return SBool(iv.length != n)
		if kind in 'iu':
			j = z3.Int(fresh_name('j'))
			x = z3.Select(iv.arr, (iv.off + j) if isinstance(iv, SArr) else j)
			nm = z3.If(x < 0, x + n, x)
			big = z3.BoolVal(False) if isinstance(iv, SArr) else z3.Or(x < -(1 << 63), x >= (1 << 63))
			return SBool(z3.Exists([j], z3.And(0 <= j, j < iv.length, z3.Or(z3.Not(z3.And(0 <= nm, nm < n)), big))))
		return True
	raise Unsupported(f'getitem_raises for {iv!r}')


def getitem_post(pe, self, index, old_index, result):
	"""what sequence[index] returns, by the kind of index; the caller's index array is unchanged"""
	from pyvc.libspec.np import dtype_of
	oid = _oid(pe, self)
	n = CLEN(oid)
	iv = pe.deref(index) if isinstance(index, Ref) else index
	if is_intlike(iv):
		i = int_term(iv)
		return SBool(result.term == ITEM(oid, z3.If(i < 0, i + n, i)))
	if isinstance(iv, SSlice):
		return exists_sel(pe, self, iv, result)
	if isinstance(iv, list) and not iv:
		return SBool(rlen(result.term) == 0)
	if isinstance(iv, (SArr, SSeq)):
		kind = dtype_of(iv).kind if isinstance(iv, SArr) else 'i'
		ov = pe.deref(old_index) if isinstance(old_index, Ref) else old_index
		same = z3.BoolVal(True)
		if isinstance(iv, SArr):
			same = z3.And(iv.length == ov.length, iv.arr == ov.arr)     # the caller's array is left unmodified
		if kind == 'b':
			return SBool(z3.And(same, truth(mask_sel(pe, self, iv, result))))
		j = z3.Int(fresh_name('j'))
		x = z3.Select(iv.arr, (iv.off + j) if isinstance(iv, SArr) else j)
		return SBool(z3.And(same, rlen(result.term) == iv.length,
			z3.ForAll([j], z3.Implies(z3.And(0 <= j, j < iv.length), ritem(result.term, j) == ITEM(oid, z3.If(x < 0, x + n, x))))))
	raise Unsupported(f'getitem_post for {iv!r}')


NS['getitem_raises'] = getitem_raises
NS['getitem_post'] = getitem_post



class SliceT(TypeSpec):
	def __init__(self, a, b, c):
		self.parts = (a, b, c)

	def make(self, name, st, eng):
		return SSlice(*[p.make(f'{name}.{k}', st, eng) for p, k in zip(self.parts, ('start', 'stop', 'step'))])


class _EmptyList(TypeSpec):
	def make(self, name, st, eng):
		r = Ref('list')
		st.heap[r.addr] = []
		return r


EMPTY = None


# ---- the concrete hooks (refinement of the abstract sequence) -----------------------------------------------------------
SB = 'gambit.sigs.base.'
SigT = TArr(None, 'ndarray')


class SigListT(TypeSpec):
	def make(self, name, st, eng):
		return Rec(SB + 'SignatureList', _list=SeqOf(TSpec(SigT), ref=True), kmerspec=Obj('KmerSpecV', nonnull=False), dtype=Const(DType('u', 2))).make(name, st, eng)


class ConcatT(TypeSpec):
	def make(self, name, st, eng):
		return Rec(SB + 'SignatureArray', values=NdArr('u2'), bounds=NdArr('i8'), kmerspec=Obj('KmerSpecV', nonnull=False)).make(name, st, eng)


def wf_concat(pe, self):
	"""representation invariant: at least one bound, bounds[0] >= 0, non-decreasing, last bound within values"""
	v, b = pe.deref(pe.attr(self, 'values')), pe.deref(pe.attr(self, 'bounds'))
	p, q = z3.Int(fresh_name('p')), z3.Int(fresh_name('q'))
	return SBool(z3.And(b.length >= 1, b.at(0) >= 0, b.at(b.length - 1) <= v.length,
		z3.ForAll([p, q], z3.Implies(z3.And(0 <= p, p <= q, q < b.length), b.at(p) <= b.at(q)))))


def same_sig(pe, a, b):
	"""the same signature: same length and elements"""
	a = a if isinstance(a, SArr) else pe.deref(a)
	b = b if isinstance(b, SArr) else pe.deref(b)
	j = z3.Int(fresh_name('j'))
	return SBool(z3.And(a.length == b.length, z3.ForAll([j], z3.Implies(z3.And(0 <= j, j < a.length), a.at(j) == b.at(j)))))


def concat_view(pe, self, i):
	"""values[bounds[i] : bounds[i+1]]"""
	v, b = pe.deref(pe.attr(self, 'values')), pe.deref(pe.attr(self, 'bounds'))
	i = int_term(i)
	return v.sub(b.at(i), b.at(i + 1))


NS['wf_concat'] = wf_concat
NS['same_sig'] = same_sig
NS['concat_view'] = concat_view


def register_hooks(reg):
	L = SB + 'SignatureList.'
	reg.contract(L + '__len__', types={'self': SigListT()}, ensures=['result == len(self._list)'], returns=Int)
	reg.contract(L + '_getitem_int', types={'self': SigListT(), 'i': Int}, requires=['0 <= i', 'i < len(self._list)'],
		ensures=['same_sig(result, self._list[i])'])
	reg.contract(L + '__setitem__', types={'self': SigListT(), 'i': Int, 'sig': TSpec(SigT)},
		raises={'IndexError': 'not (-len(self._list) <= i and i < len(self._list))'}, writes=['self'],
		ensures=['len(self._list) == old(len(self._list))',
		         'forall(j, 0 <= j, j < len(self._list), same_sig(self._list[j], sig) if j == (i + len(self._list) if i < 0 else i) else same_sig(self._list[j], old(self._list[j])))'])
	C = SB + 'ConcatenatedSignatureArray.'
	reg.contract(C + '__len__', types={'self': ConcatT()}, requires=['wf_concat(self)'], ensures=['result == len(self.bounds) - 1', 'result >= 0'], returns=Int)
	reg.contract(C + '_getitem_int', types={'self': ConcatT(), 'i': Int}, requires=['wf_concat(self)', '0 <= i', 'i < len(self.bounds) - 1'],
		ensures=['same_sig(result, concat_view(self, i))'])
