"""Contracts for src/gambit/results.py (C11)."""
import z3
from pyvc.contracts import *
from pyvc.values import *
from pyvc.ops import *
from pyvc.interp import ExtObj
from .specns import NS
from .taxonomy import Taxon, OptTaxon, Genome, TTaxon, TGenome, CL, QR

RS = 'gambit.results.'
HEADER = ['query', 'predicted.name', 'predicted.rank', 'predicted.ncbi_id', 'predicted.threshold', 'closest.distance', 'closest.description',
          'next.name', 'next.rank', 'next.ncbi_id', 'next.threshold']

GMr = Rec(CL + 'GenomeMatch', genome=Genome, distance=Real, matched_taxon=OptTaxon)


class ItemT(TypeSpec):
	def make(self, name, st, eng):
		cr = Rec(CL + 'ClassifierResult', closest_match=GMr, next_taxon=OptTaxon, predicted_taxon=OptTaxon, success=Bool)
		return Rec(QR + 'QueryResultItem', input=Rec(QR + 'QueryInput', label=Str, file=Const(None)), classifier_result=cr, report_taxon=OptTaxon,
		           closest_genomes=SeqOf(TSpec(TObj('GenomeMatchV')), ref=True)).make(name, st, eng)


def tfield(pe, t, f):
	"""field f of taxon t, or None when t is None (an empty CSV cell)"""
	from .taxonomy import NONE_T
	if t is None:
		return None
	return t.getattr(f)


def cell_is(pe, cell, t, f):
	"""the CSV cell equals attribute f of taxon t; it is None (empty) when the taxon is absent"""
	from .taxonomy import NONE_T
	none_t = t.term == NONE_T
	v = t.getattr(f)
	if cell is None:
		return SBool(none_t)
	return SBool(z3.And(z3.Not(none_t), bool_term(values_equal(cell, v))))


NS['cell_is'] = cell_is


def register(reg):
	reg.contract(RS + 'getattr_nested', inline=True)
	reg.contract(RS + 'CSVResultsExporter.get_header', types={'self': Rec(RS + 'CSVResultsExporter')},
		ensures=['result == ' + repr(HEADER)])
	cols = ['result[0] == item.input.label']
	for i, f in enumerate(('name', 'rank', 'ncbi_id', 'distance_threshold')):
		cols.append(f'cell_is(result[{1 + i}], item.report_taxon, "{f}")')
	cols.append('result[5] == item.classifier_result.closest_match.distance')
	cols.append('result[6] == item.classifier_result.closest_match.genome.description')
	for i, f in enumerate(('name', 'rank', 'ncbi_id', 'distance_threshold')):
		cols.append(f'cell_is(result[{7 + i}], item.classifier_result.next_taxon, "{f}")')
	reg.contract(RS + 'CSVResultsExporter.get_row', types={'self': Rec(RS + 'CSVResultsExporter'), 'item': ItemT()},
		ensures=['len(result) == 11'] + cols)
	reg.contract(RS + 'JSONResultsExporter._item_to_json', types={'self': Rec(RS + 'JSONResultsExporter'), 'item': ItemT()},
		ensures=['len(result) == 4', 'result["query"] is item.input', 'result["predicted_taxon"] == item.report_taxon',
		         'result["next_taxon"] == item.classifier_result.next_taxon', 'result["closest_genomes"] is item.closest_genomes'])
	reg.contract(RS + '_todict', inline=True)
	for cls, fn, T, fields in (('JSONResultsExporter', '_taxon_to_json', Taxon, ['id', 'key', 'name', 'ncbi_id', 'rank', 'distance_threshold']),
	                           ('ResultsArchiveWriter', '_taxon_to_json', Taxon, ['key'])):
		reg.contract(RS + f'{cls}.{fn}', types={'self': Rec(RS + cls), 'taxon': T},
			ensures=[f'len(result) == {len(fields)}'] + [f'result["{f}"] == taxon.{f}' for f in fields])
	GF = ['key', 'description', 'organism', 'ncbi_db', 'ncbi_id', 'genbank_acc', 'refseq_acc']
	reg.contract(RS + 'JSONResultsExporter._genome_to_json', types={'self': Rec(RS + 'JSONResultsExporter'), 'genome': Genome},
		axioms=['forest', 'midx'],
		requires=['not isnone(genome.taxon)'],
		# the lineage written for a genome is THAT genome's taxon and all of its ancestors, bottom to top, as they are NOW
		ensures=[f'len(result) == {len(GF) + 2}'] + [f'result["{f}"] == genome.{f}' for f in GF] + ['result["id"] == genome.genome_id',
		         'len(result["taxonomy"]) == depth(genome.taxon) + 1',
		         'forall(j, 0 <= j, j < len(result["taxonomy"]), result["taxonomy"][j] == anc(genome.taxon, j))'])
	reg.contract(RS + 'ResultsArchiveWriter._genome_to_json', types={'self': Rec(RS + 'ResultsArchiveWriter'), 'genome': Genome},
		ensures=['len(result) == 1', 'result["key"] == genome.key'])


# ---- CSV export: row order and the quoting contract of the csv module ---------------------------------------------------
TRowV = TObj('RowV')
ROWOF = z3.Function('row_of', TObj('ItemV11').sort, TRowV.sort)     # THE row get_row builds for an item
HDRROW = z3.Const('header_row', TRowV.sort)


def row_of(pe, item):
	return SObj(TRowV, ROWOF(item.term))


def hdr_row(pe):
	return SObj(TRowV, HDRROW)


NS['row_of'] = row_of
NS['hdr_row'] = hdr_row


class ExporterT(TypeSpec):
	def make(self, name, st, eng):
		d = Ref('dict')
		st.heap[d.addr] = {'lineterminator': '\n', 'quoting': 0}     # what __init__ sets up (verified by its own contract)
		return Rec(RS + 'CSVResultsExporter', format_opts=Const(d)).make(name, st, eng)


def register_export(reg):
	reg.contract(RS + 'CSVResultsExporter.__init__', types={'self': Rec(RS + 'CSVResultsExporter')},
		ensures=['self.format_opts["lineterminator"] == "\\n"', 'self.format_opts["quoting"] == 0', 'len(self.format_opts) == 2'])
	reg.contract(RS + 'CSVResultsExporter.get_header', returns=Const(SObj(TRowV, HDRROW)))
	reg.contract(RS + 'CSVResultsExporter.get_row', returns=Obj('RowV'), ensures=['result == row_of(item)'])
	reg.contract(RS + 'CSVResultsExporter.export',
		types={'self': ExporterT(), 'file_or_path': Str, 'results': Rec(QR + 'QueryResults', items=SeqOf(Obj('ItemV11'), ref=True))},
		ensures=['len(rows11) == 1 + len(results.items)', 'rows11[0] == hdr_row()',
		         'forall(i, 0 <= i, i < len(results.items), rows11[i + 1] == row_of(results.items[i]))'],
		loops={0: invariant('0 <= _i0 <= len(__it0)', 'len(rows11) == 1 + _i0', 'rows11[0] == hdr_row()',
		                    'forall(i, 0 <= i, i < _i0, rows11[i + 1] == row_of(results.items[i]))', decreases='len(__it0) - _i0')},
	)
