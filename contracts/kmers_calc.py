"""Contracts for src/gambit/kmers.py and src/gambit/sigs/calc.py (C01, C06, C13)."""
from pyvc.contracts import *
from pyvc.values import TRec, TInt, TBool
from pyvc.libspec.np import DType, NdArr
from .py_seq import SEQ_INSTANCES

KM = 'gambit.kmers.'
CA = 'gambit.sigs.calc.'


class KSpecT(TypeSpec):
	"""a KmerSpec instance (heap record); its class invariant wf_kspec goes into requires"""

	def make(self, name, st, eng):
		return Rec(KM + 'KmerSpec', k=Int, prefix=Arr('bytes'), prefix_len=Int, total_len=Int, nkmers=Int,
		           prefix_str=Arr('str', lo=0, hi=127), index_dtype=Const(None)).make(name, st, eng)


def match_type(env):
	return TRec('KmerMatch', KM + 'KmerMatch', {'pos': TInt, 'reverse': TBool},
	            consts={'kmerspec': env['kmerspec'], 'seq': env['seq']})


class MatchT(TypeSpec):
	def __init__(self, seq):
		self.seq = seq

	def make(self, name, st, eng):
		return Rec(KM + 'KmerMatch', kmerspec=KSpecT(), seq=self.seq, pos=Int, reverse=Bool).make(name, st, eng)


class AccT(TypeSpec):
	def __init__(self, kind, dt):
		self.kind, self.dt = kind, DType('u', dt)

	def make(self, name, st, eng):
		if self.kind == 'array':
			return Rec(CA + 'ArrayAccumulator', k=Int, array=NdArr('b1'), _dtype=Const(self.dt)).make(name, st, eng)
		from pyvc.values import SSet, Ref, fresh_name, I, B
		import z3
		r = Ref('set')
		st.heap[r.addr] = SSet(z3.Const(fresh_name('set'), z3.ArraySort(I, B)))
		return Rec(CA + 'SetAccumulator', k=Int, set=Const(r), _dtype=Const(self.dt)).make(name, st, eng)


def _sig_result(eng, st, env):
	from pyvc.libspec.np import mk_ndarray
	return mk_ndarray(st, 'sig', st.deref(env['self']).fields['_dtype'])


UNICODE = {'UnicodeEncodeError': 'iskind(seq, "str") and exists(j, 0 <= j, j < len(seq), seq[j] > 127)'}
UNICODE_SELF = {'UnicodeEncodeError': 'iskind(self.seq, "str") and exists(j, 0 <= j, j < len(self.seq), self.seq[j] > 127)'}


def register(reg):
	reg.inline.add(KM + 'nkmers')
	reg.contract(KM + 'nkmers', types={'k': Int}, requires=['0 <= k <= 32'], ensures=['result == pow4(k)'], inline=True)
	reg.contract(KM + 'index_dtype', types={'k': Int}, requires=['k >= 1'], ensures=['is_index_dtype(result, k)'], inline=True)
	reg.contract(KM + 'KmerSpec.__init__',
		types={'self': Rec(KM + 'KmerSpec'), 'k': Int},
		requires=['k <= 32', 'len(prefix) < 2**31'],
		raises={'ValueError': 'k < 1 or exists(j, 0 <= j, j < len(prefix), not isnuc(prefix[j]))',
		        'UnicodeEncodeError': 'iskind(prefix, "str") and exists(j, 0 <= j, j < len(prefix), prefix[j] > 127)'},
		ensures=['self.k == k', 'len(self.prefix) == len(prefix)',
		         'forall(j, 0 <= j, j < len(prefix), self.prefix[j] == up(prefix[j]))',
		         'implies(len(prefix) >= 1, wf_kspec(self))',
		         'is_index_dtype(self.index_dtype, k)'],
		axioms=['uparr'],
	)
	reg.contract(KM + 'KmerMatch.kmer_indices',
		types={'self': MatchT(Arr('bytes'))},
		ensures=['isnone(result.step)',
		         'ite(self.reverse, result.start == self.pos - self.kmerspec.total_len + 1 and result.stop == self.pos - self.kmerspec.prefix_len + 1,'
		         ' result.start == self.pos + self.kmerspec.prefix_len and result.stop == self.pos + self.kmerspec.total_len)'],
		inline=True,
	)
	reg.contract(KM + 'KmerMatch.kmer_index',
		requires=['wf_kspec(self.kmerspec)', 'match_wf(self.kmerspec, self.seq, self.pos, self.reverse)',
		          'not (iskind(self.seq, "str") and exists(j, 0 <= j, j < len(self.seq), self.seq[j] > 127))'],
		raises=dict(ValueError='not kvalid(self.kmerspec, self.seq, self.pos, self.reverse)'),
		lemmas=['reveal_k(self.kmerspec, self.seq, self.pos, self.reverse)'],   # definitions of the two spec functions
		ensures=['result == kindex(self.kmerspec, self.seq, self.pos, self.reverse)',
		         '0 <= result < pow4(self.kmerspec.k)'],
		returns=Int,
	)
	reg.contract(KM + 'find_kmers',
		types={'kmerspec': KSpecT()},
		requires=['wf_kspec(kmerspec)', 'len(seq) < 2**31'],
		raises=UNICODE,
		yields=match_type,
		ensures=[
			'forall(j, 0 <= j, j < len(Y), match_wf(kmerspec, seq, Y[j].pos, Y[j].reverse))',
			'forall(j, 0 <= j, j < len(Y), ite(Y[j].reverse, rev(kmerspec, seq, Y[j].pos - kmerspec.prefix_len + 1), fwd(kmerspec, seq, Y[j].pos)))',
			'forall(p, fwd(kmerspec, seq, p), exists(j, 0 <= j, j < len(Y), not Y[j].reverse and Y[j].pos == p))',
			'forall(q, rev(kmerspec, seq, q), exists(j, 0 <= j, j < len(Y), Y[j].reverse and Y[j].pos == q + kmerspec.prefix_len - 1))',
		],
		loops={
			0: invariant('0 <= _i0 <= len(haystack)', 'no_lower_nuc(haystack, _i0)', 'same_bytes(haystack, seq)',
			             decreases='len(haystack) - _i0'),
			1: invariant(
				'start >= 0',
				'forall(j, 0 <= j, j < len(Y), not Y[j].reverse and fwdh(kmerspec, haystack, Y[j].pos) and Y[j].pos < start)',
				'forall(p, 0 <= p, p < start, fwdh(kmerspec, haystack, p), exists(j, 0 <= j, j < len(Y), Y[j].pos == p))',
				decreases='len(haystack) + 1 - start'),
			2: invariant(
				'start >= kmerspec.k',
				'forall(j, 0 <= j, j < len(Y), not Y[j].reverse, fwdh(kmerspec, haystack, Y[j].pos))',
				'forall(p, fwdh(kmerspec, haystack, p), exists(j, 0 <= j, j < len(Y), not Y[j].reverse and Y[j].pos == p))',
				'forall(j, 0 <= j, j < len(Y), Y[j].reverse, revh(kmerspec, haystack, prefix_rc, Y[j].pos - kmerspec.prefix_len + 1) and Y[j].pos - kmerspec.prefix_len + 1 < start)',
				'forall(q, kmerspec.k <= q, q < start, revh(kmerspec, haystack, prefix_rc, q), exists(j, 0 <= j, j < len(Y), Y[j].reverse and Y[j].pos == q + kmerspec.prefix_len - 1))',
				decreases='len(haystack) + 1 - start'),
		},
		after_loop={0: ['lemma:hay_equiv_lemma(kmerspec, haystack, seq)', 'hay_equiv(kmerspec, haystack, seq)']},
		before_loop={2: ['lemma:rc_equiv_lemma(kmerspec, haystack, prefix_rc)', 'rc_equiv(kmerspec, haystack, prefix_rc)']},
	)
	HIT = 'kvalid(kmerspec, seq, __it0[j].pos, __it0[j].reverse) and x == kindex(kmerspec, seq, __it0[j].pos, __it0[j].reverse)'
	reg.contract(CA + 'accumulate_kmers',
		types={'kmerspec': KSpecT()},
		requires=['wf_kspec(kmerspec)', 'wf_acc(accumulator)', 'accumulator.k == kmerspec.k', 'len(seq) < 2**31'],
		raises=UNICODE,
		writes=['accumulator'],
		ensures=['wf_acc(accumulator)', 'accumulator.k == old(accumulator.k)',
		         # nothing but old members and signature members is present ...
		         'forall(x, acchas(accumulator, x), old(acchas(accumulator, x)) or sig(kmerspec, seq, x))',
		         # ... and all of them are
		         'forall(x, old(acchas(accumulator, x)), acchas(accumulator, x))',
		         'forall(x, sig(kmerspec, seq, x), acchas(accumulator, x))'],
		loops={0: invariant(
			'0 <= _i0 <= len(__it0)',
			'wf_acc(accumulator)', 'accumulator.k == kmerspec.k',
			'forall(x, acchas(accumulator, x), old(acchas(accumulator, x)) or exists(j, 0 <= j, j < _i0, ' + HIT + '))',
			'forall(x, old(acchas(accumulator, x)), acchas(accumulator, x))',
			'forall(j, 0 <= j, j < _i0, kvalid(kmerspec, seq, __it0[j].pos, __it0[j].reverse), '
			'acchas(accumulator, kindex(kmerspec, seq, __it0[j].pos, __it0[j].reverse)))',
			decreases='len(__it0) - _i0')},
	)
	reg.contract(CA + 'default_accumulator', types={'k': Int}, requires=['1 <= k <= 32'],
		ensures=['wf_acc(result)', 'result.k == k', 'forall(x, not acchas(result, x))', 'is_index_dtype(result._dtype, k)'], inline=True)
	reg.contract(CA + 'calc_signature',
		types={'kmerspec': KSpecT()},
		requires=['wf_kspec(kmerspec)', 'all_short(seqs)',
		          'implies(not isnone(accumulator), wf_acc(accumulator) and accumulator.k == kmerspec.k)'],
		may_raise=['UnicodeEncodeError'],
		writes=['accumulator'],
		ensures=['sorted_unique(result)',
		         'result_dtype_ok(result, accumulator, kmerspec.k)',
		         'forall(j, 0 <= j, j < len(result), old(acchas(accumulator, result[j])) or sigany(kmerspec, seqs, result[j]))',
		         'forall(x, old(acchas(accumulator, x)), exists(j, 0 <= j, j < len(result), result[j] == x))',
		         'forall(x, sigany(kmerspec, seqs, x), exists(j, 0 <= j, j < len(result), result[j] == x))'],
		loops={0: invariant(
			'0 <= _i0 <= len(__it0)',
			'wf_acc(accumulator)', 'accumulator.k == kmerspec.k',
			'forall(x, acchas(accumulator, x), old(acchas(accumulator, x)) or sigany(kmerspec, seqs, x, _i0))',
			'forall(x, old(acchas(accumulator, x)), acchas(accumulator, x))',
			'forall(x, sigany(kmerspec, seqs, x, _i0), acchas(accumulator, x))',
			decreases='len(__it0) - _i0')},
	)
	for cls in ('ArrayAccumulator', 'SetAccumulator'):
		reg.contract(CA + cls + '.__init__',
			types={'self': Rec(CA + cls), 'k': Int},
			requires=['1 <= k <= 32'],
			ensures=['wf_acc(self)', 'self.k == k', 'forall(x, not acchas(self, x))', 'is_index_dtype(self._dtype, k)'],
			inline=True,
		)
		reg.contract(CA + cls + '.add',
			requires=['wf_acc(self)', '0 <= ' + ('i' if cls == 'ArrayAccumulator' else 'index'), ('i' if cls == 'ArrayAccumulator' else 'index') + ' < pow4(self.k)'],
			writes=['self'],
			ensures=['wf_acc(self)', 'self.k == old(self.k)',
			         'forall(x, acchas(self, x), old(acchas(self, x)) or x == ' + ('i' if cls == 'ArrayAccumulator' else 'index') + ')',
			         'forall(x, old(acchas(self, x)), acchas(self, x))',
			         'acchas(self, ' + ('i' if cls == 'ArrayAccumulator' else 'index') + ')'],
		)
		reg.contract(CA + cls + '.signature',
			requires=['wf_acc(self)'],
			returns=_sig_result,
			ensures=['sorted_unique(result)', 'acc_dtype_is(result, self)',
			         'forall(x, acchas(self, x), exists(j, 0 <= j, j < len(result), result[j] == x))',
			         'forall(j, 0 <= j, j < len(result), acchas(self, result[j]))'],
		)
