"""Contracts for the command functions in src/gambit/cli (C14; reused by C08/C16) and ghost-level contracts of the
things they glue together.  K-mer specs are opaque values here (KmerSpecV): equality is KmerSpec.__eq__ on (k, prefix)."""
import z3
from pyvc.contracts import *
from pyvc.values import *
from pyvc.ops import *
from pyvc.interp import ExtObj
from pyvc.libspec.conc import TKSpecV
from .specns import NS
from .calc_files import KSpecV, File

CC = 'gambit.cli.common.'
OptKS = Obj('KmerSpecV', nonnull=False)

# mkspec(k, prefix): the KmerSpec built from validated command-line values
mkspec = z3.Function('mkspec', I, IntArr, I, TKSpecV.sort)
DEFAULT = z3.Const('DEFAULT_KMERSPEC', TKSpecV.sort)


def sp_mkspec(pe, k, prefix):
	"""KmerSpec(k, prefix): prefix compared case-insensitively (it is upper-cased first)"""
	from pyvc.spec import uparr
	return SObj(TKSpecV, mkspec(int_term(k), uparr(prefix.arr), prefix.length))


def sp_default(pe):
	return SObj(TKSpecV, DEFAULT)


def was_written(pe):
	"""ghost: some result has been written (dump_dmat_csv / exporter.export / dump_signatures was reached)"""
	w = pe.st.ghosts.get('written')
	return False if w is None else w


NS['mkspec'] = sp_mkspec
NS['default_kspec'] = sp_default
NS['was_written'] = was_written

SigsT = Rec('Signatures', kmerspec=KSpecV, ids=SeqOf(Str))


class SigsSpec(TypeSpec):
	def make(self, name, st, eng):
		return SigsT.make(name, st, eng)


DBT = Rec('gambit.db.refdb.ReferenceDatabase', signatures=SigsSpec())


class CtxSpec(TypeSpec):
	def make(self, name, st, eng):
		obj = Rec(CC + 'CLIContext', signatures=SigsSpec()).make(name + '.obj', st, eng)
		return Rec('click.Context', obj=Const(obj)).make(name, st, eng)


BAD_PARAMS = ('(isnone(prefix) != isnone(k)) or (not isnone(k) and (k < 5 or len(prefix) < 2 or '
              'exists(j, 0 <= j, j < len(prefix), not isnuc(prefix[j]))))')


def register(reg):
	reg.contract(CC + 'kspec_from_params',
		types={'default': Bool},
		axioms=['uparr'],
		requires=['isnone(prefix) or forall(j, 0 <= j, j < len(prefix), prefix[j] < 128)'],
		raises={'ClickException': BAD_PARAMS},
		ensures=['implies(isnone(k), ite(default, result == default_kspec(), isnone(result)))',
		         'implies(not isnone(k), result == mkspec(k, prefix))'],
		returns=OptKS,
	)


class ArrStr(TypeSpec):
	def make(self, name, st, eng):
		return Arr('str', lo=0, hi=0x10FFFF).make(name, st, eng)

	@property
	def desc(self):
		return TArr(None, 'str')


# ---- what the commands glue together (ghost-level contracts for C14) -----------------------------------------------
DM = ExtObj('dmat')


def _sigs_of(kspec_clause):
	return SigsSpec()


def register_glue(reg):
	"""Contracts of the functions the commands call.  For C14 only the k-mer specs matter: every distance computation
	REQUIRES both sides to carry the same spec (ghost precondition = the property), every file-based computation returns
	signatures carrying the spec it was given."""
	reg.contract('gambit.sigs.base.load_signatures', types={'path': Str}, returns=SigsSpec(), trusted=True,
		note='returns the stored signatures with their stored k-mer spec (C12)')
	reg.contract(CC + 'check_params_group', may_raise=['ClickException'], trusted=True)
	reg.contract(CC + 'warn_duplicate_file_ids', trusted=True)
	reg.contract(CC + 'get_sequence_files', returns=lambda eng, st, env: (SeqOf(Str).make('ids', st, eng), SeqOf(File).make('files', st, eng)),
		ensures=['len(result[0]) == len(result[1])'], trusted=True)
	reg.contract('gambit.seq.SequenceFile.from_paths', returns=lambda eng, st, env: env['paths'],
		note='one SequenceFile per path, in order (modelled as the same abstract file values)', trusted=True)
	reg.contract('gambit.sigs.calc.calc_file_signatures',
		returns=SigsSpec(), may_raise=['Exception'],
		ensures=['result.kmerspec == kspec', 'len(result.ids) == len(files)'],
		note='C13 contract, k-mer spec part')
	reg.contract('gambit.metric.jaccarddist_matrix',
		requires=['queries.kmerspec == refs.kmerspec'],     # <- the property: never compare across parameters
		returns=Const(DM))
	reg.contract('gambit.metric.jaccarddist_pairwise', returns=Const(DM))
	reg.contract('gambit.cluster.dump_dmat_csv', hints={'sets_ghost': {'written': True}})
	reg.contract('gambit.query.query',
		requires=['queries.kmerspec == db.signatures.kmerspec'],   # <- the property
		returns=Const(ExtObj('results')), may_raise=['ValueError'])
	reg.contract(CC + 'CLIContext.get_database', returns=lambda eng, st, env: DBT.make('db', st, eng), may_raise=['ClickException'], trusted=True)
	reg.contract(CC + 'CLIContext.require_signatures', may_raise=['ClickException'], trusted=True)
	reg.contract('gambit.cli.query.get_exporter', returns=Const(ExtObj('exporter')), may_raise=['ValueError'])
	reg.contract('gambit.cli.dist.fmt_kspec', returns=Const('<kspec>'))


def register_commands(reg):
	reg.contract('gambit.query.query_parse',
		types={'db': DBT, 'files': SeqOf(File), 'params': Const(None), 'file_labels': Const(None), 'parse_kw': Const(None)},
		may_raise=['Exception'],
		returns=Const(ExtObj('results')))
	MISMATCH_DIST = ('(isnone(k) and not isnone(qs) and (not isnone(rs) or use_db) and qsigs_kspec() != rsigs_kspec())'
	                 ' or (not isnone(k) and not isnone(qs) and qsigs_kspec() != cli_kspec())'
	                 ' or (not isnone(k) and (not isnone(rs) or use_db) and rsigs_kspec() != cli_kspec())')
	reg.contract('gambit.cli.dist.dist_cmd',
		types={'ctx': CtxSpec(), 'output': Str, 'q': SeqOf(Str), 'ql': Const(None), 'qdir': Str, 'r': SeqOf(Str), 'rl': Const(None), 'rdir': Str,
		       'square': Bool, 'use_db': Bool, 'progress': Bool, 'cores': Const(None), 'dump_params': Const(False)},
		requires=['isnone(prefix) or forall(j, 0 <= j, j < len(prefix), prefix[j] < 128)'],
		may_raise=['ClickException', 'Exception'],
		ensures=['was_written()'],
		ensures_raise={'ClickException': ['not was_written()'], 'Exception': ['not was_written()']},
	)
	reg.contract('gambit.cli.query.query_cmd',
		types={'ctx': CtxSpec(), 'listfile': Const(None), 'ldir': Str, 'files_arg': SeqOf(Str), 'output': Const(ExtObj('file')), 'outfmt': Const('csv'),
		       'strict': Bool, 'progress': Bool, 'cores': Const(None)},
		may_raise=['ClickException', 'Exception', 'ValueError'],
		ensures=['was_written()'],
		ensures_raise={'ClickException': ['not was_written()'], 'Exception': ['not was_written()'], 'ValueError': ['not was_written()']},
	)
	reg.contract('gambit.cli.tree.tree_cmd',
		types={'ctx': CtxSpec(), 'listfile': Const(None), 'ldir': Str, 'files_arg': SeqOf(Str), 'progress': Bool, 'cores': Const(None)},
		may_raise=['ClickException', 'Exception'],
		ensures=['was_written()'],
	)
