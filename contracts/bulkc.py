"""Contracts for the bulk distance functions (C05): jaccarddist_matrix / jaccarddist_pairwise over the abstract model of
pyvc/libspec/bulk.py.  Cell (i, c) of the result must be THE two-signature distance DV(query i, selected reference c)."""
import z3
from pyvc.contracts import *
from pyvc.values import *
from pyvc.ops import *
from pyvc.libspec import bulk as B
from pyvc.libspec.bulk import TSig, TColl, DV, CLEN, CITEM, Mat2, RowView
from .specns import NS
from .metric import PM, UM

Sig = Obj('SigV')
Coll = Obj('SigColl')


def dv(pe, a, b):
	return SF32(DV(a.term, b.term))


def clen(pe, c):
	return SInt(CLEN(c.term))


def citem(pe, c, j):
	return SObj(TSig, CITEM(c.term, int_term(j)))


def _mat(pe, m):
	v = pe.deref(m)
	if not isinstance(v, Mat2):
		raise Unsupported(f'not a float32 output array: {v!r}')
	return v


def mcell(pe, m, i, c):
	return SF32(_mat(pe, m).cell(int_term(i), int_term(c)))


def mrows(pe, m):
	return SInt(_mat(pe, m).rows)


def mcols(pe, m):
	return SInt(_mat(pe, m).cols)


def vlen(pe, v):
	return SInt(v.hi - v.lo)


def vcell(pe, v, r):
	return SF32(pe.deref(v.base).cell(v.row, v.lo + int_term(r)))


def vlo(pe, v):
	return SInt(v.lo)


def vcol(pe, v, c):
	"""cell of the viewed row at absolute column c"""
	return SF32(pe.deref(v.base).cell(v.row, int_term(c)))


def nsel(pe, refs, idx):
	"""number of selected references: all of them without an index selection"""
	if idx is None:
		return SInt(CLEN(refs.term))
	return SInt(pe.deref(idx).length)


def sel(pe, idx, c):
	"""the reference index shown in column c"""
	if idx is None:
		return SInt(int_term(c))
	v = pe.deref(idx).at(int_term(c))
	return v if isinstance(v, SInt) else SInt(v)


NS.update(vlo=vlo, vcol=vcol, dv=dv, clen=clen, citem=citem, mcell=mcell, mrows=mrows, mcols=mcols, vlen=vlen, vcell=vcell, nsel=nsel, sel=sel)

NR = 'nsel(refs, ref_indices)'
DONE = lambda cols: f'forall((i, c), 0 <= i, i < len(queries), 0 <= c, c < {cols}, mcell(out, i, c) == dv(queries[i], citem(refs, sel(ref_indices, c))))'


def register_matrix(reg):
	from . import metric
	metric.register_bulk(reg)        # chunk_slices (verified in this property) as a callee
	reg.contract('gambit.sigs.base.AbstractSignatureArray.__len__', types={'self': Coll}, returns=Int, trusted=True,
		ensures=['result == clen(self)', 'result >= 0'], note='abstract method: the number of signatures')
	reg.contract(PM + 'jaccarddist_array',
		raises={'ValueError': 'vlen(out) != clen(refs)'},
		writes=['out'],
		ensures=['forall(c, vlo(out) <= c, c < vlo(out) + clen(refs), vcol(out, c) == dv(query, citem(refs, c - vlo(out))))', 'clen(refs) >= 0'],
		note='caller view of the contract verified on the concrete representations: cell r of the given buffer = D(query, refs[r]); nothing outside the buffer changes')
	reg.contract(PM + 'jaccarddist_matrix',
		types={'queries': SeqOf(Sig), 'refs': Coll, 'out': Const(None), 'progress': Const(None)},
		requires=['implies(not isnone(ref_indices), forall(c, 0 <= c, c < len(ref_indices), 0 <= ref_indices[c] and ref_indices[c] < clen(refs)))'],
		raises={'ValueError': 'not isnone(chunksize) and chunksize <= 0'},
		ensures=['mrows(result) == len(queries)', f'mcols(result) == {NR}',
		         f'forall((i, c), 0 <= i, i < len(queries), 0 <= c, c < {NR}, mcell(result, i, c) == dv(queries[i], citem(refs, sel(ref_indices, c))))'],
		loops={
			# outer loop over the chunks (only symbolic when chunksize is given): every column before the current chunk is complete
			0: invariant('0 <= _i0 <= len(__it0)', f'mrows(out) == len(queries) and mcols(out) == {NR}', f'nrefs == {NR}', 'nqueries == len(queries)',
			             DONE('(_i0 * chunksize if _i0 * chunksize < nrefs else nrefs)'),
			             decreases='len(__it0) - _i0'),
			# inner loop over the queries: rows before the current query are complete for the columns of this chunk
			1: invariant('0 <= _i1 <= len(queries)', f'mrows(out) == len(queries) and mcols(out) == {NR}',
			             DONE('chunk_lo(ref_slice, nrefs)'),
			             'forall((i, c), 0 <= i, i < _i1, chunk_lo(ref_slice, nrefs) <= c, c < chunk_lo(ref_slice, nrefs) + clen(ref_chunk), mcell(out, i, c) == dv(queries[i], citem(ref_chunk, c - chunk_lo(ref_slice, nrefs))))',
			             decreases='len(queries) - _i1'),
		},
	)


def chunk_lo(pe, s, n):
	"""first column of a chunk slice, clamped to the number of columns like NumPy basic slicing"""
	from pyvc.libspec.bulk import _slice_bounds
	return SInt(_slice_bounds(pe.st, s, int_term(n))[0])


NS['chunk_lo'] = chunk_lo


def fzero(pe):
	from pyvc.values import i2f
	return SF32(i2f(z3.IntVal(0)))


NS['fzero'] = fzero

PAIR = 'dv(citem(sigs, sel(indices, a)), citem(sigs, sel(indices, b)))'
NP = 'nsel(sigs, indices)'


def register_pairwise(reg):
	"""jaccarddist_pairwise, square output: cell (a, b) and its mirror (b, a) hold THE distance of signatures a < b, the diagonal is zero"""
	register_matrix(reg)
	rows_done = lambda k: f'forall((a, b), 0 <= a, a < {k}, a < b, b < {NP}, mcell(out, a, b) == {PAIR} and mcell(out, b, a) == {PAIR})'
	reg.contract(PM + 'jaccarddist_pairwise',
		types={'sigs': Coll, 'flat': Const(False), 'out': Const(None), 'progress': Const(None)},
		requires=['implies(not isnone(indices), forall(c, 0 <= c, c < len(indices), 0 <= indices[c] and indices[c] < clen(sigs)))', 'clen(sigs) < 2**63'],
		ensures=[f'mrows(result) == {NP}', f'mcols(result) == {NP}',
		         f'forall((a, b), 0 <= a, a < b, b < {NP}, mcell(result, a, b) == {PAIR})',
		         f'forall((a, b), 0 <= a, a < b, b < {NP}, mcell(result, b, a) == {PAIR})',
		         f'forall(d, 0 <= d, d < {NP}, mcell(result, d, d) == fzero())'],
		loops={
			0: invariant('0 <= _i0', '_i0 <= n - 1 or (n <= 0 and _i0 == 0)', f'mrows(out) == {NP} and mcols(out) == {NP}', f'n == {NP}',
			             f'forall(d, 0 <= d, d < {NP}, mcell(out, d, d) == fzero())',
			             rows_done('_i0'),
			             decreases='n - _i0'),
		},
	)


# ---- condensed (flat) output: row a of the upper triangle starts at poff(n, a) -----------------------------------------------
POFF = z3.Function('poff', I, I, I)


def poff(pe, n, a):
	return SInt(POFF(int_term(n), int_term(a)))


NS['poff'] = poff


def _poff_axiom():
	"""definition by recursion on the row: poff(n, 0) = 0, poff(n, a) = poff(n, a - 1) + (n - a) - row a - 1 has n - a cells"""
	n, a = z3.Ints('n a')
	return z3.And(z3.ForAll([n], POFF(n, 0) == 0, patterns=[POFF(n, 0)]),
	              z3.ForAll([n, a], z3.Implies(a >= 1, POFF(n, a) == POFF(n, a - 1) + (n - a)), patterns=[POFF(n, a)]))


import pyvc.spec as _SPEC
_SPEC.AXIOMS['poff'] = _poff_axiom


def poff_closed_form(n, a):
	"""the offset scipy.spatial.distance.squareform uses: cell (a, b), a < b, of the n x n matrix is element n*a - a(a+1)/2 + (b - a - 1)"""
	return 2 * POFF(n, a) == a * (2 * n - a - 1)


FLATCELL = 'mcell({m}, 0, poff(' + NP + ', a) + (b - a - 1))'


def register_pairwise_flat(reg):
	"""jaccarddist_pairwise(flat=True): element poff(n, a) + (b - a - 1) of the condensed vector holds THE distance of signatures a < b"""
	register_matrix(reg)
	reg.contract(PM + 'jaccarddist_pairwise',
		types={'sigs': Coll, 'flat': Const(True), 'out': Const(None), 'progress': Const(None)},
		axioms=['poff'],
		requires=['implies(not isnone(indices), forall(c, 0 <= c, c < len(indices), 0 <= indices[c] and indices[c] < clen(sigs)))', 'clen(sigs) < 2**63'],
		ensures=[f'2 * mcols(result) <= {NP} * ({NP} - 1)', f'{NP} * ({NP} - 1) < 2 * mcols(result) + 2',
		         f'forall((a, b), 0 <= a, a < b, b < {NP}, ' + FLATCELL.format(m='result') + f' == {PAIR})'],
		loops={
			0: invariant('0 <= _i0', '_i0 <= n - 1 or (n <= 0 and _i0 == 0)', f'n == {NP}', 'mcols(out) == npairs',
			             '2 * npairs <= n * (n - 1)', 'n * (n - 1) < 2 * npairs + 2',
			             'next_out == poff(n, _i0)', '2 * next_out == _i0 * (2 * n - _i0 - 1)',
			             'forall(a, 0 <= a, a < _i0, poff(n, a) + (n - a - 1) <= next_out)',
			             f'forall((a, b), 0 <= a, a < _i0, a < b, b < {NP}, ' + FLATCELL.format(m='out') + f' == {PAIR})',
			             decreases='n - _i0'),
		},
	)
