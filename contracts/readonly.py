"""Contracts for C18: the read-only session class, the session makers of the library and of the CLI, and the open mode of the
signature file (src/gambit/db/sqla.py, db/refdb.py, cli/common.py, sigs/hdf5.py)."""
import z3
from pyvc.contracts import *
from pyvc.values import *
from pyvc.ops import *
from pyvc.interp import ExtObj
from pyvc.modules import ClassRef, ExtRef
from .specns import NS

SA = 'gambit.db.sqla.'
RO = ClassRef(SA + 'ReadOnlySession')


def class_tag(pe, c):
	"""'readonly' for ReadOnlySession, 'plain' for sqlalchemy's Session, else the class itself"""
	if isinstance(c, ClassRef) and c.qualname == RO.qualname:
		return 'readonly'
	if isinstance(c, ExtRef) and c.qualname.split('.')[-1] == 'Session':
		return 'plain'
	return c


def maker_class(pe, m):
	"""the session class a session maker (or session) was built with, as a class_tag"""
	c = m.data.get('class_') if isinstance(m, ExtObj) else None
	if isinstance(c, ClassRef) and c.qualname == RO.qualname:
		return 'readonly'
	if isinstance(c, ExtRef) and c.qualname.split('.')[-1] == 'Session':
		return 'plain'
	return c


def maker_url(pe, m):
	e = m.data.get('engine') if isinstance(m, ExtObj) else None
	return e.data.get('url') if isinstance(e, ExtObj) else None


def flushed(pe):
	return pe.st.ghosts['db_flushed']


def committed(pe):
	return pe.st.ghosts['db_committed']


NS.update(class_tag=class_tag, maker_class=maker_class, maker_url=maker_url, flushed=flushed, committed=committed)


def register(reg):
	Self = Rec(SA + 'ReadOnlySession')
	reg.contract(SA + 'ReadOnlySession.flush', types={'self': Self, 'args': (), 'kwargs': {}},
		ensures=['not flushed()', 'not committed()'], note='a no-op: in particular it never reaches Session.flush')
	reg.contract(SA + 'ReadOnlySession.commit', types={'self': Self},
		raises={'TypeError': 'True'}, ensures=['not flushed()', 'not committed()'])
	reg.contract(SA + 'file_sessionmaker', types={'path': Str, 'readonly': Bool, 'kw': {}}, inline=True,
		ensures=['maker_url(result) == "sqlite:///" + path',
		         # the class is decided by the arguments of THIS call alone
		         'implies(isnone(cls) and readonly, maker_class(result) == "readonly")',
		         'implies(isnone(cls) and not readonly, maker_class(result) == "plain")',
		         'implies(not isnone(cls), maker_class(result) == class_tag(cls))',
		         'not flushed()', 'not committed()'])
	reg.contract('gambit.db.models.only_genomeset', returns=Obj('GenomeSet'), trusted=True, note='a SELECT')
	reg.contract('gambit.db.refdb.load_genomeset', types={'db_file': Str},
		ensures=['maker_class(result[0]) == "readonly"', 'maker_url(result[0]) == "sqlite:///" + db_file', 'not flushed()', 'not committed()'])


CC = 'gambit.cli.common.'


class CtxT(TypeSpec):
	"""a CLIContext whose database files were located; engine not created yet (fresh) or already created"""

	def __init__(self, fresh=True):
		self.fresh = fresh

	def make(self, name, st, eng):
		e = None if self.fresh else ExtObj('engine', url='sqlite:///earlier')
		m = None if self.fresh else ExtObj('sessionmaker', engine=e, class_=RO, kw={})
		return Rec(CC + 'CLIContext', _engine=Const(e), _Session=Const(m), _db_found=Const(True), _has_genomes=Const(True), _has_signatures=Const(True),
		           _genomes_path=Str).make(name, st, eng)


def register_cli(reg):
	reg.contract(CC + 'CLIContext._init_genomes', types={'self': CtxT()}, writes=['self'], hints={'unfold_recursion': True},
		ensures=['implies(not isnone(old(self._engine)), self._engine is old(self._engine) and self._Session is old(self._Session))',
		         'implies(isnone(old(self._engine)), maker_class(self._Session) == "readonly" and maker_url(self._Session) == "sqlite:///" + self._genomes_path)',
		         'self._genomes_path == old(self._genomes_path)', 'not flushed()', 'not committed()'],
		note='the session maker every CLI command gets its sessions from produces read-only sessions on the located genome file; idempotent')
