"""Contract registry and the small type DSL used in sidecar contract files."""
import z3
from .values import *


class Inv:
	def __init__(self, clauses, decreases=None, types=None, counter=None, use=None, modifies=None):
		self.clauses = [clauses] if isinstance(clauses, str) or callable(clauses) else list(clauses)
		self.decreases = decreases
		self.types = types or {}
		self.counter = counter
		self.use = use or []          # lemma instances assumed at the loop head and exit
		self.modifies = modifies


def invariant(*clauses, **kw):
	return Inv(list(clauses), **kw)


class Contract:
	def __init__(self, qualname, types=None, requires=(), ensures=(), raises=None, returns=None, yields=None,
	             loops=None, writes=(), inline=False, instances=None, assume_after=None, prop=None,
	             ghost=None, trusted=False, ensures_raise=None, note=None, may_raise=(), lemmas=(), axioms=(), after_loop=None, before_loop=None, hints=None, self_fields=None, defines=()):
		self.qualname = qualname
		self.types = types or {}
		self.requires = list(requires)
		self.ensures = list(ensures)
		self.raises = raises or {}           # {ExcName: clause}: raises ExcName exactly when clause holds at entry
		self.may_raise = tuple(may_raise)    # exceptions the function may raise without a stated condition
		self.returns = returns
		self.yields = yields
		self.loops = loops or {}
		self.writes = tuple(writes)
		self.inline = inline
		self.instances = instances           # list of dicts (type instances), None = single
		self.assume_after = assume_after or {}
		self.prop = prop
		self.ghost = ghost or {}
		self.trusted = trusted               # assumed contract of something outside the repository
		self.ensures_raise = ensures_raise or {}
		self.note = note
		self.lemmas = list(lemmas)           # instantiated lemma statements (clauses) assumed at entry
		self.after_loop = after_loop or {}
		self.hints = hints or {}
		self.defines = list(defines)   # definitional clauses (result == F(args) for a spec function F that is DEFINED as this function's value): assumed at call sites only
		self.self_fields = self_fields or {}   # for __init__ contracts: fields the constructor creates
		self.before_loop = before_loop or {}
		self.axioms = tuple(axioms)          # names of definitional axioms (spec.AXIOMS) added to the hypotheses


class Registry:
	def __init__(self):
		self.contracts = {}
		self.inline = set()

	def contract(self, qualname, **kw):
		c = Contract(qualname, **kw)
		self.contracts[qualname] = c
		return c

	def get(self, qualname):
		return self.contracts.get(qualname)


# ---- type specs -------------------------------------------------------------------------------

class TypeSpec:
	"""Builds the initial symbolic value of a parameter and its type invariant."""

	def make(self, name, st, eng):
		raise NotImplementedError


class _Scalar(TypeSpec):
	def __init__(self, T, ctype=None):
		self.T, self.ctype = T, ctype

	def make(self, name, st, eng):
		v = self.T.fresh(name)
		if self.ctype is not None and self.ctype.kind in ('int', 'bint'):
			v = SInt(v.term, self.ctype)
			st.assume(z3.And(v.term >= self.ctype.lo, v.term <= self.ctype.hi))
		return v

	@property
	def desc(self):
		return self.T


Int = _Scalar(TInt)
Bool = _Scalar(TBool)
Real = _Scalar(TReal)
Str = _Scalar(TStr)


def CInt(name):
	return _Scalar(TInt, CTYPES[name])


class Arr(TypeSpec):
	"""bytes / bytearray / typed memoryview / 1-d integer ndarray."""

	def __init__(self, kind='bytes', elem=None, lo=None, hi=None, ref=False):
		self.kind, self.elem, self.ref = kind, elem, ref
		if elem is not None:
			lo, hi = elem.lo, elem.hi
		elif kind in ('bytes', 'bytearray'):
			lo, hi = 0, 255
		self.lo, self.hi = lo, hi

	def make(self, name, st, eng):
		v = SArr.fresh(name, self.elem, self.kind)
		st.assume(v.length >= 0)
		if self.lo is not None:
			j = z3.Int(fresh_name('j'))
			st.assume(z3.ForAll([j], z3.And(z3.Select(v.arr, j) >= self.lo, z3.Select(v.arr, j) <= self.hi)))
		if self.ref:
			r = Ref(self.kind)
			st.heap[r.addr] = v
			return r
		return v

	@property
	def desc(self):
		return TArr(self.elem, self.kind)


Bytes = Arr('bytes')
ByteArray = Arr('bytearray', ref=True)


def MemView(ctypename):
	return Arr('memview', CTYPES[ctypename], ref=True)


class Obj(TypeSpec):
	def __init__(self, name, nonnull=True):
		self.T, self.nonnull = TObj(name), nonnull

	def make(self, name, st, eng):
		v = self.T.fresh(name)
		if self.nonnull:
			st.assume(v.term != self.T.none)
		return v

	@property
	def desc(self):
		return self.T


class SeqOf(TypeSpec):
	def __init__(self, elem, ref=False, kind='list'):
		self.elem, self.ref, self.kind = elem, ref, kind

	def make(self, name, st, eng):
		v = TSeq(self.elem.desc).fresh(name)
		st.assume(v.length >= 0)
		ed = self.elem.desc
		if isinstance(ed, (TSeq, TArr)):
			# type invariant of nested sequences: every element has a non-negative length
			j = z3.Int(fresh_name('j'))
			e = ed.wrap(z3.Select(v.arr, j))
			st.assume(z3.ForAll([j], e.length >= 0))
		if self.ref:
			r = Ref(self.kind)
			st.heap[r.addr] = v
			return r
		return v

	@property
	def desc(self):
		return TSeq(self.elem.desc)


class Opt(TypeSpec):
	def __init__(self, inner):
		self.inner = inner

	def make(self, name, st, eng):
		if isinstance(self.inner, Obj):
			return Obj(self.inner.T.name, nonnull=False).make(name, st, eng)
		return TOpt(self.inner.desc).fresh(name)

	@property
	def desc(self):
		if isinstance(self.inner, Obj):
			return self.inner.T
		return TOpt(self.inner.desc)


class Const(TypeSpec):
	"""A parameter fixed to a concrete value for this instance."""

	def __init__(self, value):
		self.value = value

	def make(self, name, st, eng):
		return self.value


class Rec(TypeSpec):
	"""A heap record with the given field type specs."""

	def __init__(self, cls, **fields):
		self.cls, self.fields = cls, fields

	def make(self, name, st, eng):
		r = Ref('record')
		st.heap[r.addr] = Record(self.cls, {k: t.make(f'{name}.{k}', st, eng) for k, t in self.fields.items()})
		return r



class DictOf(TypeSpec):
	"""dict with symbolic keys (heap object)"""

	def __init__(self, K, V):
		self.K, self.V = K, V

	def make(self, name, st, eng):
		from .interp import SDict
		KT, VT = self.K.desc, self.V.desc
		d = SDict(KT, VT, z3.Const(fresh_name(name + '_dom'), z3.ArraySort(KT.sort, B)), z3.Const(fresh_name(name + '_val'), z3.ArraySort(KT.sort, VT.sort)), None)
		r = Ref('dict')
		st.heap[r.addr] = d
		return r



class _F32(TypeSpec):
	def make(self, name, st, eng):
		return SF32(z3.Const(fresh_name(name), F32))

	@property
	def desc(self):
		return TF32


Float32 = _F32()



class TSpec(TypeSpec):
	"""TypeSpec for a plain TypeDesc"""

	def __init__(self, T):
		self.T = T

	def make(self, name, st, eng):
		return self.T.fresh(name)

	@property
	def desc(self):
		return self.T
