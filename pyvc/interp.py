"""Symbolic interpreter: executes the real function ASTs path by path, cuts loops at their invariants,
replaces calls by callee contracts and collects named proof obligations."""
import ast
import os
import time
import copy
import z3
from .values import *
from .ops import *
from .modules import *
from .contracts import *
from . import spec as SPEC

EXC_PARENT = {
	'BaseException': None, 'Exception': 'BaseException', 'ValueError': 'Exception', 'TypeError': 'Exception',
	'LookupError': 'Exception', 'KeyError': 'LookupError', 'IndexError': 'LookupError', 'StopIteration': 'Exception',
	'AssertionError': 'Exception', 'RuntimeError': 'Exception', 'NotImplementedError': 'RuntimeError',
	'ArithmeticError': 'Exception', 'ZeroDivisionError': 'ArithmeticError', 'OverflowError': 'ArithmeticError',
	'UnicodeError': 'ValueError', 'UnicodeEncodeError': 'UnicodeError', 'UnicodeDecodeError': 'UnicodeError',
	'OSError': 'Exception', 'FileNotFoundError': 'OSError', 'NotADirectoryError': 'OSError',
	'AttributeError': 'Exception',
	'ClickException': 'Exception', 'SignaturesFileError': 'Exception', 'DatabaseLoadError': 'Exception',
}


def exc_isinstance(name, base):
	while name is not None:
		if name == base:
			return True
		name = EXC_PARENT.get(name, 'Exception' if name not in ('BaseException',) else None)
	return False


class Raised:
	def __init__(self, exc, msg=None):
		self.exc, self.msg = exc, msg

	def __repr__(self):
		return f'Raised({self.exc})'


class Outcome:
	def __init__(self, kind, value=None):
		self.kind, self.value = kind, value

	def __repr__(self):
		return f'Outcome({self.kind}, {self.value!r})'


NORMAL = Outcome('normal')
BREAK = Outcome('break')
CONTINUE = Outcome('continue')


class OpaqueStr:
	"""A formatted message whose content is irrelevant (error texts)."""

	def __repr__(self):
		return '<msg>'


class Closure:
	def __init__(self, node, env, finfo):
		self.node, self.env, self.finfo = node, env, finfo


class BoundMethod:
	def __init__(self, obj, name):
		self.obj, self.name = obj, name

	def __repr__(self):
		return f'BoundMethod({self.obj!r}.{self.name})'


class ExcInstance:
	def __init__(self, exc, args=()):
		self.exc, self.args = exc, args


class State:
	def __init__(self):
		self.env = {}
		self.heap = {}
		self.pc = []
		self.ghosts = {}
		self.entry_env = {}
		self.entry_heap = {}
		self.ctypes = {}      # declared C types of locals (de-cythonised code)
		self.notes = []

	def fork(self):
		s = State.__new__(State)
		s.env = dict(self.env)
		s.heap = dict(self.heap)
		s.pc = list(self.pc)
		s.ghosts = dict(self.ghosts)
		s.entry_env = self.entry_env
		s.entry_heap = self.entry_heap
		s.ctypes = dict(self.ctypes)
		s.notes = list(self.notes)
		return s

	def assume(self, t):
		if isinstance(t, SV):
			t = truth(t)
		if t is True:
			return
		if t is False:
			t = z3.BoolVal(False)
		self.pc.append(t)

	def deref(self, v, old=False):
		if isinstance(v, Ref):
			return (self.entry_heap if old else self.heap)[v.addr]
		return v


class Obligation:
	def __init__(self, name, hyps, goal, meta=None, entry=None):
		self.name, self.hyps, self.goal, self.meta = name, hyps, goal, meta or {}
		self.entry = entry   # (entry_env, entry_heap, function label) for counterexample extraction


class _NodeIndex:
	"""Stable ordinals for sites inside one function (source order)."""

	def __init__(self, fnode):
		self.loop, self.sub, self.arith, self.call, self.misc = {}, {}, {}, {}, {}
		self.store, self.cmp = {}, {}
		callcount = {}
		for n in ast.walk(fnode):
			pass
		# ast.walk is breadth first; use a source-order visitor instead
		order = []

		def visit(n):
			order.append(n)
			for c in ast.iter_child_nodes(n):
				visit(c)
		visit(fnode)
		for n in order:
			if isinstance(n, (ast.While, ast.For)):
				self.loop[id(n)] = len(self.loop)
			elif isinstance(n, ast.Subscript):
				self.sub[id(n)] = len(self.sub)
			elif isinstance(n, (ast.BinOp, ast.AugAssign)):
				self.arith[id(n)] = len(self.arith)
			elif isinstance(n, ast.Name) and isinstance(n.ctx, ast.Store):
				k = sum(1 for v in self.store.values() if v[0] == n.id)
				self.store[id(n)] = (n.id, k)
			elif isinstance(n, ast.Compare):
				self.cmp[id(n)] = len(self.cmp)
			elif isinstance(n, ast.Call):
				try:
					nm = ast.unparse(n.func).split('(')[0]
				except Exception:
					nm = '?'
				k = callcount.get(nm, 0)
				callcount[nm] = k + 1
				self.call[id(n)] = f'{nm}#{k}'
			else:
				self.misc[id(n)] = len(self.misc)
		# comprehension loops
		for n in order:
			if isinstance(n, (ast.ListComp, ast.SetComp, ast.GeneratorExp, ast.DictComp)):
				self.loop[id(n)] = len(self.loop)


def _write_set(stmts):
	"""Names assigned and names whose object is mutated, syntactically, in a list of statements."""
	assigned, mutated, yields = set(), set(), False
	calls = []
	MUT = {'append', 'extend', 'insert', 'pop', 'remove', 'sort', 'reverse', 'clear', 'add', 'discard', 'update',
	       'setdefault', 'fill', 'increment', 'popitem'}

	def root(n):
		while isinstance(n, (ast.Attribute, ast.Subscript, ast.Call)):
			n = n.func if isinstance(n, ast.Call) else n.value
		return n.id if isinstance(n, ast.Name) else None

	def target(t):
		if isinstance(t, ast.Name):
			assigned.add(t.id)
		elif isinstance(t, (ast.Tuple, ast.List)):
			for e in t.elts:
				target(e)
		elif isinstance(t, ast.Starred):
			target(t.value)
		elif isinstance(t, (ast.Subscript, ast.Attribute)):
			r = root(t)
			if r:
				mutated.add(r)

	def leaves(block):
		"""the block ends in break/return/raise and contains no continue: none of its effects reach the loop head"""
		if not block or not isinstance(block[-1], (ast.Break, ast.Return, ast.Raise)):
			return False
		return not any(isinstance(x, ast.Continue) for b in block for x in ast.walk(b))

	def nodes(stmts_):
		for s_ in stmts_:
			if isinstance(s_, ast.If):
				yield from ast.walk(s_.test)
				if not leaves(s_.body):
					yield from nodes(s_.body)
				if not leaves(s_.orelse):
					yield from nodes(s_.orelse)
			elif isinstance(s_, (ast.For, ast.While, ast.With, ast.Try)):
				yield from ast.walk(s_)
			else:
				yield from ast.walk(s_)

	for s in [None]:
		for n in nodes(stmts):
			if isinstance(n, ast.Assign):
				for t in n.targets:
					target(t)
			elif isinstance(n, (ast.AugAssign, ast.AnnAssign)):
				target(n.target)
			elif isinstance(n, (ast.For, ast.comprehension)):
				target(n.target)
			elif isinstance(n, ast.With):
				for it in n.items:
					if it.optional_vars is not None:
						target(it.optional_vars)
			elif isinstance(n, ast.NamedExpr):
				target(n.target)
			elif isinstance(n, (ast.Yield, ast.YieldFrom)):
				yields = True
			elif isinstance(n, ast.Delete):
				for t in n.targets:
					target(t)
			elif isinstance(n, ast.ExceptHandler) and n.name:
				assigned.add(n.name)
			elif isinstance(n, ast.Call):
				if isinstance(n.func, ast.Attribute) and n.func.attr in MUT:
					r = root(n.func.value)
					if r:
						mutated.add(r)
				calls.append(n)
	return assigned, mutated, yields, calls


class PathLimit(Exception):
	pass


_KW_AWARE = {}


def _uses_kwargs(h):
	"""does this library model look at the keyword arguments it is given?  A model that never reads them must not be applied to a
	call that passes some (a keyword such as errors=, reverse=, dtype=, kind= changes what the library does)."""
	import dis
	key = getattr(h, '__code__', None)
	if key is None:
		return True
	if key not in _KW_AWARE:
		def reads(code):
			for ins in dis.get_instructions(code):
				if ins.argval == 'kwargs' and ins.opname in ('LOAD_FAST', 'LOAD_DEREF', 'LOAD_CLOSURE', 'LOAD_FAST_CHECK', 'LOAD_FAST_AND_CLEAR'):
					return True
			return any(reads(c) for c in code.co_consts if hasattr(c, 'co_code'))
		_KW_AWARE[key] = reads(key)
	return _KW_AWARE[key]


_MAXPOS = {}


def _max_positional(h):
	"""how many positional arguments does this library model look at (None = it inspects the whole argument list)?"""
	import inspect, re
	key = getattr(h, '__code__', None)
	if key is None:
		return None
	if key not in _MAXPOS:
		try:
			src = inspect.getsource(h)
		except (OSError, TypeError):
			_MAXPOS[key] = None
			return None
		body = src.split('):', 1)[1] if '):' in src else src
		if re.search(r'len\(args\)|\*args|args\s*==|args\s*!=|in args\b|args\[\d*:|args\[-|not args|if args|and args|or args|\(args\)|, args\b|args,|list\(args|tuple\(args', body):
			_MAXPOS[key] = None
		else:
			idx = [int(m) for m in re.findall(r'args\[(\d+)\]', body)]
			_MAXPOS[key] = (max(idx) + 1) if idx else 0
	return _MAXPOS[key]


def _guard_kwargs(h, kwargs, what, args=None, offset=0):
	if kwargs and not _uses_kwargs(h):
		raise Unsupported(f'{what} called with keyword arguments {sorted(kwargs)} that its library model does not interpret')
	if args is not None:
		mp = _max_positional(h)
		if mp is not None and mp >= 1 and len(args) > mp:      # a model that looks at no argument at all (an opaque result) cannot misread one
			raise Unsupported(f'{what} called with {len(args)} positional arguments, its library model interprets {mp}')


class Engine:
	MAX_PATHS = 4000
	MAX_SECONDS = int(os.environ.get('PYVC_FUNC_SECONDS', '420'))     # wall-clock budget for generating the obligations of ONE target

	def __init__(self, repo, registry, lib, prop='?'):
		self.repo, self.registry, self.lib, self.prop = repo, registry, lib, prop
		self.obligations = []
		self.trivial = 0
		self.notes = []
		self.functions_verified = []
		self._feas = z3.Solver()
		self._feas.set('rlimit', 300000)     # deterministic budget (no wall clock): the set of explored paths must not depend on machine load
		self.paths = 0
		self.fstack = []
		self.assumptions_used = set()
		self.specns = {}
		self.class_of_kind = {}
		self.axioms_used = set()
		self.inlined_without_contract = set()

	def isinstance(self, st, v, T):
		"""isinstance(v, T) for the modelled classes: decided from the value's representation."""
		h = self.lib.get('__isinstance__')
		if h is not None:
			r = h(self, st, v, T)
			if r is not None:
				return r
		raise Unsupported(f'isinstance({v!r}, {T!r})')

	# ---- obligations ------------------------------------------------------------------------
	def oblige(self, st, site, kind, goal, meta=None):
		name = f'{self.prop}/{self.cur_label}/{site}/{kind}'
		if isinstance(goal, SBool):
			goal = goal.term
		goal = simp(goal) if not isinstance(goal, bool) else goal
		if goal is True:
			self.trivial += 1
			self.obligations.append(Obligation(name, None, True, meta))
			return
		g = z3.BoolVal(False) if goal is False else goal
		self.obligations.append(Obligation(name, list(st.pc), g, meta, entry=(st.entry_env, st.entry_heap, self.top_label)))
		st.assume(g)

	def feasible(self, st, extra=None):
		s = self._feas
		s.push()
		try:
			for p in st.pc:
				s.add(p)
			if extra is not None:
				s.add(extra)
			r = s.check()
			return r != z3.unsat
		finally:
			s.pop()

	def branch(self, st, cond):
		"""Yields (state, bool) for the feasible outcomes of cond."""
		if isinstance(cond, SV):
			cond = truth(cond)
		cond = simp(cond) if not isinstance(cond, bool) else cond
		if isinstance(cond, bool):
			yield st, cond
			return
		for val, c in ((True, cond), (False, z3.Not(cond))):
			if self.feasible(st, c):
				s2 = st.fork()
				s2.assume(c)
				self.paths += 1
				if self.paths > self.MAX_PATHS:
					raise PathLimit(f'more than {self.MAX_PATHS} paths in {self.cur_label}')
				yield s2, val

	# ---- entry points -----------------------------------------------------------------------
	def label_of(self, qualname, inst):
		short = qualname[len('gambit.'):] if qualname.startswith('gambit.') else qualname
		if inst:
			return f'{short}[{inst}]'
		return short

	def verify_function(self, qualname, inst_name=None, type_override=None):
		c = self.registry.get(qualname)
		# a target may be named through a re-export (from x import f): the name is followed to its definition on every run,
		# so a change that rebinds the name to another function is verified against the same contract
		target = qualname
		try:
			r_ = self.repo.resolve(qualname)
			if isinstance(r_, FuncRef) and r_.qualname != qualname:
				target = r_.qualname
		except Unsupported:
			pass
		if c is None:
			c = self.registry.get(target)
		if c is None:
			raise Unsupported(f'no contract for {qualname}')
		fi = self.repo.funcinfo(target)
		self.cur_label = self.label_of(qualname, inst_name)
		self.top_label = self.cur_label
		self._t_start = time.time()
		self._c_start = time.process_time()
		self._stmt_count = 0
		reset_names()     # query texts of one function do not depend on what was verified before it
		self.cur_contract = c
		self.cur_finfo = fi
		self.nodeidx = _NodeIndex(fi.node)
		self.paths = 0
		st = State()
		types = dict(c.types)
		if type_override:
			types.update(type_override)
		self.cur_types = types
		self.cur_typevars = {}
		if fi.cython:
			self._bind_cython_types(fi, type_override or {})
		# parameters
		args = fi.node.args
		allargs = args.posonlyargs + args.args + args.kwonlyargs
		for a in allargs:
			name = a.arg
			if name in types:
				ts = types[name]
			elif fi.cython and a.annotation is not None:
				ts = self._ctypespec(ast.literal_eval(a.annotation) if isinstance(a.annotation, ast.Constant) else ast.unparse(a.annotation))
			else:
				raise Unsupported(f'{qualname}: no type for parameter {name}')
			st.env[name] = ts.make(name, st, self) if isinstance(ts, TypeSpec) else ts
			if fi.cython and isinstance(st.env[name], SInt) and st.env[name].ctype is not None:
				st.ctypes[name] = st.env[name].ctype
		if args.vararg is not None and args.vararg.arg not in st.env:
			st.env[args.vararg.arg] = types.get(args.vararg.arg, ())
		if args.kwarg is not None and args.kwarg.arg not in st.env:
			kwv = types.get(args.kwarg.arg, {})
			r_ = Ref('dict')
			st.heap[r_.addr] = dict(kwv)
			st.env[args.kwarg.arg] = r_
		for g, ts in c.ghost.items():
			st.env[g] = ts.make(g, st, self) if isinstance(ts, TypeSpec) else ts
		for k_, h_ in self.lib.items():
			if k_.startswith('__ghost_init__'):
				h_(self, st)
		st.entry_env = dict(st.env)
		st.entry_heap = dict(st.heap)
		if fi.is_generator:
			st.ghosts['Y'] = SSeq.empty(self._yield_type(c, st.env))
		for ax in c.axioms:
			st.assume(SPEC.AXIOMS[ax]())
		for i, r in enumerate(c.requires):
			st.assume(bool_term(self.pure(r, st, entry=True)))
		for lm in c.lemmas:
			st.assume(bool_term(self.pure(lm, st, entry=True)))
		# vacuity: the precondition must be satisfiable
		self.obligations.append(Obligation(f'{self.prop}/{self.cur_label}/requires/satisfiable', list(st.pc), z3.BoolVal(False), {'expect': 'sat'}))
		self.functions_verified.append(self.cur_label)
		n_exit = 0
		for s2, out in self.exec_block(fi.node.body, st):
			n_exit += 1
			self._check_exit(s2, out, c, fi)
		if n_exit == 0:
			raise Unsupported(f'{qualname}: no feasible path reaches an exit')

	def _check_exit(self, st, out, c, fi):
		if out.kind != 'raise':
			self.obligations.append(Obligation(f'{self.prop}/{self.cur_label}/exit/normal-reachable', list(st.pc), z3.BoolVal(False), {'expect': 'sat-any'}))
		if out.kind == 'raise':
			exc = out.value.exc
			conds = [(n, cl) for n, cl in c.raises.items() if exc_isinstance(exc, n)]
			if len(conds) > 1:
				# the most specific declared class decides
				def dist(n):
					k, x = 0, exc
					while x is not None and x != n:
						x = EXC_PARENT.get(x, 'Exception' if x != 'BaseException' else None)
						k += 1
					return k
				best = min(dist(n) for n, _ in conds)
				conds = [(n, cl) for n, cl in conds if dist(n) == best]
			if conds:
				for n, cl in conds:
					self.oblige(st, f'raises:{n}', 'only-when-stated', self.pure(cl, st, entry=True))
				for i, e in enumerate(c.ensures_raise.get(exc, [])):
					self.oblige(st, f'raises:{exc}', f'ensures#{i}', self.pure(e, st))
			elif any(exc_isinstance(exc, n) for n in c.may_raise):
				pass
			else:
				self.oblige(st, f'raises:{exc}', 'not-raised', False, {'exc': exc})
			return
		if out.kind not in ('normal', 'return'):
			raise Unsupported(f'{fi.qualname}: {out.kind} outside loop')
		result = out.value if out.kind == 'return' else None
		if fi.cython:
			rt = fi.node.returns
			if rt is not None:
				ct = self._resolve_ctype(ast.literal_eval(rt))
				if ct.kind == 'float':
					if not isinstance(result, SF32):
						result = SF32(i2f(int_term(result)))
				elif ct.kind in ('int', 'bint') and result is not None:
					self.oblige(st, 'return', f'fits[{ct.name}]', z3.And(int_term(result) >= ct.lo, int_term(result) <= ct.hi))
					result = SInt(int_term(result), ct)
		# a normal return must not happen when a raises-clause says the call raises
		for n, cl in c.raises.items():
			self.oblige(st, f'raises:{n}', 'raised-when-stated', mk_not(self.pure(cl, st, entry=True)))
		env_extra = {'result': result}
		if fi.is_generator:
			env_extra['Y'] = st.ghosts['Y']
		# parameter names in a postcondition denote the caller's arguments (entry values); their mutable
		# contents are read from the final heap unless wrapped in old()
		from .pure import PureEval
		pe = PureEval(self, st, env_override=st.entry_env, extra=env_extra)
		for i, e in enumerate(c.ensures):
			self.oblige(st, 'post', f'ensures#{i}', pe.eval_clause(e), {'clause': e if isinstance(e, str) else getattr(e, '__name__', 'fn')})

	# ---- C types ----------------------------------------------------------------------------
	def _bind_cython_types(self, fi, override):
		self.cur_typevars = {}
		cm = fi.module.cymod
		for k, v in override.items():
			if isinstance(v, str):
				self.cur_typevars[k] = v
		self.cur_cymod = cm

	def _resolve_ctype(self, name):
		name = name.strip()
		cm = self.cur_finfo.module.cymod
		seen = 0
		while name not in CTYPES:
			if name in self.cur_typevars:
				name = self.cur_typevars[name]
			elif cm is not None and name in cm.typedefs:
				name = cm.typedefs[name]
			else:
				raise Unsupported(f'unknown C type {name}')
			seen += 1
			if seen > 10:
				raise Unsupported(f'C typedef cycle at {name}')
		return CTYPES[name]

	def _ctypespec(self, tname):
		tname = tname.strip()
		if tname.endswith('[:]'):
			ct = self._resolve_ctype(tname[:-3])
			if ct.kind == 'float':
				return _F32View()
			return Arr('memview', ct, ref=True)
		if tname.endswith('*'):
			return _PtrSpec(self._resolve_ctype(tname[:-1]))
		ct = self._resolve_ctype(tname)
		if ct.kind in ('int', 'bint'):
			return CIntSpec(ct)
		raise Unsupported(f'parameter of C type {tname}')

	# ---- specification evaluation -----------------------------------------------------------
	def pure(self, clause, st, entry=False, extra=None):
		from .pure import PureEval
		pe = PureEval(self, st, entry=entry, extra=extra or {})
		if callable(clause):
			return clause(pe)
		return pe.eval_str(clause)

	# ---- statements -------------------------------------------------------------------------
	def exec_block(self, stmts, st):
		if not stmts:
			yield st, NORMAL
			return
		head, rest = stmts[0], stmts[1:]
		for s2, out in self.exec_stmt(head, st):
			if out.kind == 'normal':
				yield from self.exec_block(rest, s2)
			else:
				yield s2, out

	def _budget(self):
		# changed code can make the symbolic execution loop (a concrete loop that no longer terminates, a path explosion):
		# that is an undecided target, never a hang of the check
		self._stmt_count = getattr(self, '_stmt_count', 0) + 1
		# (CPU seconds of this process, so that busy cores do not turn a target into UNDECIDED; wall clock as a net only)
		if self._stmt_count % 64 == 0 and (time.process_time() - getattr(self, '_c_start', time.process_time()) > self.MAX_SECONDS
		                                   or time.time() - getattr(self, '_t_start', time.time()) > 8 * self.MAX_SECONDS):
			raise PathLimit(f'obligation generation for {self.cur_label} exceeded {self.MAX_SECONDS} s')

	def exec_stmt(self, node, st):
		self._budget()
		m = getattr(self, 'x_' + type(node).__name__, None)
		if m is None:
			raise Unsupported(f'statement {type(node).__name__} at line {node.lineno}')
		yield from m(node, st)

	def x_Pass(self, node, st):
		yield st, NORMAL

	def x_Import(self, node, st):
		# function-local `import m [as n]`: the name denotes the external (or repository) module
		for a in node.names:
			if '.' in a.name and not a.asname:
				continue
			st.env[a.asname or a.name] = self.repo.resolve(a.name) if a.name.startswith('gambit') else ExtRef(a.name)
		yield st, NORMAL

	def x_ImportFrom(self, node, st):
		mod = node.module or ''
		fi = self.cur_finfo
		if node.level:
			pk = fi.module._pkg().split('.')
			pk = pk[:len(pk) - (node.level - 1)]
			mod = '.'.join(pk + ([mod] if mod else []))
		for a in node.names:
			st.env[a.asname or a.name] = self.repo.resolve(f'{mod}.{a.name}')
		yield st, NORMAL

	def x_Expr(self, node, st):
		if isinstance(node.value, ast.Constant):
			yield st, NORMAL
			return
		v = node.value
		# recognised idiom  d.setdefault(k, []).append(x)  ==  d[k] := d.get(k, []) ++ [x]   (the stored list is the only alias)
		if (isinstance(v, ast.Call) and isinstance(v.func, ast.Attribute) and v.func.attr == 'append' and len(v.args) == 1
				and isinstance(v.func.value, ast.Call) and isinstance(v.func.value.func, ast.Attribute) and v.func.value.func.attr == 'setdefault'
				and len(v.func.value.args) == 2 and isinstance(v.func.value.args[1], ast.List) and not v.func.value.args[1].elts):
			inner = v.func.value
			for s1, d in self.ev(inner.func.value, st):
				if isinstance(d, Raised):
					yield s1, Outcome('raise', d)
					continue
				dv = s1.deref(d)
				if isinstance(dv, SDict) and isinstance(dv.VT, TSeq):
					for s2, kx in self.ev_list([inner.args[0], v.args[0]], s1):
						if isinstance(kx, Raised):
							yield s2, Outcome('raise', kx)
							continue
						k, x = kx
						dv = s2.deref(d)
						cur = dv.get(k)       # SSeq (wrapped datatype value)
						T = dv.VT
						empty = SSeq(T.T, z3.Const(fresh_name('emptyl'), T.arrsort), 0)
						base_arr = z3.If(dv.has(k), cur.arr, empty.arr)
						base_len = z3.If(dv.has(k), cur.length, z3.IntVal(0))
						new = SSeq(T.T, z3.Store(base_arr, base_len, T.T.unwrap(x)), base_len + 1)
						s2.heap[d.addr] = dv.set(k, new)
						yield s2, NORMAL
					return
		for s2, v in self.ev(node.value, st):
			if isinstance(v, Raised):
				yield s2, Outcome('raise', v)
			else:
				yield s2, NORMAL

	def x_Return(self, node, st):
		if node.value is None:
			yield st, Outcome('return', None)
			return
		for s2, v in self.ev(node.value, st):
			if isinstance(v, Raised):
				yield s2, Outcome('raise', v)
			else:
				yield s2, Outcome('return', v)

	def x_Break(self, node, st):
		yield st, BREAK

	def x_Continue(self, node, st):
		yield st, CONTINUE

	def x_Raise(self, node, st):
		if node.exc is None:
			exc = st.env.get('__current_exc__')
			if exc is None:
				raise Unsupported('bare raise outside handler')
			yield st, Outcome('raise', exc)
			return
		for s2, v in self.ev(node.exc, st):
			if isinstance(v, Raised):
				yield s2, Outcome('raise', v)
			elif isinstance(v, ExcInstance):
				yield s2, Outcome('raise', Raised(v.exc, v.args))
			elif isinstance(v, ExcClass):
				yield s2, Outcome('raise', Raised(v.name))
			else:
				raise Unsupported(f'raise of {v!r}')

	def x_Assert(self, node, st):
		for s2, v in self.ev(node.test, st):
			if isinstance(v, Raised):
				yield s2, Outcome('raise', v)
				continue
			for s3, b in self.branch(s2, self.truth(s2, v)):
				if b:
					yield s3, NORMAL
				else:
					yield s3, Outcome('raise', Raised('AssertionError'))

	def x_If(self, node, st):
		for s2, v in self.ev(node.test, st):
			if isinstance(v, Raised):
				yield s2, Outcome('raise', v)
				continue
			for s3, b in self.branch(s2, self.truth(s2, v)):
				yield from self.exec_block(node.body if b else node.orelse, s3)

	def x_Assign(self, node, st):
		for s2, v in self.ev(node.value, st):
			if isinstance(v, Raised):
				yield s2, Outcome('raise', v)
				continue
			states = [s2]
			for t in node.targets:
				nxt = []
				for s in states:
					for s3, r in self.assign(t, v, s):
						if isinstance(r, Raised):
							yield s3, Outcome('raise', r)
						else:
							nxt.append(s3)
				states = nxt
			for s in states:
				yield s, NORMAL

	def x_AnnAssign(self, node, st):
		if self.cur_finfo.cython and isinstance(node.annotation, ast.Constant) and isinstance(node.target, ast.Name):
			tname = node.annotation.value
			if tname.endswith('[:]') or '.' in tname:
				raise Unsupported(f'local of C type {tname}')
			st.ctypes[node.target.id] = self._resolve_ctype(tname)
		if node.value is None:
			yield st, NORMAL
			return
		for s2, v in self.ev(node.value, st):
			if isinstance(v, Raised):
				yield s2, Outcome('raise', v)
				continue
			for s3, r in self.assign(node.target, v, s2):
				yield (s3, Outcome('raise', r)) if isinstance(r, Raised) else (s3, NORMAL)

	def x_AugAssign(self, node, st):
		load = copy.copy(node.target)
		load.ctx = ast.Load()
		for s2, cur in self.ev(load, st):
			if isinstance(cur, Raised):
				yield s2, Outcome('raise', cur)
				continue
			for s3, v in self.ev(node.value, s2):
				if isinstance(v, Raised):
					yield s3, Outcome('raise', v)
					continue
				if isinstance(cur, Ref) and cur.kind == 'list' and isinstance(node.op, ast.Add):
					raise Unsupported('list += ')
				r, obl = binop(type(node.op), cur, v, self.cur_finfo.cython)
				for kind, g in obl:
					self.oblige(s3, f'arith#{self.nodeidx.arith.get(id(node), "?")}', kind, g)
				for s4, rr in self.assign(node.target, r, s3):
					yield (s4, Outcome('raise', rr)) if isinstance(rr, Raised) else (s4, NORMAL)

	def coerce_c(self, st, name, v, site):
		"""Assignment to a typed C local: the value must be representable."""
		ct = st.ctypes.get(name)
		if ct is None:
			return v
		v = lit_to_c(v)
		if ct.kind in ('int', 'bint'):
			if isinstance(v, (SF32, SReal, float)):
				raise Unsupported('float to int conversion')
			if isinstance(v, (bool, SBool)):
				return v if ct.kind == 'bint' else SInt(int_term(v), ct)
			t = int_term(v)
			self.oblige(st, site, f'fits[{ct.name}]', z3.And(t >= ct.lo, t <= ct.hi))
			return SInt(t, ct)
		if ct.kind == 'float':
			if isinstance(v, SF32):
				return v
			return SF32(i2f(int_term(v)))
		raise Unsupported(f'assignment to C type {ct.name}')

	def assign(self, target, v, st):
		"""Yields (state, None | Raised)."""
		if isinstance(target, ast.Name):
			if self.cur_finfo.cython and target.id in st.ctypes:
				v = self.coerce_c(st, target.id, v, f'assign:{target.id}{self._site(target)}')
			if isinstance(st.env.get(target.id), Cell):
				st.heap[st.env[target.id].ref.addr] = v
			else:
				st.env[target.id] = v
			yield st, None
		elif isinstance(target, (ast.Tuple, ast.List)):
			for s2, items in self.unpack(st, v, len(target.elts), any(isinstance(e, ast.Starred) for e in target.elts), target):
				if isinstance(items, Raised):
					yield s2, items
					continue
				states = [s2]
				for t, item in zip(target.elts, items):
					nxt = []
					for s in states:
						for s3, r in self.assign(t.value if isinstance(t, ast.Starred) else t, item, s):
							if isinstance(r, Raised):
								yield s3, r
							else:
								nxt.append(s3)
					states = nxt
				for s in states:
					yield s, None
		elif isinstance(target, ast.Subscript):
			for s2, obj in self.ev(target.value, st):
				if isinstance(obj, Raised):
					yield s2, obj
					continue
				for s3, idx in self.ev_index(target.slice, s2):
					if isinstance(idx, Raised):
						yield s3, idx
						continue
					yield from self.store_subscript(s3, obj, idx, v, target)
		elif isinstance(target, ast.Attribute):
			for s2, obj in self.ev(target.value, st):
				if isinstance(obj, Raised):
					yield s2, obj
					continue
				yield from self.store_attr(s2, obj, target.attr, v, target)
		else:
			raise Unsupported(f'assignment target {type(target).__name__}')

	def _site(self, node):
		if id(node) in self.nodeidx.store:
			return '#%d' % self.nodeidx.store[id(node)][1]
		if id(node) in self.nodeidx.cmp:
			return '#%d' % self.nodeidx.cmp[id(node)]
		if id(node) in self.nodeidx.call:
			return self.nodeidx.call[id(node)]
		return '#m%d' % self.nodeidx.misc.get(id(node), 0)

	def unpack(self, st, v, n, starred, node):
		v = st.deref(v)
		if isinstance(v, (tuple, list)):
			if len(v) != n and not starred:
				yield st, Raised('ValueError')
				return
			if starred:
				raise Unsupported('starred unpacking')
			yield st, list(v)
			return
		raise Unsupported(f'unpacking of {v!r}')

	# ---- loops ------------------------------------------------------------------------------
	def x_While(self, node, st):
		yield from self.run_loop(node, st, kind='while')

	def _prange_frame(self, node, st):
		"""prange(N): iterations may run in any interleaving on any number of threads.  The sequential result is the
		result of every schedule if iteration i writes only cell [i] of its output views (plus loop-private scalars) and
		reads no cell that another iteration writes.  Checked syntactically on the loop body."""
		site = f'loop{self.nodeidx.loop[id(node)]}'
		var = node.target.id if isinstance(node.target, ast.Name) else None
		written_arrays, ok_writes, private = set(), True, set()
		for n in ast.walk(ast.Module(body=node.body, type_ignores=[])):
			if isinstance(n, (ast.Assign, ast.AugAssign)):
				targets = n.targets if isinstance(n, ast.Assign) else [n.target]
				for t in targets:
					if isinstance(t, ast.Name):
						private.add(t.id)
					elif isinstance(t, ast.Subscript) and isinstance(t.value, ast.Name) and isinstance(t.slice, ast.Name) and t.slice.id == var and isinstance(n, ast.Assign):
						written_arrays.add(t.value.id)
					else:
						ok_writes = False
		reads_written = False
		store_bases = set()
		for n in ast.walk(ast.Module(body=node.body, type_ignores=[])):
			if isinstance(n, ast.Subscript) and isinstance(n.ctx, ast.Store) and isinstance(n.value, ast.Name):
				store_bases.add(id(n.value))
		for n in ast.walk(ast.Module(body=node.body, type_ignores=[])):
			if isinstance(n, ast.Name) and isinstance(n.ctx, ast.Load) and n.id in written_arrays and id(n) not in store_bases:
				reads_written = True
		declared = all(p in st.ctypes for p in private)
		self.oblige(st, site, 'prange/iteration-writes-only-its-own-cell', bool(ok_writes and var is not None))
		self.oblige(st, site, 'prange/no-iteration-reads-a-written-array', not reads_written)
		self.oblige(st, site, 'prange/assigned-scalars-are-declared-locals(lastprivate)', bool(declared))
		# the written views must not alias the views that are read: different heap objects
		for w in written_arrays:
			wv = st.env.get(w)
			for nm, v in st.env.items():
				if nm != w and isinstance(v, Ref) and isinstance(wv, Ref) and nm in {x.id for x in ast.walk(ast.Module(body=node.body, type_ignores=[])) if isinstance(x, ast.Name)}:
					self.oblige(st, site, f'prange/no-alias[{w},{nm}]', v.addr != wv.addr)

	def x_For(self, node, st):
		if isinstance(node.iter, ast.Call) and ast.unparse(node.iter.func).split('.')[-1] == 'prange':
			self._prange_frame(node, st)
		for s2, it in self.ev(node.iter, st):
			if isinstance(it, Raised):
				yield s2, Outcome('raise', it)
				continue
			yield from self.run_for(node, s2, it)

	def run_for(self, node, st, it):
		itv = st.deref(it)
		# concrete iteration: unroll
		if isinstance(itv, (tuple, list, bytes, str, range, dict, frozenset, set)) or isinstance(itv, ConcreteIter):
			items = list(itv.items) if isinstance(itv, ConcreteIter) else list(itv)
			yield from self._unroll(node, st, items, 0)
			return
		yield from self.run_loop(node, st, kind='for', it=itv)

	def _unroll(self, node, st, items, k):
		if k >= len(items):
			yield from self.exec_block(node.orelse, st)
			return
		for s1, r in self.assign(node.target, items[k], st):
			if isinstance(r, Raised):
				yield s1, Outcome('raise', r)
				continue
			for s2, out in self.exec_block(node.body, s1):
				if out.kind in ('normal', 'continue'):
					yield from self._unroll(node, s2, items, k + 1)
				elif out.kind == 'break':
					yield s2, NORMAL
				else:
					yield s2, out

	def havoc(self, st, body_nodes, inv):
		assigned, mutated, yields, calls = _write_set(body_nodes)
		if inv is not None and inv.modifies is not None:
			assigned = set(inv.modifies) | assigned
		for cn in calls:
			for r in self._written_roots(cn, st):
				mutated.add(('arg', r))
		for name in sorted(assigned):
			if inv is not None and name in inv.types:
				ts = inv.types[name]
				st.env[name] = ts.make(name, st, self) if isinstance(ts, TypeSpec) else ts
				continue
			if name not in st.env:
				continue
			v = st.env[name]
			if isinstance(v, SV):
				nv = v.fresh_like(name)
				if isinstance(nv, SInt) and name in st.ctypes and st.ctypes[name].kind in ('int', 'bint'):
					ct = st.ctypes[name]
					st.assume(z3.And(nv.term >= ct.lo, nv.term <= ct.hi))
				if isinstance(nv, (SArr, SSeq)) and not isinstance(v, SArr):
					st.assume(nv.length >= 0)
				st.env[name] = nv
			elif isinstance(v, Ref):
				pass   # rebinding to another object inside a loop needs a declared type
			elif isinstance(v, bool):
				st.env[name] = SBool(z3.Bool(fresh_name(name)))
			elif isinstance(v, int):
				st.env[name] = SInt(z3.Int(fresh_name(name)), st.ctypes.get(name))
				if name in st.ctypes and st.ctypes[name].kind in ('int', 'bint'):
					ct = st.ctypes[name]
					st.assume(z3.And(st.env[name].term >= ct.lo, st.env[name].term <= ct.hi))
			elif v is None or isinstance(v, (str, float, tuple)):
				raise Unsupported(f'loop changes {name} (currently {v!r}); declare its type in the invariant')
			else:
				raise Unsupported(f'cannot havoc {name} = {v!r}')
		for m in sorted(mutated, key=str):
			name = m[1] if isinstance(m, tuple) else m
			if inv is not None and name in inv.types:
				if name not in assigned:
					ts = inv.types[name]
					st.env[name] = ts.make(name, st, self) if isinstance(ts, TypeSpec) else ts
				continue
			v = st.env.get(name)
			if isinstance(v, Ref):
				self.havoc_ref(st, v, name, only_args=isinstance(m, tuple))
			elif isinstance(v, ViewRef):
				self.havoc_ref(st, v.base, name, only_args=isinstance(m, tuple))
		if yields:
			y = st.ghosts['Y']
			st.ghosts['Y'] = y.fresh_like('Y')
			st.assume(st.ghosts['Y'].length >= 0)
		# ghost state of library models (allocation counters, future -> call maps, ...) may be advanced by any call
		# in the body: it is havocked as well and must be re-established by the invariant
		if calls:
			for g in sorted(st.ghosts):
				if g == 'Y' or g.startswith('_const'):
					continue
				v = st.ghosts[g]
				if isinstance(v, SV):
					st.ghosts[g] = v.fresh_like(g)
				elif z3.is_expr(v):
					st.ghosts[g] = z3.Const(fresh_name(g), v.sort())

	def _written_roots(self, cn, st):
		"""Names whose object the call may write (decided by the callee's contract where the callee can be
		resolved without executing anything; conservatively every argument otherwise)."""
		def root(n):
			while isinstance(n, (ast.Attribute, ast.Subscript, ast.Call)):
				n = n.func if isinstance(n, ast.Call) else n.value
			return n.id if isinstance(n, ast.Name) else None
		argnodes = list(cn.args) + [k.value for k in cn.keywords]
		allroots = [r for r in (root(a) for a in argnodes if isinstance(a, (ast.Name, ast.Subscript, ast.Attribute))) if r]
		f = cn.func
		target = None
		self_root = None
		try:
			if isinstance(f, ast.Name):
				target = self.lookup(f.id, st)
			elif isinstance(f, ast.Attribute) and isinstance(f.value, ast.Name):
				base = self.lookup(f.value.id, st)
				if isinstance(base, ModRef):
					target = self.repo.resolve(f'{base.qualname}.{f.attr}')
				elif isinstance(base, ExtRef):
					target = ExtRef(f'{base.qualname}.{f.attr}')
				elif isinstance(base, ClassRef):
					target = FuncRef(f'{base.qualname}.{f.attr}')
				else:
					bv = st.deref(base) if isinstance(base, Ref) else base
					cls = None
					if isinstance(bv, Record):
						cls = bv.cls
					elif isinstance(bv, SRec):
						cls = bv.T.pyclass
					elif isinstance(bv, SObj):
						cls = self.lib.get('class:' + bv.T.name)
					if cls is not None:
						target = FuncRef(f'{cls}.{f.attr}')
						self_root = f.value.id
					elif ('method:' + f.attr) in self.lib:
						return [r for r in [root(k.value) for k in cn.keywords if k.arg == 'out'] if r]
		except Unsupported:
			target = None
		if isinstance(target, ClassRef):
			c = self.registry.get(target.qualname + '.__init__')
			if c is None or not c.writes or list(c.writes) == ['self']:
				return []
			target = FuncRef(target.qualname + '.__init__')
		if isinstance(target, ExcClass):
			return []
		if isinstance(target, ExtRef):
			h = self.lib.get(target.qualname)
			w = getattr(h, 'writes', ()) if h is not None else None
			if w is None:
				return allroots
			out = [root(k.value) for k in cn.keywords if k.arg == 'out' or k.arg in w]
			out += [root(a) for i, a in enumerate(cn.args) if i in w]
			return [r for r in out if r]
		if isinstance(target, FuncRef):
			c = self.registry.get(target.qualname)
			if c is None:
				return allroots
			try:
				fi = self.repo.funcinfo(target.qualname)
			except Unsupported:
				return allroots
			params = fi.params
			if self_root is not None or (fi.cls is not None and params and params[0] == 'self'):
				pos = params[1:]
			else:
				pos = params
			out = []
			if 'self' in c.writes and self_root:
				out.append(self_root)
			for i, a in enumerate(cn.args):
				if i < len(pos) and pos[i] in c.writes:
					out.append(root(a))
			for k in cn.keywords:
				if k.arg in c.writes:
					out.append(root(k.value))
			return [r for r in out if r]
		return allroots

	def havoc_ref(self, st, ref, name, only_args=False):
		c = st.heap[ref.addr]
		if isinstance(c, Record):
			nf = {}
			for k, v in c.fields.items():
				if isinstance(v, Ref):
					self.havoc_ref(st, v, f'{name}.{k}', only_args)
					nf[k] = v
				elif isinstance(v, SV):
					nf[k] = v.fresh_like(f'{name}.{k}')
				else:
					nf[k] = v
			st.heap[ref.addr] = Record(c.cls, nf)
			return
		if isinstance(c, EmptySet):
			st.heap[ref.addr] = SSet(z3.Const(fresh_name(name), z3.ArraySort(I, B)))
			return
		if hasattr(c, 'fresh_like'):
			nc = c.fresh_like(name)
			if isinstance(nc, SSeq) and ref.kind in ('f32view', 'ndarray', 'memview'):
				nc = SSeq(nc.T, nc.arr, c.length)      # buffers keep their size: only the contents are unknown
			if isinstance(nc, SSeq):
				st.assume(nc.length >= 0)
			if isinstance(nc, SArr) and c.elem is not None and c.elem.kind == 'int':
				j = z3.Int(fresh_name('j'))
				st.assume(z3.ForAll([j], z3.And(z3.Select(nc.arr, j) >= c.elem.lo, z3.Select(nc.arr, j) <= c.elem.hi)))
			st.heap[ref.addr] = nc
		elif isinstance(c, list):
			if not only_args:
				raise Unsupported(f'loop mutates concrete list {name}; declare its type in the invariant')
		else:
			raise Unsupported(f'cannot havoc heap object {name}: {c!r}')

	def run_loop(self, node, st, kind, it=None):
		lid = self.nodeidx.loop[id(node)]
		inv = self.cur_contract.loops.get(lid)
		if inv is None:
			raise Unsupported(f'{self.cur_label}: loop {lid} (line {node.lineno}) iterates a symbolic number of times and has no invariant')
		site = f'loop{lid}'
		cname = inv.counter or f'_i{lid}'
		body_nodes = list(node.body) + ([node.test] if kind == 'while' else [])
		# --- entry: counter, invariant holds
		for i, cl in enumerate(self.cur_contract.before_loop.get(lid, [])):
			if isinstance(cl, str) and cl.startswith('lemma:'):
				st.assume(self.pure(cl[6:], st))   # instance of a lemma proved separately
			else:
				self.oblige(st, site, f'before#{i}', self.pure(cl, st))
		if kind == 'for':
			start, stop = self._iter_bounds(it)
			st.env[cname] = SInt(start) if not isinstance(start, int) else start
			st.env[f'__it{lid}'] = it
		for i, cl in enumerate(inv.clauses):
			self.oblige(st, site, f'inv-init#{i}', self.pure(cl, st))
		st0_for_guard = st.fork()
		# --- arbitrary iteration
		self.havoc(st, body_nodes, inv)
		if kind == 'for':
			c = SInt(z3.Int(fresh_name(cname)))
			st.env[cname] = c
			st.assume(z3.And(c.term >= int_term(start), c.term <= z3.If(int_term(stop) >= int_term(start), int_term(stop), int_term(start))))
		for cl in inv.clauses:
			st.assume(bool_term(self.pure(cl, st)))
		for u in inv.use:
			st.assume(bool_term(self.pure(u, st)))
		m0 = self.pure(inv.decreases, st) if inv.decreases is not None else None

		entered = [0]
		if kind == 'for' and not self.feasible(st0_for_guard, int_term(start) < int_term(stop)):
			entered[0] = 1     # the sequence is provably empty here: not a vacuous invariant

		def after_body(s, out):
			entered[0] += 1
			# reachability canary: some path through the body must be satisfiable (else the invariant is contradictory)
			self.obligations.append(Obligation(f'{self.prop}/{self.cur_label}/{site}/body-reachable', list(s.pc), z3.BoolVal(False), {'expect': 'sat-any'}))
			if out.kind in ('normal', 'continue'):
				if kind == 'for':
					s.env[cname] = SInt(int_term(s.env[cname]) + 1)
				for i, cl in enumerate(inv.clauses):
					self.oblige(s, site, f'inv-preserved#{i}', self.pure(cl, s))
				if m0 is not None:
					m1 = self.pure(inv.decreases, s)
					self.oblige(s, site, 'decreases', z3.And(int_term(m0) >= 0, int_term(m1) < int_term(m0)))
				return None
			if out.kind == 'break':
				self._after_loop(s, lid, site)
				return (s, NORMAL)
			return (s, out)

		if kind == 'while':
			for s2, v in self.ev(node.test, st):
				if isinstance(v, Raised):
					yield s2, Outcome('raise', v)
					continue
				for s3, b in self.branch(s2, self.truth(s2, v)):
					if not b:
						self._after_loop(s3, lid, site)
						yield from self.exec_block(node.orelse, s3)
						continue
					for s4, out in self.exec_block(node.body, s3):
						r = after_body(s4, out)
						if r is not None:
							yield r
			self._loop_vacuity(site, entered)
		else:
			c = st.env[cname]
			for s3, b in self.branch(st, c.term < int_term(stop)):
				if not b:
					self._after_loop(s3, lid, site)
					yield from self.exec_block(node.orelse, s3)
					continue
				for s3b, item in self._iter_item(s3, it, c):
					for s4, r in self.assign(node.target, item, s3b):
						if isinstance(r, Raised):
							yield s4, Outcome('raise', r)
							continue
						for s5, out in self.exec_block(node.body, s4):
							rr = after_body(s5, out)
							if rr is not None:
								yield rr
			self._loop_vacuity(site, entered)

	def _loop_vacuity(self, site, entered):
		if not entered[0]:
			# no path enters the loop body under the assumed invariant: the invariant (or what precedes it) is contradictory
			self.obligations.append(Obligation(f'{self.prop}/{self.cur_label}/{site}/body-reachable', [z3.BoolVal(False)], z3.BoolVal(False), {'expect': 'sat-any'}))

	def _after_loop(self, st, lid, site):
		"""ghost assertions placed after a loop by the contract: proved here, available afterwards"""
		for i, cl in enumerate(self.cur_contract.after_loop.get(lid, [])):
			if isinstance(cl, str) and cl.startswith('lemma:'):
				st.assume(self.pure(cl[6:], st))   # instance of a lemma proved separately
			else:
				self.oblige(st, site, f'after#{i}', self.pure(cl, st))

	def _iter_bounds(self, it):
		if hasattr(it, 'iter_bounds'):
			return it.iter_bounds()
		if isinstance(it, SRange):
			if it.step != 1:
				raise Unsupported('range with a step other than 1')
			return it.start, it.stop
		if isinstance(it, (SSeq, SArr)):
			return 0, it.length
		if isinstance(it, SEnumerate):
			return self._iter_bounds(it.inner)
		if isinstance(it, SZip):
			return 0, it.length
		raise Unsupported(f'iteration over {it!r}')

	def _iter_item(self, st, it, c):
		if hasattr(it, 'iter_item'):
			yield st, it.iter_item(c)
			return
		if isinstance(it, SRange):
			yield st, SInt(c.term, it.ctype)
		elif isinstance(it, SSeq):
			yield st, it.at(c.term)
		elif isinstance(it, SArr):
			yield st, SInt(it.at(c.term), it.elem)
		elif isinstance(it, SEnumerate):
			for s2, x in self._iter_item(st, it.inner, c):
				yield s2, (SInt(c.term + int_term(it.start)), x)
		elif isinstance(it, SZip):
			yield st, tuple(next(self._iter_item(st, x, c))[1] for x in it.inners)
		else:
			raise Unsupported(f'iteration over {it!r}')

	# ---- try / with --------------------------------------------------------------------------
	def x_Try(self, node, st):
		if node.finalbody:
			raise Unsupported('try/finally')
		for s2, out in self.exec_block(node.body, st):
			if out.kind == 'raise':
				handled = False
				for h in node.handlers:
					names = self._handler_names(h, s2)
					if any(exc_isinstance(out.value.exc, n) for n in names):
						handled = True
						s3 = s2
						if h.name:
							s3.env[h.name] = ExcInstance(out.value.exc, out.value.msg or ())
						s3.env['__current_exc__'] = out.value
						yield from self.exec_block(h.body, s3)
						break
				if not handled:
					yield s2, out
			elif out.kind == 'normal':
				yield from self.exec_block(node.orelse, s2)
			else:
				yield s2, out

	def _handler_names(self, h, st):
		if h.type is None:
			return ['BaseException']
		ts = h.type.elts if isinstance(h.type, ast.Tuple) else [h.type]
		out = []
		for t in ts:
			out.append(ast.unparse(t).split('.')[-1])
		return out

	def x_With(self, node, st):
		yield from self._with_items(node, list(node.items), st)

	def _with_items(self, node, items, st):
		if not items:
			yield from self.exec_block(node.body, st)
			return
		it = items[0]
		for s2, cm in self.ev(it.context_expr, st):
			if isinstance(cm, Raised):
				yield s2, Outcome('raise', cm)
				continue
			for s3, entered in self.lib_enter(s2, cm, it.context_expr):
				if isinstance(entered, Raised):
					yield s3, Outcome('raise', entered)
					continue
				if it.optional_vars is not None:
					for s4, r in self.assign(it.optional_vars, entered, s3):
						if isinstance(r, Raised):
							yield s4, Outcome('raise', r)
						else:
							for s5, out in self._with_items(node, items[1:], s4):
								yield from self.lib_exit(s5, cm, out)
				else:
					for s5, out in self._with_items(node, items[1:], s3):
						yield from self.lib_exit(s5, cm, out)

	def lib_enter(self, st, cm, node):
		h = self.lib.get('__enter__')
		if h is None:
			raise Unsupported('with statement (no context manager model loaded)')
		yield from h(self, st, cm, node)

	def lib_exit(self, st, cm, out):
		h = self.lib.get('__exit__')
		yield from h(self, st, cm, out)

	def x_FunctionDef(self, node, st):
		st.env[node.name] = Closure(node, st.env, self.cur_finfo)
		yield st, NORMAL

	def x_Delete(self, node, st):
		if len(node.targets) == 1 and isinstance(node.targets[0], ast.Subscript):
			t = node.targets[0]
			for s2, vs in self.ev_list([t.value, t.slice], st):
				if isinstance(vs, Raised):
					yield s2, Outcome('raise', vs)
					continue
				obj, key = vs
				c = s2.deref(obj)
				if isinstance(c, dict) and not is_sym(key) and isinstance(obj, Ref):
					if key not in c:
						yield s2, Outcome('raise', Raised('KeyError'))
						continue
					nc = dict(c)
					del nc[key]
					s2.heap[obj.addr] = nc
					yield s2, NORMAL
					continue
				raise Unsupported('del on a non-concrete container')
			return
		raise Unsupported('del statement')

	# ---- expressions -------------------------------------------------------------------------
	def truth(self, st, v):
		if isinstance(v, Ref):
			c = st.heap[v.addr]
			if isinstance(c, (SSeq, SArr)):
				return c.length != 0
			if isinstance(c, (list, dict, set)):
				return len(c) != 0
			if isinstance(c, SDict):
				return c.size != 0
			if isinstance(c, Record):
				return True
			raise Unsupported(f'truthiness of {c!r}')
		if isinstance(v, (ExtObj,)):
			return True
		return truth(v)

	def ev(self, node, st):
		self._budget()
		m = getattr(self, 'e_' + type(node).__name__, None)
		if m is None:
			raise Unsupported(f'expression {type(node).__name__} at line {getattr(node, "lineno", "?")}')
		yield from m(node, st)

	def ev_list(self, nodes, st):
		if not nodes:
			yield st, []
			return
		for s2, v in self.ev(nodes[0], st):
			if isinstance(v, Raised):
				yield s2, v
				continue
			for s3, rest in self.ev_list(nodes[1:], s2):
				if isinstance(rest, Raised):
					yield s3, rest
				else:
					yield s3, [v] + rest

	def e_Constant(self, node, st):
		yield st, node.value

	def e_JoinedStr(self, node, st):
		parts = []
		cur = [(st, [])]
		for p in node.values:
			nxt = []
			for s, acc in cur:
				if isinstance(p, ast.Constant):
					nxt.append((s, acc + [p.value]))
				else:
					try:
						for s2, v in self.ev(p.value, s):
							if isinstance(v, Raised):
								nxt.append((s2, acc + [None]))
							else:
								nxt.append((s2, acc + [v if (p.conversion == -1 and p.format_spec is None) else None]))
					except Unsupported:
						nxt.append((s, acc + [None]))
			cur = nxt
		for s, acc in cur:
			if all(isinstance(a, (str, int)) and not isinstance(a, bool) for a in acc):
				yield s, ''.join(str(a) for a in acc)
			elif all(isinstance(a, (str, SStr)) for a in acc) and len(acc) >= 2:
				# plain interpolation of (symbolic) strings: the concatenation
				yield s, SStr(z3.Concat(*[a.term if isinstance(a, SStr) else z3.StringVal(a) for a in acc]))
			else:
				yield s, OpaqueStr()

	def lookup(self, name, st):
		if name in st.env:
			v = st.env[name]
			if isinstance(v, Cell):
				return st.heap[v.ref.addr]
			return v
		fi = self.cur_finfo
		mod = fi.module
		if name in mod.functions:
			return FuncRef(f'{mod.qualname}.{name}')
		if name in mod.classes:
			return ClassRef(f'{mod.qualname}.{name}')
		if name in mod.imports:
			r = self.repo.resolve(mod.imports[name])
			if isinstance(r, ExtRef) and r.qualname.startswith('gambit.'):
				mname, attr = r.qualname.rsplit('.', 1)
				if self.repo.is_module(mname) and attr in self.repo.module(mname).const_nodes:
					return self.module_const(st, self.repo.module(mname), attr)
			return r
		if name in mod.const_nodes:
			try:
				return mod.const(name)
			except Unsupported:
				return self.module_const(st, mod, name)
		if name in EXC_PARENT:
			return ExcClass(name)
		return ExtRef(f'builtins.{name}')

	def e_Name(self, node, st):
		yield st, self.lookup(node.id, st)

	def module_const(self, st, mod, name):
		"""A module-level constant defined by a non-literal expression: evaluated by this interpreter
		(in the current heap), it must have exactly one, non-raising value."""
		saved_fi, saved_env = self.cur_finfo, st.env
		self.cur_finfo = FuncInfo(f'{mod.qualname}.<module>', ast.parse('def _m(): pass').body[0], mod)
		saved_idx = self.nodeidx
		self.nodeidx = _NodeIndex(mod.const_nodes[name])
		st.env = {}
		try:
			rs = list(self.ev(mod.const_nodes[name], st))
		finally:
			self.cur_finfo, self.nodeidx = saved_fi, saved_idx
			st.env = saved_env
		if len(rs) != 1 or isinstance(rs[0][1], Raised) or rs[0][0] is not st:
			raise Unsupported(f'module constant {mod.qualname}.{name} has no single value')
		return rs[0][1]

	def e_Tuple(self, node, st):
		for s2, vs in self.ev_list(node.elts, st):
			yield s2, (vs if isinstance(vs, Raised) else tuple(vs))

	def e_List(self, node, st):
		if any(isinstance(e, ast.Starred) for e in node.elts):
			yield from self._starred_list(node, st)
			return
		for s2, vs in self.ev_list(node.elts, st):
			if isinstance(vs, Raised):
				yield s2, vs
				continue
			r = Ref('list')
			s2.heap[r.addr] = list(vs)
			yield s2, r

	def _starred_list(self, node, st):
		"""[a, *xs, b]: concatenation; with a symbolic part the result is a fresh sequence defined piecewise"""
		plain = [e.value if isinstance(e, ast.Starred) else e for e in node.elts]
		for s2, vs in self.ev_list(plain, st):
			if isinstance(vs, Raised):
				yield s2, vs
				continue
			parts = []
			for e, v in zip(node.elts, vs):
				if isinstance(e, ast.Starred):
					d = s2.deref(v)
					if isinstance(d, ConcreteIter):
						d = d.items
					parts.append(('seq', d))
				else:
					parts.append(('one', v))
			if all(k == 'one' or isinstance(d, (list, tuple)) for k, d in parts):
				out = []
				for k, d in parts:
					out.extend([d] if k == 'one' else list(d))
				r = Ref('list')
				s2.heap[r.addr] = out
				yield s2, r
				continue
			T = None
			for k, d in parts:
				if k == 'seq' and isinstance(d, SSeq):
					T = d.T
			if T is None:
				raise Unsupported('starred list display over non-sequences')
			R = TSeq(T).fresh('cat')
			off = z3.IntVal(0)
			for k, d in parts:
				if k == 'one':
					s2.assume(z3.Select(R.arr, off) == T.unwrap(d))
					off = off + 1
				elif isinstance(d, (list, tuple)):
					for x in d:
						s2.assume(z3.Select(R.arr, off) == T.unwrap(x))
						off = off + 1
				else:
					j = z3.Int(fresh_name('j'))
					s2.assume(z3.ForAll([j], z3.Implies(z3.And(0 <= j, j < d.length), z3.Select(R.arr, off + j) == z3.Select(d.arr, j))))
					off = off + d.length
			s2.assume(R.length == z3.simplify(off))
			r = Ref('list')
			s2.heap[r.addr] = R
			yield s2, r

	def e_Dict(self, node, st):
		if node.keys:
			raise Unsupported('non-empty dict display')
		r = Ref('dict')
		st.heap[r.addr] = {}
		yield st, r

	def e_UnaryOp(self, node, st):
		for s2, v in self.ev(node.operand, st):
			if isinstance(v, Raised):
				yield s2, v
			elif isinstance(node.op, ast.Not):
				t = self.truth(s2, v)
				yield s2, wrap_bool(simp(mk_not(t)))
			elif isinstance(node.op, ast.USub):
				if isinstance(v, (int, float)):
					yield s2, -v
				elif isinstance(v, SInt):
					yield s2, SInt(-v.term, v.ctype)
				elif isinstance(v, SReal):
					yield s2, SReal(-v.term)
				else:
					raise Unsupported(f'unary minus on {v!r}')
			else:
				raise Unsupported(f'unary {type(node.op).__name__}')

	def e_BinOp(self, node, st):
		for s2, a in self.ev(node.left, st):
			if isinstance(a, Raised):
				yield s2, a
				continue
			for s3, b in self.ev(node.right, s2):
				if isinstance(b, Raised):
					yield s3, b
					continue
				h = self.lib.get('__binop__')
				if h is not None:
					r = h(self, s3, type(node.op), a, b, node)
					if r is not None:
						yield from r
						continue
				v, obl = binop(type(node.op), s3.deref(a) if isinstance(a, Ref) and a.kind in ('bytearray',) else a, b, self.cur_finfo.cython)
				for kind, g in obl:
					if kind == 'ZeroDivisionError':
						for s4, ok in self.branch(s3, g):
							if ok:
								yield s4, v
							else:
								yield s4, Raised('ZeroDivisionError')
						break
					self.oblige(s3, f'arith#{self.nodeidx.arith.get(id(node), "?")}', kind, g)
				else:
					yield s3, v

	def e_BoolOp(self, node, st):
		yield from self._boolop(node, node.values, st)

	def _boolop(self, node, values, st):
		for s2, v in self.ev(values[0], st):
			if isinstance(v, Raised) or len(values) == 1:
				yield s2, v
				continue
			t = self.truth(s2, v)
			for s3, b in self.branch(s2, t):
				if isinstance(node.op, ast.And):
					if b:
						yield from self._boolop(node, values[1:], s3)
					else:
						yield s3, (v if not is_sym(v) and not isinstance(v, Ref) else False) if isinstance(t, bool) else False
				else:
					if b:
						yield s3, (v if isinstance(t, bool) else True)
					else:
						yield from self._boolop(node, values[1:], s3)

	def e_Compare(self, node, st):
		yield from self._compare(node, node.left, list(node.ops), list(node.comparators), st)

	def _compare(self, node, left, ops, comps, st):
		for s2, a in self.ev(left, st) if isinstance(left, ast.AST) else [(st, left)]:
			if isinstance(a, Raised):
				yield s2, a
				continue
			for s3, b in self.ev(comps[0], s2):
				if isinstance(b, Raised):
					yield s3, b
					continue
				r = self.cmp_values(s3, type(ops[0]), a, b, node)
				if isinstance(r, Ref):
					yield s3, r          # element-wise comparison of an array: a boolean array
					continue
				if len(ops) == 1:
					yield s3, wrap_bool(simp(r))
				else:
					for s4, ok in self.branch(s3, r):
						if not ok:
							yield s4, False
						else:
							yield from self._compare(node, b, ops[1:], comps[1:], s4)

	def cmp_values(self, st, op, a, b, node=None):
		cm = self.cur_finfo.cython
		h = self.lib.get('__compare__')
		if h is not None:
			r = h(self, st, op, a, b, node)
			if r is not None:
				return r
		if op in (ast.In, ast.NotIn):
			bb = st.deref(b)
			if isinstance(bb, dict):
				bb = tuple(bb.keys())
			if isinstance(bb, SDict):
				r = bb.has(a)
			else:
				r = contains(st.deref(a) if isinstance(a, Ref) else a, bb, cm)
			return r if op is ast.In else mk_not(r)
		if isinstance(a, Ref) and a.kind in ('bytearray', 'bytes'):
			a = st.deref(a)
		if isinstance(b, Ref) and b.kind in ('bytearray', 'bytes'):
			b = st.deref(b)
		if op in (ast.Lt, ast.LtE, ast.Gt, ast.GtE):
			# None in an ordering comparison is a TypeError: the optional operand must be present here
			if isinstance(a, SOpt):
				self.oblige(st, f'compare{self._site(node)}', 'operand-not-None', z3.Not(a.is_none()))
				a = a.value()
			if isinstance(b, SOpt):
				self.oblige(st, f'compare{self._site(node)}', 'operand-not-None', z3.Not(b.is_none()))
				b = b.value()
		r, obl = compare(op, a, b, cm)
		for kind, g in obl:
			self.oblige(st, f'compare{self._site(node)}', kind, g)
		return r

	def e_IfExp(self, node, st):
		for s2, v in self.ev(node.test, st):
			if isinstance(v, Raised):
				yield s2, v
				continue
			for s3, b in self.branch(s2, self.truth(s2, v)):
				yield from self.ev(node.body if b else node.orelse, s3)

	def e_Lambda(self, node, st):
		yield st, Closure(node, st.env, self.cur_finfo)

	def e_Attribute(self, node, st):
		for s2, obj in self.ev(node.value, st):
			if isinstance(obj, Raised):
				yield s2, obj
				continue
			yield from self.getattr(s2, obj, node.attr, node)

	def getattr(self, st, obj, attr, node=None):
		if isinstance(obj, ModRef):
			yield st, self.repo.resolve(f'{obj.qualname}.{attr}')
			return
		if isinstance(obj, ExtRef):
			h = self.lib.get('getattr:' + obj.qualname + '.' + attr)
			if h is not None:
				yield from h(self, st, obj, node)
			else:
				yield st, ExtRef(f'{obj.qualname}.{attr}')
			return
		if isinstance(obj, ClassRef):
			mod, cls = self.repo.classinfo(obj.qualname)
			for n in cls.body:
				if isinstance(n, ast.FunctionDef) and n.name == attr:
					yield st, FuncRef(f'{obj.qualname}.{attr}')
					return
				if isinstance(n, ast.Assign) and isinstance(n.targets[0], ast.Name) and n.targets[0].id == attr:
					yield st, mod._const_eval(n.value)
					return
			yield st, FuncRef(f'{obj.qualname}.{attr}')
			return
		if isinstance(obj, SSlice):
			if attr in ('start', 'stop', 'step'):
				yield st, getattr(obj, attr)
			else:
				yield st, BoundMethod(obj, attr)
			return
		if isinstance(obj, SObj):
			if attr in obj.T.fields:
				yield st, obj.getattr(attr)
			else:
				yield st, BoundMethod(obj, attr)
			return
		if isinstance(obj, SRec):
			if obj.has(attr):
				yield st, obj.getattr(attr)
			else:
				yield st, BoundMethod(obj, attr)
			return
		if isinstance(obj, SMaybe):
			for s2, isn in self.branch(st, obj.none):
				if isn:
					yield s2, Raised('AttributeError')
				else:
					yield from self.getattr(s2, obj.ref, attr, node)
			return
		if isinstance(obj, Ref):
			c = st.heap[obj.addr]
			if isinstance(c, Record):
				if attr in c.fields:
					yield st, c.fields[attr]
					return
				ca = self._class_attr(st, c.cls, attr)
				if ca is not None:
					yield st, ca[0]
					return
				# @property of a repository class: reading the attribute calls the getter
				try:
					pfi = self.repo.funcinfo(f'{c.cls}.{attr}') if c.cls.startswith('gambit') else None
				except Unsupported:
					pfi = None
				if pfi is not None and any(ast.unparse(d) == 'property' for d in pfi.node.decorator_list):
					yield from self.call_repo(st, pfi.qualname, [], {}, node, f'property:{attr}', self_val=obj)
					return
				yield st, BoundMethod(obj, attr)
				return
			if isinstance(c, SArr) and attr == 'shape':
				yield st, (SInt(c.length, CTYPES['Py_ssize_t'] if self.cur_finfo.cython else None),)
				return
			h = self.lib.get('attr:' + obj.kind)
			if h is not None:
				r = h(self, st, obj, attr, node)
				if r is not None:
					yield from r
					return
			yield st, BoundMethod(obj, attr)
			return
		h = self.lib.get('attr:' + type(obj).__name__)
		if h is not None:
			r = h(self, st, obj, attr, node)
			if r is not None:
				yield from r
				return
		if isinstance(obj, (str, bytes, SArr, SStr, SSeq, tuple, ExtObj, ExcInstance, SSet, SDict, SInt, SReal, int, float)):
			yield st, BoundMethod(obj, attr)
			return
		raise Unsupported(f'attribute {attr} of {obj!r} (line {getattr(node, "lineno", "?")})')

	def _class_attr(self, st, clsname, attr, depth=0):
		"""value of a class-level assignment (e.g. a column table), searched along the bases; None if there is none"""
		if depth > 6 or not clsname.startswith('gambit.'):
			return None
		try:
			mod, cls = self.repo.classinfo(clsname)
		except Unsupported:
			return None
		for n in cls.body:
			if isinstance(n, ast.Assign) and len(n.targets) == 1 and isinstance(n.targets[0], ast.Name) and n.targets[0].id == attr:
				try:
					return (mod._const_eval(n.value),)
				except Unsupported:
					return None
		for b in cls.bases:
			bn = ast.unparse(b)
			if bn in mod.classes:
				r = self._class_attr(st, f'{mod.qualname}.{bn}', attr, depth + 1)
				if r is not None:
					return r
		return None

	def store_attr(self, st, obj, attr, v, node):
		if isinstance(obj, Ref) and isinstance(st.heap[obj.addr], Record):
			rec = st.heap[obj.addr]
			nf = dict(rec.fields)
			nf[attr] = v
			st.heap[obj.addr] = Record(rec.cls, nf)
			yield st, None
			return
		if isinstance(obj, ExcInstance):
			yield st, None        # attributes of exception objects (messages, file names) carry no verified meaning
			return
		h = self.lib.get('setattr:' + type(obj).__name__)
		if h is not None:
			yield from h(self, st, obj, attr, v, node)
			return
		raise Unsupported(f'attribute store {attr} on {obj!r}')

	# ---- subscripts --------------------------------------------------------------------------
	def ev_index(self, node, st):
		if isinstance(node, ast.Slice):
			parts = [node.lower, node.upper, node.step]
			cur = [(st, [])]
			for p in parts:
				nxt = []
				for s, acc in cur:
					if p is None:
						nxt.append((s, acc + [None]))
					else:
						for s2, v in self.ev(p, s):
							if isinstance(v, Raised):
								yield s2, v
							else:
								nxt.append((s2, acc + [v]))
				cur = nxt
			for s, acc in cur:
				yield s, SSlice(*acc)
		elif isinstance(node, ast.Tuple):
			cur = [(st, [])]
			for p in node.elts:
				nxt = []
				for s, acc in cur:
					for s2, v in self.ev_index(p, s):
						if isinstance(v, Raised):
							yield s2, v
						else:
							nxt.append((s2, acc + [v]))
				cur = nxt
			for s, acc in cur:
				yield s, tuple(acc)
		else:
			yield from self.ev(node, st)

	def e_Slice(self, node, st):
		yield from self.ev_index(node, st)

	def e_Subscript(self, node, st):
		for s2, obj in self.ev(node.value, st):
			if isinstance(obj, Raised):
				yield s2, obj
				continue
			for s3, idx in self.ev_index(node.slice, s2):
				if isinstance(idx, Raised):
					yield s3, idx
					continue
				yield from self.load_subscript(s3, obj, idx, node)

	def load_subscript(self, st, obj, idx, node):
		site = f'subscript#{self.nodeidx.sub.get(id(node), "?")}'
		cm = self.cur_finfo.cython
		h = self.lib.get('__getitem__')
		if h is not None:
			r = h(self, st, obj, idx, node, site)
			if r is not None:
				yield from r
				return
		if isinstance(obj, Ptr):
			if not (isinstance(idx, int) and idx == 0):
				raise Unsupported('pointer load at an offset other than 0')
			yield st, st.heap[obj.ref.addr]
			return
		c = st.deref(obj)
		if isinstance(c, (tuple, list, str, bytes)) and isinstance(idx, int):
			try:
				yield st, c[idx]
			except IndexError:
				yield st, Raised('IndexError')
			return
		if isinstance(c, (tuple, list)) and isinstance(idx, SSlice) and all(isinstance(x, int) or x is None for x in (idx.start, idx.stop, idx.step)):
			r = c[slice(idx.start, idx.stop, idx.step)]
			if isinstance(c, list):
				ref = Ref('list')
				st.heap[ref.addr] = list(r)
				yield st, ref
			else:
				yield st, r
			return
		if isinstance(c, (tuple, list)) and isinstance(idx, SInt):
			# symbolic index into a concrete sequence: case split
			for k in range(len(c)):
				for s2, b in self.branch(st, idx.term == k):
					if b:
						yield s2, c[k]
			return
		if isinstance(c, (SArr, SSeq)):
			if isinstance(idx, SSlice):
				yield from self.slice_seq(st, c, idx, node, site)
				return
			if is_intlike(idx):
				i = int_term(idx)
				inb = z3.And(i >= 0, i < c.length)
				if cm:
					# boundscheck=False, wraparound=False: out of bounds is undefined behaviour
					self.oblige(st, site, 'in-bounds', inb)
					yield st, (SInt(c.at(i), c.elem) if isinstance(c, SArr) else c.at(i))
				else:
					for s2, neg in self.branch(st, i < 0):
						j = i + c.length if neg else i
						for s3, ok in self.branch(s2, z3.And(j >= 0, j < c.length)):
							if ok:
								yield s3, (SInt(c.at(j), c.elem) if isinstance(c, SArr) else c.at(j))
							else:
								yield s3, Raised('IndexError')
				return
		if isinstance(c, dict):
			if not is_sym(idx) and not isinstance(idx, Ref):
				if idx in c:
					yield st, c[idx]
				else:
					yield st, Raised('KeyError')
				return
		if isinstance(c, SDict):
			for s2, b in self.branch(st, c.has(idx)):
				if b:
					yield s2, c.get(idx)
				else:
					yield s2, Raised('KeyError')
			return
		raise Unsupported(f'subscript of {c!r} with {idx!r} (line {node.lineno})')

	def slice_seq(self, st, c, idx, node, site):
		if idx.step is not None and not (isinstance(idx.step, int) and idx.step == 1):
			raise Unsupported('slice with a step')
		n = c.length
		cm = self.cur_finfo.cython

		def clamp(v, default):
			if v is None:
				return default
			t = int_term(v)
			if cm:
				return t
			t = z3.If(t < 0, t + n, t)
			return z3.If(t < 0, 0, z3.If(t > n, n, t))
		lo = clamp(idx.start, z3.IntVal(0))
		hi = clamp(idx.stop, n)
		if cm:
			self.oblige(st, site, 'slice-in-bounds', z3.And(lo >= 0, lo <= hi, hi <= n))
		else:
			hi = z3.If(hi < lo, lo, hi)
		lo, hi = z3.simplify(lo), z3.simplify(hi)
		if isinstance(c, SArr):
			yield st, c.sub(lo, hi)
		else:
			# slice of a symbolic list: a new list with the selected elements
			R = TSeq(c.T).fresh('slice')
			j = z3.Int(fresh_name('j'))
			st.assume(R.length == hi - lo)
			st.assume(z3.ForAll([j], z3.Implies(z3.And(0 <= j, j < hi - lo), z3.Select(R.arr, j) == z3.Select(c.arr, lo + j))))
			ref = Ref('list')
			st.heap[ref.addr] = R
			yield st, ref

	def store_subscript(self, st, obj, idx, v, node):
		site = f'subscript#{self.nodeidx.sub.get(id(node), "?")}'
		cm = self.cur_finfo.cython
		h = self.lib.get('__setitem__')
		if h is not None:
			r = h(self, st, obj, idx, v, node, site)
			if r is not None:
				yield from r
				return
		if isinstance(obj, Ptr):
			if not (isinstance(idx, int) and idx == 0):
				raise Unsupported('pointer store at an offset other than 0')
			st.heap[obj.ref.addr] = v
			yield st, None
			return
		if isinstance(obj, Ref):
			c = st.heap[obj.addr]
			if isinstance(c, SArr) and is_intlike(idx):
				i = int_term(idx)
				v = lit_to_c(v)
				vt = int_term(v)
				inb = z3.And(i >= 0, i < c.length)
				if cm:
					self.oblige(st, site, 'in-bounds', inb)
					if c.elem is not None:
						self.oblige(st, site, f'fits[{c.elem.name}]', z3.And(vt >= c.elem.lo, vt <= c.elem.hi))
					st.heap[obj.addr] = c.store(i, vt)
					yield st, None
				else:
					for s2, neg in self.branch(st, i < 0):
						j = i + c.length if neg else i
						for s3, ok in self.branch(s2, z3.And(j >= 0, j < c.length)):
							if ok:
								s3.heap[obj.addr] = s3.heap[obj.addr].store(j, vt)
								yield s3, None
							else:
								yield s3, Raised('IndexError')
				return
			if isinstance(c, SSeq) and is_intlike(idx) and cm:
				i = int_term(idx)
				self.oblige(st, site, 'in-bounds', z3.And(i >= 0, i < c.length))
				st.heap[obj.addr] = c.store(i, self.to_elem(st, c.T, v))
				yield st, None
				return
			if isinstance(c, SSeq) and is_intlike(idx):
				i = int_term(idx)
				for s2, neg in self.branch(st, i < 0):
					j = i + c.length if neg else i
					for s3, ok in self.branch(s2, z3.And(j >= 0, j < c.length)):
						if ok:
							s3.heap[obj.addr] = s3.heap[obj.addr].store(j, v)
							yield s3, None
						else:
							yield s3, Raised('IndexError')
				return
			if isinstance(c, list) and isinstance(idx, int):
				nc = list(c)
				try:
					nc[idx] = v
				except IndexError:
					yield st, Raised('IndexError')
					return
				st.heap[obj.addr] = nc
				yield st, None
				return
			if isinstance(c, dict) and not is_sym(idx):
				nc = dict(c)
				nc[idx] = v
				st.heap[obj.addr] = nc
				yield st, None
				return
			if isinstance(c, SDict):
				st.heap[obj.addr] = c.set(idx, v)
				yield st, None
				return
		raise Unsupported(f'subscript store on {obj!r} with {idx!r} (line {node.lineno})')

	# ---- calls -------------------------------------------------------------------------------
	def e_Call(self, node, st):
		for s2, f in self.ev(node.func, st):
			if isinstance(f, Raised):
				yield s2, f
				continue
			argnodes = []
			for a in node.args:
				if isinstance(a, ast.Starred):
					raise Unsupported('*args in call')
				argnodes.append(a)
			for s3, args in self.ev_list(argnodes, s2):
				if isinstance(args, Raised):
					yield s3, args
					continue
				kwn = [k for k in node.keywords]
				if any(k.arg is None for k in kwn):
					# **kw: supported when it is a concrete dict
					pass
				for s4, kwv in self.ev_list([k.value for k in kwn], s3):
					if isinstance(kwv, Raised):
						yield s4, kwv
						continue
					kwargs = {}
					for k, v in zip(kwn, kwv):
						if k.arg is None:
							d = s4.deref(v)
							if not isinstance(d, dict):
								raise Unsupported('** of a non-concrete dict')
							kwargs.update(d)
						else:
							kwargs[k.arg] = v
					yield from self.call(s4, f, args, kwargs, node)

	def call(self, st, f, args, kwargs, node):
		site = f'call:{self.nodeidx.call.get(id(node), "?")}'
		if isinstance(f, FuncRef):
			yield from self.call_repo(st, f.qualname, args, kwargs, node, site)
		elif isinstance(f, ExtRef):
			h = self.lib.get(f.qualname)
			if h is None:
				raise Unsupported(f'call of {f.qualname} (no library contract) at line {node.lineno}')
			self.assumptions_used.add(f.qualname)
			_guard_kwargs(h, kwargs, f.qualname, args)
			yield from h(self, st, args, kwargs, node)
		elif isinstance(f, ExcClass):
			yield st, ExcInstance(f.name, tuple(args))
		elif isinstance(f, BoundMethod):
			yield from self.call_method(st, f.obj, f.name, args, kwargs, node, site)
		elif isinstance(f, ClassRef):
			yield from self.construct(st, f, args, kwargs, node, site)
		elif isinstance(f, Closure):
			yield from self.call_closure(st, f, args, kwargs, node)
		elif isinstance(f, ExtObj) and ('call:' + f.kind) in self.lib:
			yield from self.lib['call:' + f.kind](self, st, f, args, kwargs, node)
		else:
			raise Unsupported(f'call of {f!r} at line {node.lineno}')

	def call_closure(self, st, f, args, kwargs, node):
		if isinstance(f.node, ast.Lambda):
			saved = st.env
			env = dict(f.env)
			env.update(st.env)
			for a, v in zip(f.node.args.args, args):
				env[a.arg] = v
			st.env = env
			for s2, v in self.ev(f.node.body, st):
				s2.env = {k: s2.env.get(k, saved.get(k)) for k in saved}
				yield s2, v
			return
		yield from self.inline_call(st, f.node, f.finfo, args, kwargs, node, extra_env=f.env)

	def bind_args(self, fnode, args, kwargs, self_val=None, defaults_env=None):
		"""Concrete binding of actuals to formals -> dict (defaults as AST nodes wrapped)."""
		a = fnode.args
		pos = [x.arg for x in a.posonlyargs + a.args]
		bound = {}
		actual = list(args)
		if self_val is not None:
			actual = [self_val] + actual
		if len(actual) > len(pos) and a.vararg is None:
			raise Unsupported(f'too many positional arguments for {fnode.name}')
		for n, v in zip(pos, actual):
			bound[n] = v
		if a.vararg is not None:
			bound[a.vararg.arg] = tuple(actual[len(pos):])
		kw = dict(kwargs)
		for n in pos[len(actual):] + [x.arg for x in a.kwonlyargs]:
			if n in kw:
				bound[n] = kw.pop(n)
		if a.kwarg is not None:
			bound[a.kwarg.arg] = ('**', kw)
			kw = {}
		if kw:
			raise Unsupported(f'unexpected keyword arguments {list(kw)} for {fnode.name}')
		# defaults
		dpos = a.defaults
		for n, d in zip(pos[len(pos) - len(dpos):], dpos):
			if n not in bound:
				bound[n] = ('default', d)
		for x, d in zip(a.kwonlyargs, a.kw_defaults):
			if x.arg not in bound and d is not None:
				bound[x.arg] = ('default', d)
		for n in pos + [x.arg for x in a.kwonlyargs]:
			if n not in bound:
				raise Unsupported(f'missing argument {n} for {fnode.name}')
		return bound

	def _eval_defaults(self, st, bound):
		out = {}
		for k, v in bound.items():
			if isinstance(v, tuple) and len(v) == 2 and v[0] == 'default' and isinstance(v[1], ast.AST):
				try:
					out[k] = ast.literal_eval(v[1])
				except Exception:
					rs = list(self.ev(v[1], st))
					if len(rs) != 1 or isinstance(rs[0][1], Raised):
						raise Unsupported('default argument expression')
					out[k] = rs[0][1]
			elif isinstance(v, tuple) and len(v) == 2 and v[0] == '**':
				r = Ref('dict')
				st.heap[r.addr] = dict(v[1])
				out[k] = r
			else:
				out[k] = v
		return out

	def call_repo(self, st, qualname, args, kwargs, node, site, self_val=None):
		c = self.registry.get(qualname)
		h = self.lib.get(qualname)
		if h is not None and (c is None):
			yield from h(self, st, args if self_val is None else [self_val] + list(args), kwargs, node)
			return
		try:
			fi = self.repo.funcinfo(qualname)
		except Unsupported:
			if c is not None and c.trusted:
				# an abstract method (no body in this class): only its assumed contract exists
				names = list(c.types)
				actual = ([self_val] if self_val is not None else []) + list(args)
				bound = dict(zip(names, actual))
				bound.update(kwargs)
				yield from self.apply_contract(st, c, None, bound, site)
				return
			raise
		if self_val is None and fi.cls is not None and any(ast.unparse(d) == 'classmethod' for d in fi.node.decorator_list):
			self_val = ClassRef(qualname.rsplit('.', 1)[0])
		unfold = False
		if c is not None and not c.inline and c.hints.get('unfold_recursion') and c is self.cur_contract:
			# a re-entrant call of the function under verification (e.g. through a property that calls back): its body is
			# unfolded once instead of using the contract; deeper re-entrance uses the contract
			depth = getattr(self, '_unfold_depth', 0)
			if depth < 1:
				unfold = True
		if unfold:
			self._unfold_depth = getattr(self, '_unfold_depth', 0) + 1
			try:
				yield from self.inline_call(st, fi.node, fi, args, kwargs, node, self_val=self_val)
			finally:
				self._unfold_depth -= 1
			return
		if c is None or c.inline:
			if c is None and qualname not in self.registry.inline:
				# a repository function without a contract (e.g. a helper introduced by a refactoring): its real body is
				# executed symbolically in place, which is sound; it is listed in the evidence
				self.inlined_without_contract.add(qualname)
			yield from self.inline_call(st, fi.node, fi, args, kwargs, node, self_val=self_val)
			return
		bound = self._eval_defaults(st, self.bind_args(fi.node, args, kwargs, self_val))
		if fi.cython:
			yield from self._cy_coerce_args(st, c, fi, bound, site, 0)
		else:
			yield from self.apply_contract(st, c, fi, bound, site)

	def _cy_coerce_args(self, st, c, fi, bound, site, k):
		"""Python object -> C argument conversion at the boundary of a de-cythonised function."""
		a = fi.node.args
		params = a.posonlyargs + a.args
		while k < len(params):
			p = params[k]
			k += 1
			if p.annotation is None or not isinstance(p.annotation, ast.Constant):
				continue
			tname = p.annotation.value
			if tname.endswith('[:]'):
				v = bound[p.arg]
				vv = st.deref(v)
				if not (isinstance(vv, (SArr, SSeq)) and getattr(vv, 'kind', 'ndarray') in ('bytes', 'bytearray', 'memview', 'ndarray', 'f32view')):
					yield st, Raised('TypeError')
					return
				base = tname[:-3].strip()
				cm = fi.module.cymod
				if isinstance(vv, SArr) and vv.kind == 'ndarray' and cm is not None:
					allowed = cm.fused.get(base, [base])
					names = set()
					for a_ in allowed:
						t_ = self._resolve_ctype_of(fi, a_)
						names.add((t_.kind, t_.signed, t_.bits))
					if vv.elem is None or (vv.elem.kind, vv.elem.signed, vv.elem.bits) not in names:
						yield st, Raised('TypeError')   # no matching buffer dtype / fused specialisation
						return
				continue
			if tname.endswith('*'):
				continue
			ct = self._resolve_ctype_of(fi, tname)
			if ct.kind != 'int':
				continue
			v = bound[p.arg]
			t = int_term(lit_to_c(v))
			rng = z3.And(t >= ct.lo, t <= ct.hi)
			if isinstance(v, SInt) and v.ctype is not None:
				self.oblige(st, site, f'arg:{p.arg}/fits[{ct.name}]', rng)
				bound[p.arg] = SInt(t, ct)
				continue
			for s2, ok in self.branch(st, rng):
				b2 = dict(bound)
				if ok:
					b2[p.arg] = SInt(t, ct)
					yield from self._cy_coerce_args(s2, c, fi, b2, site, k)
				else:
					yield s2, Raised('OverflowError')
			return
		yield from self.apply_contract(st, c, fi, bound, site)

	def inline_call(self, st, fnode, finfo, args, kwargs, node, self_val=None, extra_env=None):
		bound = self._eval_defaults(st, self.bind_args(fnode, args, kwargs, self_val))
		saved_env, saved_fi, saved_idx, saved_ct, saved_c = st.env, self.cur_finfo, self.nodeidx, st.ctypes, self.cur_contract
		depth = len(self.fstack)
		if depth > 12:
			raise Unsupported('inlining depth')
		env = dict(extra_env or {})
		env.update(bound)

		def restore(s):
			s.env = saved_env_of[id(s)] if False else s.env

		self.fstack.append((saved_fi, saved_idx, saved_c))
		self.cur_finfo, self.nodeidx = finfo, _NodeIndex(fnode)
		inl = self.registry.get(finfo.qualname)
		self.cur_contract = inl if inl is not None else Contract(finfo.qualname)
		st.env = env
		st.ctypes = {}
		is_gen = any(isinstance(n, (ast.Yield, ast.YieldFrom)) for n in ast.walk(fnode))
		if is_gen:
			raise Unsupported(f'inlining of generator {finfo.qualname}')
		try:
			results = list(self.exec_block(fnode.body, st))
		finally:
			self.cur_finfo, self.nodeidx, self.cur_contract = self.fstack.pop()
		for s2, out in results:
			# the caller's locals are unchanged by the callee; heap and path condition carry over
			s2.env = dict(saved_env)
			s2.ctypes = dict(saved_ct)
			if out.kind == 'raise':
				yield s2, out.value
			elif out.kind == 'return':
				yield s2, out.value
			elif out.kind == 'normal':
				yield s2, None
			else:
				raise Unsupported(f'{out.kind} escaping {finfo.qualname}')

	def apply_contract(self, st, c, fi, bound, site):
		"""Modular call: check requires, then continue with the postcondition."""
		from .pure import PureEval
		callee_env = dict(bound)
		# ghost parameters of the callee contract are universally quantified in its ensures: at a call site one arbitrary
		# instance is assumed (sound, weaker)
		for g_, ts_ in c.ghost.items():
			callee_env[g_] = ts_.make(g_, st, self) if isinstance(ts_, TypeSpec) else ts_
		pe = PureEval(self, st, env_override=callee_env)
		for i, r in enumerate(c.requires):
			self.oblige(st, site, f'pre#{i}', pe.eval_clause(r))
		entry_heap = dict(st.heap)
		# exceptional outcomes
		conds = []
		for exc, cl in c.raises.items():
			cond = pe.eval_clause(cl)
			if isinstance(cond, SV):
				cond = truth(cond)
			conds.append(cond)
			for s2, b in self.branch(st, cond):
				if b:
					yield s2, Raised(exc)
		for exc in c.may_raise:
			s2 = st.fork()
			yield s2, Raised(exc)
		for cond in conds:
			st.assume(mk_not(cond))
		if not self.feasible(st):
			return
		for g_, v_ in c.hints.get('sets_ghost', {}).items():
			st.ghosts[g_] = v_
		# constructor contracts: the fields __init__ creates
		if c.self_fields and isinstance(callee_env.get('self'), Ref):
			sref = callee_env['self']
			rec = st.heap[sref.addr]
			nf = dict(rec.fields)
			for fn_, ts in c.self_fields.items():
				nf[fn_] = ts.make(f'self.{fn_}', st, self) if isinstance(ts, TypeSpec) else ts
			st.heap[sref.addr] = Record(rec.cls, nf)
		# havoc written parameters
		for w in c.writes:
			v = callee_env.get(w)
			if isinstance(v, Ref):
				self.havoc_ref(st, v, w)
			elif isinstance(v, ViewRef):
				v.havoc(self, st)
			elif isinstance(v, Ptr):
				cur = st.heap[v.ref.addr]
				st.heap[v.ref.addr] = cur.fresh_like(w) if isinstance(cur, SV) else SBool(z3.Bool(fresh_name(w)))
			elif v is None:
				pass
			else:
				raise Unsupported(f'callee writes parameter {w} = {v!r}')
		# result
		result = None
		if c.yields is not None:
			T = self._yield_type(c, callee_env)
			result = TSeq(T).fresh('Y')
			st.assume(result.length >= 0)
		elif c.returns is not None:
			if isinstance(c.returns, TypeSpec):
				result = c.returns.make('ret', st, self)
			elif callable(c.returns):
				result = c.returns(self, st, callee_env)
			else:
				result = c.returns
		elif fi is not None and fi.cython and fi.node.returns is not None:
			ct = self._resolve_ctype_of(fi, ast.literal_eval(fi.node.returns))
			if ct.kind == 'float':
				result = SF32(z3.Const(fresh_name('ret'), F32))
			elif ct.kind in ('int', 'bint'):
				result = SInt(z3.Int(fresh_name('ret')), ct)
				st.assume(z3.And(result.term >= ct.lo, result.term <= ct.hi))
		pe2 = PureEval(self, st, env_override=callee_env, old_heap=entry_heap, extra={'result': result, 'Y': result})
		for e in list(c.ensures) + list(c.defines):
			ev_ = pe2.eval_clause(e)
			if ev_ is False:
				raise Unsupported(f'postcondition {e!r} of {c.qualname} is plainly false at this call (contract error: missing returns / wrong type?)')
			st.assume(ev_)
		yield st, result

	def _yield_type(self, c, env):
		y = c.yields
		if isinstance(y, TypeSpec):
			return y.desc
		if isinstance(y, TypeDesc):
			return y
		if callable(y):
			return y(env)
		raise Unsupported(f'{c.qualname}: no yield type')

	def _resolve_ctype_of(self, fi, name):
		saved = self.cur_finfo
		self.cur_finfo = fi
		try:
			return self._resolve_ctype(name)
		finally:
			self.cur_finfo = saved

	def construct(self, st, cref, args, kwargs, node, site):
		h = self.lib.get('new:' + cref.qualname)
		if h is not None:
			yield from h(self, st, args, kwargs, node)
			return
		if cref.qualname.split('.')[-1] in EXC_PARENT:
			yield st, ExcInstance(cref.qualname.split('.')[-1], tuple(args))
			return
		mod, cls = self.repo.classinfo(cref.qualname)
		# exception classes defined in the repository
		for b in cls.bases:
			if ast.unparse(b) in ('Exception',) or ast.unparse(b).endswith('Error'):
				yield st, ExcInstance(cls.name, tuple(args))
				return
		init = None
		for n in cls.body:
			if isinstance(n, ast.FunctionDef) and n.name == '__init__':
				init = n
		if init is not None:
			r = Ref('record')
			st.heap[r.addr] = Record(cref.qualname, {})
			q = f'{cref.qualname}.__init__'
			for s2, v in self.call_repo(st, q, args, kwargs, node, site, self_val=r):
				yield s2, (v if isinstance(v, Raised) else r)
			return
		# attrs-style class: fields from annotated class attributes
		fields = []
		for n in cls.body:
			if isinstance(n, ast.AnnAssign) and isinstance(n.target, ast.Name):
				fields.append((n.target.id, n.value))
		if not fields:
			raise Unsupported(f'construction of {cref.qualname}')
		vals = {}
		names = [f for f, _ in fields]
		for n, v in zip(names, args):
			vals[n] = v
		for k, v in kwargs.items():
			if k not in names:
				raise Unsupported(f'{cref.qualname}: unknown field {k}')
			vals[k] = v
		missing = [(n, d) for n, d in fields if n not in vals]
		r = Ref('record')
		st.heap[r.addr] = Record(cref.qualname, vals)
		states = [st]
		for n, d in missing:
			nxt = []
			for s in states:
				for s2, v in self._attrs_default(s, cref, cls, r, n, d, node, site):
					if isinstance(v, Raised):
						yield s2, v
						continue
					rec = s2.heap[r.addr]
					nf = dict(rec.fields)
					nf[n] = v
					s2.heap[r.addr] = Record(rec.cls, nf)
					nxt.append(s2)
			states = nxt
		for s in states:
			yield s, r

	def _attrs_default(self, st, cref, cls, ref, fname, dnode, node, site):
		# attrib(default=X) / attrib(factory=list) / @fname.default method
		for n in cls.body:
			if isinstance(n, ast.FunctionDef):
				for d in n.decorator_list:
					if ast.unparse(d) == f'{fname}.default':
						yield from self.call_repo(st, f'{cref.qualname}.{n.name}', [], {}, node, site, self_val=ref)
						return
		if isinstance(dnode, ast.Call):
			for k in dnode.keywords:
				if k.arg == 'default':
					yield from self.ev(k.value, st)
					return
				if k.arg == 'factory':
					fn = ast.unparse(k.value)
					if fn == 'list':
						r = Ref('list')
						st.heap[r.addr] = []
						yield st, r
						return
					if fn == 'dict':
						r = Ref('dict')
						st.heap[r.addr] = {}
						yield st, r
						return
					h = self.lib.get('factory:' + fn)
					if h is not None:
						yield from h(self, st)
						return
					raise Unsupported(f'attrs factory {fn}')
		raise Unsupported(f'{cref.qualname}: no value for field {fname}')

	def call_method(self, st, obj, name, args, kwargs, node, site):
		# repository classes
		if isinstance(obj, SObj):
			q = self.lib.get('class:' + obj.T.name)
			if q is None:
				h = self.lib.get('method:' + name)
				if h is None:
					raise Unsupported(f'method {name} of {obj.T.name}')
				self.assumptions_used.add('method:' + name)
				_guard_kwargs(h, kwargs, 'method ' + name, args)
				yield from h(self, st, obj, args, kwargs, node, site)
				return
			yield from self.call_repo(st, f'{q}.{name}', args, kwargs, node, site, self_val=obj)
			return
		if isinstance(obj, Ref) and isinstance(st.heap[obj.addr], Record):
			rec = st.heap[obj.addr]
			h = self.lib.get('recmethod:' + name)
			if h is not None:
				yield from h(self, st, obj, args, kwargs, node, site)
				return
			yield from self.call_repo(st, f'{rec.cls}.{name}', args, kwargs, node, site, self_val=obj)
			return
		if isinstance(obj, SRec):
			yield from self.call_repo(st, f'{obj.T.pyclass}.{name}', args, kwargs, node, site, self_val=obj)
			return
		h = self.lib.get('method:' + name)
		if h is None:
			raise Unsupported(f'method {name} on {obj!r} (line {node.lineno})')
		self.assumptions_used.add('method:' + name)
		_guard_kwargs(h, kwargs, 'method ' + name, args)
		yield from h(self, st, obj, args, kwargs, node, site)

	# ---- comprehensions, yield ---------------------------------------------------------------
	def e_Yield(self, node, st):
		if node.value is None:
			raise Unsupported('bare yield')
		for s2, v in self.ev(node.value, st):
			if isinstance(v, Raised):
				yield s2, v
				continue
			y = s2.ghosts['Y']
			s2.ghosts['Y'] = y.snoc(self.to_elem(s2, y.T, v))
			yield s2, None

	def to_elem(self, st, T, v):
		if isinstance(T, TRec) and isinstance(v, Ref) and isinstance(st.heap[v.addr], Record):
			rec = st.heap[v.addr]
			if rec.cls != T.pyclass:
				raise Unsupported(f'yielded a {rec.cls}, contract says {T.pyclass}')
			for f, cv in T.consts.items():
				if rec.fields.get(f) is not cv:
					raise Unsupported(f'field {f} of a yielded {T.name} differs from the declared constant')
			return SRec(T, T.make_term(rec.fields))
		if isinstance(T, TArr) and isinstance(v, Ref):
			return st.heap[v.addr]
		if isinstance(T, TRec) and T.name == 'Slice' and isinstance(v, SSlice):
			if v.step is not None:
				raise Unsupported('yielded slice with a step')
			return SRec(T, T.make_term({'start': v.start, 'stop': v.stop}))
		h = self.lib.get('__to_elem__')
		if h is not None:
			r = h(self, st, T, v)
			if r is not None:
				return r
		return v

	def e_ListComp(self, node, st):
		yield from self._comp(node, st, 'list')

	def e_GeneratorExp(self, node, st):
		yield from self._comp(node, st, 'list')

	def e_SetComp(self, node, st):
		yield from self._comp(node, st, 'set')

	def e_DictComp(self, node, st):
		if len(node.generators) != 1 or node.generators[0].ifs:
			raise Unsupported('dict comprehension with filters / several loops')
		g = node.generators[0]
		for s2, it in self.ev(g.iter, st):
			if isinstance(it, Raised):
				yield s2, it
				continue
			itv = s2.deref(it)
			if isinstance(itv, ConcreteIter):
				itv = itv.items
			if not isinstance(itv, (list, tuple)):
				raise Unsupported('dict comprehension over a symbolic sequence')
			states = [(s2, {})]
			for x in itv:
				nxt = []
				for s, acc in states:
					for s3, r in self.assign(g.target, x, s):
						for s4, kv in self.ev_list([node.key, node.value], s3):
							if isinstance(kv, Raised):
								yield s4, kv
								continue
							if is_sym(kv[0]):
								raise Unsupported('dict comprehension with symbolic keys')
							d2 = dict(acc)
							d2[kv[0]] = kv[1]
							nxt.append((s4, d2))
				states = nxt
			for s, acc in states:
				r = Ref('dict')
				s.heap[r.addr] = acc
				yield s, r

	def _comp(self, node, st, kind):
		if len(node.generators) != 1:
			raise Unsupported('nested comprehension')
		g = node.generators[0]
		for s2, it in self.ev(g.iter, st):
			if isinstance(it, Raised):
				yield s2, it
				continue
			itv = s2.deref(it)
			if isinstance(itv, ConcreteIter):
				itv = list(itv.items)
			if isinstance(itv, dict):
				itv = list(itv.keys())
			if isinstance(itv, (tuple, list, range, str, bytes)):
				yield from self._comp_unroll(node, g, s2, list(itv), 0, [], kind)
				continue
			yield from self._comp_symbolic(node, g, s2, itv, kind)

	def _comp_symbolic(self, node, g, st, itv, kind):
		"""[elt for target in <symbolic sequence>]: see generic_map"""
		if kind == 'set':
			yield from self._setcomp_symbolic(node, g, st, itv)
			return
		if g.ifs:
			raise Unsupported('filtered comprehension over a symbolic sequence')

		def elem(s1, item):
			for sb, r in self.assign(g.target, item, s1):
				if isinstance(r, Raised):
					raise Unsupported('comprehension target unpacking may raise')
				yield from self.ev(node.elt, sb)
		yield from self.generic_map(st, itv, elem, node)

	def _setcomp_symbolic(self, node, g, st, itv):
		"""{x for x in xs if cond(x)} over a symbolic sequence of objects: the set with characteristic predicate
		S[v] <=> exists j. xs[j] == v and cond(xs[j]); the condition is evaluated once at a generic index and must
		have a single, effect-free outcome."""
		if not (isinstance(node.elt, ast.Name) and isinstance(g.target, ast.Name) and node.elt.id == g.target.id):
			raise Unsupported('set comprehension whose element is not the loop variable')
		if not isinstance(itv, SSeq) or not isinstance(itv.T, TObj):
			raise Unsupported('set comprehension over a non-object sequence')
		j = z3.Int(fresh_name('sj'))
		s1 = st.fork()
		s1.assume(z3.And(0 <= j, j < itv.length))
		pc0 = len(s1.pc)
		s1.env[g.target.id] = itv.at(j)
		conds = [(s1, True)]
		for cnd in g.ifs:
			nxt = []
			for s, acc in conds:
				for s2, v in self.ev(cnd, s):
					if isinstance(v, Raised):
						raise Unsupported('set comprehension condition may raise')
					nxt.append((s2, mk_and(acc, self.truth(s2, v))))
			conds = nxt
		if len(conds) != 1:
			raise Unsupported('set comprehension condition has several outcomes')
		s2, cond = conds[0]
		if len(s2.pc) != pc0:
			raise Unsupported('set comprehension condition adds assumptions')
		cond = z3.BoolVal(cond) if isinstance(cond, bool) else cond
		T = itv.T
		S = SSetT(T, z3.Const(fresh_name('setcomp'), z3.ArraySort(T.sort, B)))
		v = z3.Const(fresh_name('v'), T.sort)
		st.assume(z3.ForAll([v], z3.Select(S.arr, v) == z3.Exists([j], z3.And(0 <= j, j < itv.length, z3.Select(itv.arr, j) == v, cond))))
		ref = Ref('set')
		st.heap[ref.addr] = S
		yield st, ref

	def generic_map(self, st, itv, elem, node):
		"""Element-wise construction of a list from a symbolic sequence: the element computation is evaluated once at
		a generic index j; the result is a fresh sequence R with  forall j in range. exists <values created for this
		element>. <facts assumed while evaluating it> and R[j] == element.  Obligations raised while evaluating the
		element are proved for the arbitrary j.  Several normal outcomes, or effects on existing objects, are outside
		the subset."""
		start, stop = self._iter_bounds(itv)
		start, stop = int_term(start), int_term(stop)
		j = z3.Int(fresh_name('cj'))
		mark = fresh_mark()
		s1 = st.fork()
		s1.assume(z3.And(start <= j, j < stop))
		pc0 = len(s1.pc)
		heap0 = dict(s1.heap)
		saved_env = dict(s1.env)
		ghosts0 = dict(st.ghosts)

		def run_elem(state):
			res = []
			for sa, item in self._iter_item(state, itv, SInt(j)):
				for sc, v in elem(sa, item):
					res.append((sc, v))
			return res
		outs = run_elem(s1.fork())
		# allocation counters advanced by the element computation (library models handing out object ids): element j must see
		# the counter advanced by the j earlier elements, so the element is evaluated again with the counter offset by (j - start) * delta
		deltas = {}
		norm0 = [(s, v) for s, v in outs if not isinstance(v, Raised)]
		if len(norm0) == 1:
			for g, v0 in ghosts0.items():
				v1 = norm0[0][0].ghosts.get(g)
				if isinstance(v0, SInt) and isinstance(v1, SInt) and not v1.term.eq(v0.term):
					d_ = z3.simplify(v1.term - v0.term)
					if not z3.is_int_value(d_):
						raise Unsupported('element computation advances a counter by a symbolic amount')
					deltas[g] = d_.as_long()
		if deltas:
			s1b = s1.fork()
			for g, d_ in deltas.items():
				s1b.ghosts[g] = SInt(ghosts0[g].term + (j - start) * d_)
			outs = run_elem(s1b)
		else:
			s1b = s1
		normal = [(s, v) for s, v in outs if not isinstance(v, Raised)]
		raised = [(s, v) for s, v in outs if isinstance(v, Raised)]
		for s, v in raised:
			# an element that raises makes the whole construction raise
			s.env = dict(saved_env)
			yield s, v
		if len(normal) != 1:
			if not normal:
				return
			raise Unsupported(f'element computation has {len(normal)} outcomes (line {getattr(node, "lineno", "?")})')
		s2, v = normal[0]
		for addr, c in heap0.items():
			if s2.heap.get(addr) is not c:
				raise Unsupported('element computation modifies an existing object')
		T = self._elem_type(s2, v)
		term = T.unwrap(self.to_elem(s2, T, v))
		facts = s2.pc[pc0:]
		body = z3.And(*(facts + [True])) if facts else z3.BoolVal(True)
		R = TSeq(T).fresh('comp')
		body = z3.And(body, z3.Select(R.arr, j - start) == term)
		newc = []
		seen = set()
		import re as _re

		def collect(e):
			if e.get_id() in seen:
				return
			seen.add(e.get_id())
			if z3.is_quantifier(e):
				collect(e.body())
				return
			if z3.is_app(e):
				d = e.decl()
				if d.kind() == z3.Z3_OP_UNINTERPRETED:
					m = _re.search(r'!(\d+)$', d.name())
					if m and int(m.group(1)) > mark:
						if e.num_args() > 0:
							raise Unsupported('element computation introduces a ghost function')
						newc.append(e)
				for c in e.children():
					collect(c)
		collect(body)
		newc = [c for c in newc if not c.eq(R.arr) and not c.eq(R.length)]
		inner = z3.Exists(newc, body) if newc else body
		count = z3.If(stop >= start, stop - start, 0)
		# ghost arrays updated by the element computation: a single store per element is lifted to all elements
		for g, v0 in ghosts0.items():
			v1 = s2.ghosts.get(g)
			if g in deltas:
				st.ghosts[g] = SInt(v0.term + count * deltas[g])
				continue
			if z3.is_expr(v0) and z3.is_array(v0) and v1 is not None and not v1.eq(v0):
				if not (z3.is_app_of(v1, z3.Z3_OP_STORE) and v1.arg(0).eq(v0)):
					raise Unsupported(f'element computation updates ghost {g} by more than one store')
				idx_j, val_j = v1.arg(1), v1.arg(2)
				A = z3.Const(fresh_name(g), v0.sort())
				x = z3.Const(fresh_name('x'), v0.sort().domain())
				hit = z3.Exists([j] + newc, z3.And(start <= j, j < stop, body, x == idx_j)) if newc else z3.Exists([j], z3.And(start <= j, j < stop, body, x == idx_j))
				body = z3.And(body, z3.Select(A, idx_j) == val_j)
				inner = z3.Exists(newc, body) if newc else body
				st.assume(z3.ForAll([x], z3.Implies(z3.Not(hit), z3.Select(A, x) == z3.Select(v0, x))))
				st.ghosts[g] = A
		st.assume(z3.ForAll([j], z3.Implies(z3.And(start <= j, j < stop), inner)))
		st.assume(R.length == count)
		ref = Ref('list')
		st.heap[ref.addr] = R
		yield st, ref

	def _elem_type(self, st, v):
		if isinstance(v, bool) or isinstance(v, SBool):
			return TBool
		if is_intlike(v):
			return TInt
		if isinstance(v, (SReal, float)):
			return TReal
		if isinstance(v, SF32):
			return TF32
		if isinstance(v, (SStr, str)):
			return TStr
		if isinstance(v, SObj):
			return v.T
		if isinstance(v, SRec):
			return v.T
		if isinstance(v, SArr):
			return TArr(v.elem, v.kind)
		if isinstance(v, Ref):
			c = st.heap[v.addr]
			if isinstance(c, Record):
				T = self.lib.get('rectype:' + c.cls)
				if T is None:
					raise Unsupported(f'no record type registered for {c.cls}')
				return T
			if isinstance(c, SArr):
				return TArr(c.elem, c.kind)
		raise Unsupported(f'element type of {v!r}')

	def _comp_unroll(self, node, g, st, items, k, acc, kind):
		if k >= len(items):
			saved = st.env
			if kind == 'set':
				r = Ref('set')
				st.heap[r.addr] = list(acc)
				yield st, r
			else:
				r = Ref('list')
				st.heap[r.addr] = list(acc)
				yield st, r
			return
		saved = dict(st.env)
		for s1, rr in self.assign(g.target, items[k], st):
			if isinstance(rr, Raised):
				yield s1, rr
				continue
			conds = [(s1, True)]
			for cnd in g.ifs:
				nxt = []
				for s, ok in conds:
					if not ok:
						nxt.append((s, False))
						continue
					for s2, v in self.ev(cnd, s):
						if isinstance(v, Raised):
							yield s2, v
							continue
						for s3, b in self.branch(s2, self.truth(s2, v)):
							nxt.append((s3, b))
				conds = nxt
			for s, ok in conds:
				if not ok:
					s.env = dict(saved)
					yield from self._comp_unroll(node, g, s, items, k + 1, acc, kind)
					continue
				for s2, v in self.ev(node.elt, s):
					if isinstance(v, Raised):
						yield s2, v
						continue
					s2.env = dict(saved)
					yield from self._comp_unroll(node, g, s2, items, k + 1, acc + [v], kind)


class ExcClass:
	def __init__(self, name):
		self.name = name


class Cell:
	"""A local variable whose address has been taken: it lives in the heap from then on."""

	def __init__(self, ref):
		self.ref = ref


class ExtObj:
	"""Opaque object of a library class (context managers, progress meters, files ...)."""

	def __init__(self, kind, **data):
		self.kind, self.data = kind, data

	def __repr__(self):
		return f'ExtObj({self.kind})'


class ConcreteIter:
	def __init__(self, items):
		self.items = list(items)


class SRange:
	def __init__(self, start, stop, step=1, ctype=None):
		self.start, self.stop, self.step, self.ctype = start, stop, step, ctype


class SEnumerate:
	def __init__(self, inner, start=0):
		self.inner, self.start = inner, start


class SZip:
	def __init__(self, inners, length):
		self.inners, self.length = inners, length


class SDict(SV):
	"""Symbolic dict: domain as characteristic array over the key sort, values as array."""

	def __init__(self, KT, VT, dom, vals, size=None):
		self.KT, self.VT, self.dom, self.vals, self.size = KT, VT, dom, vals, size

	def has(self, k):
		return z3.Select(self.dom, self.KT.unwrap(k))

	def get(self, k):
		return self.VT.wrap(z3.Select(self.vals, self.KT.unwrap(k)))

	def set(self, k, v):
		kk = self.KT.unwrap(k)
		return SDict(self.KT, self.VT, z3.Store(self.dom, kk, True), z3.Store(self.vals, kk, self.VT.unwrap(v)), None)

	def fresh_like(self, name):
		return SDict(self.KT, self.VT, z3.Const(fresh_name(name + '_dom'), self.dom.sort()), z3.Const(fresh_name(name + '_val'), self.vals.sort()), None)

	@staticmethod
	def empty(KT, VT):
		return SDict(KT, VT, z3.K(KT.sort, z3.BoolVal(False)), z3.Const(fresh_name('dvals'), z3.ArraySort(KT.sort, VT.sort)), z3.IntVal(0))


class ViewRef:
	"""A writable view into part of a heap array (numpy basic slicing)."""

	def __init__(self, base, lo, hi, row=None):
		self.base, self.lo, self.hi, self.row = base, lo, hi, row

	def havoc(self, eng, st):
		raise Unsupported('havoc of a view')


class CIntSpec(TypeSpec):
	def __init__(self, ct):
		self.ct = ct

	def make(self, name, st, eng):
		v = SInt(z3.Int(fresh_name(name)), self.ct)
		st.assume(z3.And(v.term >= self.ct.lo, v.term <= self.ct.hi))
		return v


class _PtrSpec(TypeSpec):
	def __init__(self, ct):
		self.ct = ct

	def make(self, name, st, eng):
		r = Ref('cell')
		if self.ct.kind == 'bint':
			st.heap[r.addr] = SBool(z3.Bool(fresh_name(name + '_cell')))
		else:
			st.heap[r.addr] = CIntSpec(self.ct).make(name + '_cell', st, eng)
		return Ptr(r)


class _F32View(TypeSpec):
	def make(self, name, st, eng):
		r = Ref('f32view')
		st.heap[r.addr] = SSeq(TF32, z3.Const(fresh_name(name), z3.ArraySort(I, F32)), z3.Int(fresh_name(name + '_len')))
		st.assume(st.heap[r.addr].length >= 0)
		return r
