"""Mechanical .pyx -> Python-AST front end ("de-cythoniser").

The transformation is line by line and keeps line numbers, so every AST node still points at the
line of the .pyx file it came from.  What is changed / dropped is exactly:

  cdef T f(args) nogil:          -> def f(args) -> "T":        (nogil dropped)
  def f(const T[:] x, int k):    -> def f(x: "T[:]", k: "int"): (const dropped)
  cdef:  <block of declarations> -> if True: <block of annotated assignments>
  cdef T a = e, b                -> a: "T" = e; b: "T"
  <T>(e)                         -> __cast__("T", (e))
  &x  (as a call argument)       -> __addr__("x")
  cimport lines                  -> pass   (type names are resolved through the .pxd files)
  anything else starting with cdef / cpdef / ctypedef in a .pyx -> CyFrontError (the run aborts)

Char literals ('A') are left as Python str constants; the interpreter coerces a one-character str
to its code point when it meets a C integer (Cython's char-literal coercion).
"""
import ast
import re
from pathlib import Path


class CyFrontError(Exception):
	pass


_PARAM_PY = re.compile(r'^\*{0,2}\w+\s*(:[^=]+)?(=.*)?$')


def _split_top(s, sep=','):
	out, depth, cur, q = [], 0, '', None
	for ch in s:
		if q:
			cur += ch
			if ch == q:
				q = None
			continue
		if ch in '\'"':
			q = ch
			cur += ch
			continue
		if ch in '([{':
			depth += 1
		elif ch in ')]}':
			depth -= 1
		if ch == sep and depth == 0:
			out.append(cur)
			cur = ''
		else:
			cur += ch
	if cur.strip():
		out.append(cur)
	return out


def _norm_type(t):
	t = re.sub(r'\bconst\b', '', t)
	t = re.sub(r'\s+', ' ', t).strip()
	t = t.replace(' *', '*').replace(' [', '[')
	return t


def _conv_param(p):
	p = p.strip()
	if not p or p in ('*', '/'):
		return p
	if _PARAM_PY.match(p):
		return p
	default = ''
	if '=' in p:
		p, default = p.split('=', 1)
		default = ' = ' + default.strip()
		p = p.strip()
	m = re.match(r'^(?P<type>.+?)(?P<star>\s*\*\s*|\s+)(?P<name>\w+)$', p)
	if not m:
		raise CyFrontError(f'cannot parse parameter {p!r}')
	typ = _norm_type(m.group('type') + ('*' if '*' in m.group('star') else ''))
	return f'{m.group("name")}: "{typ}"{default}'


def _conv_params(s):
	return ', '.join(_conv_param(p) for p in _split_top(s))


_DECL = re.compile(r'^(?P<type>(?:const\s+)?(?:unsigned\s+)?[\w.]+(?:\[:\])?(?:\s*\*)?)\s+(?P<rest>[A-Za-z_].*)$')


def _conv_decl(body):
	"""'T a = e, b' -> 'a: "T" = e; b: "T"'"""
	m = _DECL.match(body.strip())
	if not m:
		raise CyFrontError(f'cannot parse declaration {body!r}')
	typ = _norm_type(m.group('type'))
	parts = []
	for d in _split_top(m.group('rest')):
		d = d.strip()
		if '=' in d:
			name, init = d.split('=', 1)
			parts.append(f'{name.strip()}: "{typ}" = {init.strip()}')
		else:
			if not re.match(r'^\w+$', d):
				raise CyFrontError(f'cannot parse declarator {d!r}')
			parts.append(f'{d}: "{typ}"')
	return '; '.join(parts)


def _conv_casts(line):
	# <T>(expr) -> __cast__("T", (expr))
	while True:
		m = re.search(r'<\s*([A-Za-z_]\w*)\s*>\s*\(', line)
		if not m:
			return line
		i = m.end() - 1
		depth = 0
		for j in range(i, len(line)):
			if line[j] == '(':
				depth += 1
			elif line[j] == ')':
				depth -= 1
				if depth == 0:
					break
		else:
			raise CyFrontError(f'unbalanced cast in {line!r}')
		line = line[:m.start()] + f'__cast__("{m.group(1)}", {line[i:j + 1]})' + line[j + 1:]


def _split_comment(line):
	q = None
	for i, ch in enumerate(line):
		if q:
			if ch == q:
				q = None
		elif ch in '\'"':
			q = ch
		elif ch == '#':
			return line[:i], line[i:]
	return line, ''


def decythonise(text):
	"""Return (python_source, dropped) for the text of a .pyx file."""
	out = []
	dropped = []
	lines = text.split('\n')
	in_cdef_block = None  # indentation of the 'cdef:' line
	in_doc = False
	for ln, raw in enumerate(lines, 1):
		line = raw
		stripped = line.strip()
		indent = line[:len(line) - len(line.lstrip())]
		# docstrings: leave untouched (toggle on triple quotes)
		ntq = stripped.count('"""')
		if in_doc:
			out.append(line)
			if ntq % 2 == 1:
				in_doc = False
			continue
		if ntq % 2 == 1:
			in_doc = True
			out.append(line)
			continue
		if ntq:
			out.append(line)
			continue
		code, comment = _split_comment(line)
		cstrip = code.strip()
		if in_cdef_block is not None:
			if cstrip == '':
				out.append(line)
				continue
			if len(indent) > len(in_cdef_block):
				out.append(indent + _conv_casts(_conv_decl(cstrip)) + ('  ' + comment if comment else ''))
				continue
			in_cdef_block = None
		if cstrip == '':
			out.append(line)
			continue
		if re.match(r'^(from\s+\S+\s+)?cimport\b', cstrip):
			dropped.append((ln, cstrip))
			out.append(indent + 'pass')
			continue
		if cstrip == 'cdef:':
			in_cdef_block = indent
			out.append(indent + 'if True:')
			continue
		m = re.match(r'^cdef\s+(?P<ret>[\w.]+)\s+(?P<name>\w+)\s*\((?P<params>.*)\)\s*(?P<nogil>nogil)?\s*:\s*$', cstrip)
		if m:
			if m.group('nogil'):
				dropped.append((ln, 'nogil'))
			out.append(f'{indent}def {m.group("name")}({_conv_params(m.group("params"))}) -> "{m.group("ret")}":')
			continue
		m = re.match(r'^def\s+(?P<name>\w+)\s*\((?P<params>.*)\)\s*:\s*$', cstrip)
		if m:
			out.append(f'{indent}def {m.group("name")}({_conv_params(m.group("params"))}):')
			continue
		m = re.match(r'^cdef\s+(?P<body>.+)$', cstrip)
		if m and not cstrip.endswith(':'):
			out.append(indent + _conv_casts(_conv_decl(m.group('body'))))
			continue
		if re.match(r'^(cdef|cpdef|ctypedef)\b', cstrip):
			raise CyFrontError(f'line {ln}: unsupported Cython construct: {cstrip!r}')
		code = _conv_casts(code)
		code = re.sub(r'(?<=[(,])\s*&(\w+)', r' __addr__("\1")', code)
		out.append(code + comment)
	return '\n'.join(out), dropped


def parse_pxd_types(text):
	"""Return (typedefs, fused) from the text of a .pxd file."""
	typedefs, fused = {}, {}
	cur = None
	for raw in text.split('\n'):
		code = _split_comment(raw)[0]
		s = code.strip()
		if not s:
			continue
		if cur is not None:
			if raw[:1] in ' \t':
				fused[cur].append(s)
				continue
			cur = None
		m = re.match(r'^ctypedef\s+fused\s+(\w+)\s*:$', s)
		if m:
			cur = m.group(1)
			fused[cur] = []
			continue
		m = re.match(r'^ctypedef\s+(.+)\s+(\w+)$', s)
		if m:
			typedefs[m.group(2)] = _norm_type(m.group(1))
	return typedefs, fused


class CyModule:
	def __init__(self, path):
		self.path = Path(path)
		text = self.path.read_text()
		self.source_lines = text.split('\n')
		self.pysrc, self.dropped = decythonise(text)
		try:
			self.tree = ast.parse(self.pysrc, filename=str(path))
		except SyntaxError as e:
			raise CyFrontError(f'{path}: de-cythonised text does not parse: {e}')
		self.functions = {n.name: n for n in self.tree.body if isinstance(n, ast.FunctionDef)}
		self.typedefs, self.fused = {}, {}
		for pxd in sorted(self.path.parent.glob('*.pxd')):
			td, fu = parse_pxd_types(pxd.read_text())
			self.typedefs.update(td)
			self.fused.update(fu)


if __name__ == '__main__':
	import sys
	m = CyModule(sys.argv[1])
	print(m.pysrc)
	print(m.dropped, m.typedefs, m.fused)
