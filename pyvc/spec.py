"""Specification functions (z3 definitions) shared by contracts.  Each has an executable twin in
/verif/specs/ used as replay oracle; the two are written independently."""
import z3
from .values import *

_defs = {}


def _rec(name, *sorts):
	f = z3.RecFunction(name, *sorts)
	_defs[name] = f
	return f


def _ite_chain(x, table, default):
	r = default
	for k, v in reversed(table):
		r = z3.If(x == k, v, r)
	return r


_x = z3.Int('x')
_a = z3.Const('a', IntArr)
_b = z3.Const('b', IntArr)
_o = z3.Int('o')
_o2 = z3.Int('o2')
_n = z3.Int('n')
_m = z3.Int('m')
_k = z3.Int('k')

# 4**i for 0 <= i <= 32 (ground table; 0 outside)
pow4 = _rec('pow4', I, I)
z3.RecAddDefinition(pow4, [_x], _ite_chain(_x, [(i, z3.IntVal(4 ** i)) for i in range(33)], z3.IntVal(0)))

# ASCII upper-casing of one byte (bytes.upper, and the encoder's & 0xDF on letters)
up = _rec('up', I, I)
z3.RecAddDefinition(up, [_x], z3.If(z3.And(_x >= 97, _x <= 122), _x - 32, _x))

# digit of an (upper-case) nucleotide byte: A C G T -> 0 1 2 3, anything else -> -1
dig = _rec('dig', I, I)
z3.RecAddDefinition(dig, [_x], _ite_chain(_x, [(65, z3.IntVal(0)), (67, z3.IntVal(1)), (71, z3.IntVal(2)), (84, z3.IntVal(3))], z3.IntVal(-1)))

# a byte is one of ACGTacgt
isnuc = _rec('isnuc', I, B)
z3.RecAddDefinition(isnuc, [_x], z3.Or(*[_x == c for c in b'ACGTacgt']))

# complement keeping case, every other byte unchanged
comp = _rec('comp', I, I)
z3.RecAddDefinition(comp, [_x], _ite_chain(_x, [(a, z3.IntVal(b)) for a, b in zip(b'ATCGatcg', b'TAGCtagc')], _x))

# enc(a, o, n): base-4 value of the n bytes a[o..o+n), first byte most significant, case folded
enc = _rec('enc', IntArr, I, I, I)
z3.RecAddDefinition(enc, [_a, _o, _n], z3.If(_n <= 0, 0, 4 * enc(_a, _o, _n - 1) + dig(up(z3.Select(_a, _o + _n - 1)))))

# encrc(a, o, k, n): base-4 value of the first n bases of the reverse complement of a[o..o+k)
encrc = _rec('encrc', IntArr, I, I, I, I)
z3.RecAddDefinition(encrc, [_a, _o, _k, _n], z3.If(_n <= 0, 0, 4 * encrc(_a, _o, _k, _n - 1) + (3 - dig(up(z3.Select(_a, _o + _k - _n))))))


CANON_BOUND = False     # lemma files may ask for a fixed bound-variable name, so that equal formulas are the same term


def allnuc(arr, off, n):
	j = z3.Int('jnuc' if CANON_BOUND else fresh_name('j'))
	return z3.ForAll([j], z3.Implies(z3.And(j >= 0, j < n), isnuc(z3.Select(arr, off + j))))


def allnuc_from(arr, off, lo, n):
	j = z3.Int(fresh_name('j'))
	return z3.ForAll([j], z3.Implies(z3.And(j >= lo, j < n), isnuc(z3.Select(arr, off + j))))


# ---- sorted integer sets (C02) ---------------------------------------------------------------

def member(arr, off, m, x):
	"""x occurs in arr[off..off+m)"""
	j = z3.Int(fresh_name('j'))
	return z3.Exists([j], z3.And(j >= 0, j < m, z3.Select(arr, off + j) == x))


# inter(a, o, b, o2, m, i): number of i' < i with a[o+i'] in b[o2..o2+m)
inter = _rec('inter', IntArr, I, IntArr, I, I, I, I)
_i = z3.Int('i')
_j = z3.Int('j')
z3.RecAddDefinition(inter, [_a, _o, _b, _o2, _m, _i],
	z3.If(_i <= 0, 0, inter(_a, _o, _b, _o2, _m, _i - 1) +
		z3.If(z3.Exists([_j], z3.And(_j >= 0, _j < _m, z3.Select(_b, _o2 + _j) == z3.Select(_a, _o + _i - 1))), 1, 0)))


def strictly_increasing(arr, off, n):
	p, q = z3.Int(fresh_name('p')), z3.Int(fresh_name('q'))
	return z3.ForAll([p, q], z3.Implies(z3.And(0 <= p, p < q, q < n), z3.Select(arr, off + p) < z3.Select(arr, off + q)))


def elems_in_range(arr, off, n, lo, hi):
	p = z3.Int(fresh_name('p'))
	return z3.ForAll([p], z3.Implies(z3.And(0 <= p, p < n), z3.And(z3.Select(arr, off + p) >= lo, z3.Select(arr, off + p) <= hi)))


# jdist(s, u): the value the kernel returns for |A xor B| = s, |A or B| = u
def jdist(s, u):
	return z3.If(u == 0, i2f(z3.IntVal(0)), fdiv(i2f(s), i2f(u)))


# ---- definitional axioms that contracts may ask for (added to the hypotheses of that function) -----
uparr = z3.Function('uparr', IntArr, IntArr)   # bytes.upper as a function on whole arrays


def _uparr_axiom():
	a = z3.Const('a', IntArr)
	j = z3.Int('j')
	return z3.ForAll([a, j], z3.Select(uparr(a), j) == up(z3.Select(a, j)), patterns=[z3.Select(uparr(a), j)])


AXIOMS = {'uparr': _uparr_axiom}


# occ(H, ho, N, no, L, p): the needle N[no..no+L) occurs in H (origin ho) at position p
occ = z3.Function('occ', IntArr, I, IntArr, I, I, I, B)
# occrc(H, ho, N, no, L, p): the reverse complement of the needle occurs in H at position p
occrc = z3.Function('occrc', IntArr, I, IntArr, I, I, I, B)


def _occ_axiom():
	H, N = z3.Const('H', IntArr), z3.Const('N', IntArr)
	ho, no, L, p, j = z3.Ints('ho no L p j')
	body = z3.ForAll([j], z3.Implies(z3.And(j >= 0, j < L), z3.Select(H, ho + p + j) == z3.Select(N, no + j)))
	return z3.ForAll([H, ho, N, no, L, p], occ(H, ho, N, no, L, p) == body, patterns=[occ(H, ho, N, no, L, p)])


def _occrc_axiom():
	H, N = z3.Const('H', IntArr), z3.Const('N', IntArr)
	ho, no, L, p, j = z3.Ints('ho no L p j')
	body = z3.ForAll([j], z3.Implies(z3.And(j >= 0, j < L), z3.Select(H, ho + p + j) == comp(z3.Select(N, no + L - 1 - j))))
	return z3.ForAll([H, ho, N, no, L, p], occrc(H, ho, N, no, L, p) == body, patterns=[occrc(H, ho, N, no, L, p)])


AXIOMS['occ'] = _occ_axiom
AXIOMS['occrc'] = _occrc_axiom
