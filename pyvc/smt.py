"""Discharging obligations: one SMT-LIB2 query per obligation instance, solver processes in parallel."""
import os
import re
import subprocess
import tempfile
import time
from concurrent.futures import ThreadPoolExecutor
import z3

Z3_BIN = os.environ.get('PYVC_Z3', 'z3-new')
Z3_OLD = '/usr/bin/z3'
CVC5_BIN = '/usr/bin/cvc5'

RLIMIT = int(os.environ.get('PYVC_RLIMIT', '60000000'))   # deterministic z3 resource limit (~60 s of work)
WALL = int(os.environ.get('PYVC_WALL', '240'))              # safety net only; maps to unknown


def smt2_text(hyps, goal, negate=True):
	s = z3.Solver()
	for h in hyps:
		s.add(h)
	if negate:
		s.add(z3.Not(goal))
	txt = s.to_smt2()
	# recursive-function applications are printed as ((_ f 0) args): make them portable
	txt = re.sub(r'\(_ ([^\s()]+) 0\)', r'\1', txt)
	return txt


def _run(cmd, text, wall):
	t0 = time.time()
	with tempfile.NamedTemporaryFile('w', suffix='.smt2', delete=False, dir=os.environ.get('PYVC_TMP', None)) as f:
		f.write(text)
		path = f.name
	try:
		# the budget is CPU time of the solver process (RLIMIT_CPU), so that a verdict does not flip to `unknown` because other
		# jobs keep the cores busy; the wall clock is only a net against a hung process
		def _limit(cpu=int(wall)):
			import resource
			resource.setrlimit(resource.RLIMIT_CPU, (cpu, cpu + 5))
		p = subprocess.run(cmd + [path], capture_output=True, text=True, timeout=wall * 8 + 60, preexec_fn=_limit)
		out = (p.stdout or '').strip().split('\n')
		first = out[0].strip() if out else ''
		if first in ('sat', 'unsat', 'unknown'):
			verdict = first
		elif p.returncode < 0:
			verdict = 'unknown'       # killed by the CPU limit
		else:
			verdict = 'error:' + (p.stdout + p.stderr)[:300].replace('\n', ' ')
	except subprocess.TimeoutExpired:
		verdict = 'unknown'
	finally:
		try:
			os.unlink(path)
		except OSError:
			pass
	return verdict, time.time() - t0


def run_z3(text, rlimit=None, wall=None, binary=None, extra=()):
	return _run([binary or Z3_BIN, '-smt2', f'rlimit={rlimit or RLIMIT}'] + list(extra), text, wall or WALL)


UNKNOWN_SEEN = [0]      # obligations that came back unknown in this run (only non-zero on changed code)


def portfolio(text, expect_sat=False, reduced=False):
	"""z3 5.1 (default, then E-matching only, then another seed), z3 4.8.12, cvc5: first definite answer wins.
	Budgets are rlimits (deterministic); the wall clock is a safety net."""
	total = 0.0
	W1 = max(WALL // 4, 10)
	attempts = [
		('z3-5.1', lambda: run_z3(text, rlimit=RLIMIT // 4, wall=W1)),
		('z3-5.1/ematching', lambda: run_z3(text, rlimit=RLIMIT // 8, wall=W1 // 2, extra=['smt.mbqi=false'])),
		('z3-4.8.12', lambda: run_z3(text, rlimit=RLIMIT // 8, wall=W1 // 2, binary=Z3_OLD)),
		('cvc5-1.0.3', lambda: run_cvc5(text, wall=W1 // 2)),
		('z3-5.1/seed7', lambda: run_z3(text, rlimit=RLIMIT // 8, wall=W1 // 2, extra=['smt.random_seed=7', 'sat.random_seed=7'])),
		('z3-5.1/seed3', lambda: run_z3(text, rlimit=RLIMIT // 8, wall=W1 // 2, extra=['smt.random_seed=3', 'sat.random_seed=3'])),
		('z3-5.1/seed11', lambda: run_z3(text, rlimit=RLIMIT // 8, wall=W1 // 2, extra=['smt.random_seed=11', 'sat.random_seed=11'])),
		('z3-5.1/full', lambda: run_z3(text, rlimit=RLIMIT, wall=WALL)),
	]
	if 'str.' in text or '(String' in text or ' String' in text:
		# string-theory queries: cvc5 decides these far more reliably than z3's sequence solver
		attempts = [('cvc5-1.0.3', lambda: run_cvc5(text, wall=30)),
		            ('z3-5.1', lambda: run_z3(text, rlimit=RLIMIT // 8, wall=60)),
		            ('z3-4.8.12', lambda: run_z3(text, rlimit=RLIMIT // 8, wall=60, binary=Z3_OLD)),
		            ('cvc5-1.0.3/long', lambda: run_cvc5(text, wall=WALL // 2))]
	if '(_ FloatingPoint' in text or 'fp.' in text or 'to_fp' in text:
		# bit-precise floating-point queries: bit-blasting time is the cost, not quantifier luck - one long z3 run, then cvc5
		attempts = [('z3-5.1', lambda: run_z3(text, rlimit=20 * RLIMIT, wall=WALL * 2)),
		            ('cvc5-1.0.3', lambda: run_cvc5(text, wall=WALL))]
	if reduced:
		# several obligations of this run already exhausted the whole portfolio: the run is undecided anyway, the remaining open
		# obligations get the first four attempts only (keeps a check on changed code from taking hours)
		attempts = attempts[:4]
	last = 'unknown'
	for name, f in attempts:
		v, secs = f()
		total += secs
		if v in ('sat', 'unsat'):
			if v == 'sat' and name == 'z3-5.1/ematching':
				continue
			return v, name, total
		last = v if not v.startswith('error') else last
	return last, 'none', total


def run_cvc5(text, wall=None):
	txt = '(set-logic ALL)\n' + text
	return _run([CVC5_BIN, '--lang=smt2', '--strings-exp', f'--tlimit={(wall or WALL) * 8000}'], txt, (wall or WALL) + 5)


class Result:
	def __init__(self, name):
		self.name = name
		self.verdict = None       # 'discharged' | 'failed' | 'unknown' | 'trivial'
		self.instances = 0
		self.backend = set()
		self.seconds = 0.0
		self.failed_instance = None   # Obligation whose negation is sat
		self.detail = ''
		self.expect = 'unsat'


def discharge(obligations, jobs=16, both=False, log=None):
	"""obligations: list of interp.Obligation.  Returns {name: Result} (ordered)."""
	results = {}
	tasks = []
	for ob in obligations:
		r = results.setdefault(ob.name, Result(ob.name))
		r.instances += 1
		if ob.meta.get('expect') in ('sat', 'sat-any'):
			r.expect = ob.meta['expect']
		if ob.goal is True:
			continue
		tasks.append(ob)

	# the z3 Python API is not thread safe: build all query texts first, in this thread
	texts = {id(ob): smt2_text(ob.hyps, ob.goal, negate=ob.meta.get('expect') not in ('sat', 'sat-any')) for ob in tasks}

	def work(ob):
		expect_sat = ob.meta.get('expect') in ('sat', 'sat-any')
		if expect_sat:
			# vacuity guards only need "not refuted": one cheap attempt
			v, secs = run_z3(texts[id(ob)], rlimit=RLIMIT // 20, wall=20)
			return ob, (v if v in ('sat', 'unsat') else 'unknown'), 'z3-5.1', secs, None
		text = texts[id(ob)]
		v, backend, secs = portfolio(text, expect_sat, reduced=UNKNOWN_SEEN[0] >= 6)
		if v not in ('sat', 'unsat'):
			UNKNOWN_SEEN[0] += 1
		second = None
		if both and not expect_sat and v in ('sat', 'unsat') and not backend.startswith('cvc5'):
			v2, s2 = run_cvc5(text)
			secs += s2
			second = v2
			if v2 in ('sat', 'unsat') and v2 != v:
				v = f'error:solvers disagree {backend}={v} cvc5={v2}'
		return ob, v, backend, secs, second

	with ThreadPoolExecutor(max_workers=jobs) as ex:
		for ob, v, backend, secs, second in ex.map(work, tasks):
			r = results[ob.name]
			r.seconds += secs
			r.backend.add(backend)
			if second in ('sat', 'unsat'):
				r.backend.add('cvc5-1.0.3')
			expect_sat = ob.meta.get('expect') in ('sat', 'sat-any')
			if expect_sat and ob.meta.get('expect') == 'sat-any':
				# at least one instance must be satisfiable (or at least not refuted)
				r.n_unsat = getattr(r, 'n_unsat', 0) + (1 if v == 'unsat' else 0)
				if v != 'unsat':
					r.verdict = 'discharged'
					r.detail = f'reachable: {v}'
				elif r.verdict is None and r.n_unsat == r.instances:
					r.verdict = 'failed'
					r.failed_instance = ob
					r.detail = 'vacuous: no path is satisfiable'
				continue
			if expect_sat:
				if v == 'unsat':
					r.verdict = 'failed'
					r.failed_instance = ob
					r.detail = 'vacuous: hypotheses are unsatisfiable'
				elif r.verdict is None:
					r.verdict = 'discharged'
					r.detail = f'satisfiability: {v}'
				continue
			if v == 'unsat':
				if r.verdict is None:
					r.verdict = 'discharged'
			elif v == 'sat':
				if r.verdict != 'failed':
					r.verdict = 'failed'
					r.failed_instance = ob
			else:
				if r.verdict != 'failed':
					r.verdict = 'unknown'
					r.detail = v
					if r.failed_instance is None:
						r.failed_instance = ob
	for r in results.values():
		if r.verdict is None:
			r.verdict = 'trivial'
	return results


def model_of(ob, timeout_ms=60000):
	"""In-process model for a failed obligation (for replay)."""
	s = z3.Solver()
	s.set('timeout', timeout_ms)
	for h in ob.hyps:
		s.add(h)
	s.add(z3.Not(ob.goal))
	if s.check() == z3.sat:
		return s.model()
	return None
