"""Symbolic values of the pyvc engine.

Concrete Python objects (int, bool, str, bytes, None, tuple, ...) stay concrete as long as they can;
only what depends on a symbolic input becomes one of the S* wrappers below.  Mutable containers live
in the heap of the State under a concrete address (Ref); their contents are immutable values that
are replaced on update, so aliasing inside one function is exact and loop havoc is a replacement of
heap cells.
"""
import itertools
import z3

I = z3.IntSort()
B = z3.BoolSort()
R = z3.RealSort()
STR = z3.StringSort()
IntArr = z3.ArraySort(I, I)

_counter = [0]


def fresh_name(base):
	_counter[0] += 1
	return f'{base}!{_counter[0]}'


def fresh_mark():
	"""names created after this call carry a larger number"""
	return _counter[0]


def reset_names():
	_counter[0] = 0


# ---------------------------------------------------------------------------------------------
# C types (for de-cythonised code)

class CType:
	def __init__(self, name, signed=None, bits=None, kind='int'):
		self.name, self.signed, self.bits, self.kind = name, signed, bits, kind
		if kind == 'int':
			self.lo = -(1 << (bits - 1)) if signed else 0
			self.hi = (1 << (bits - 1)) - 1 if signed else (1 << bits) - 1

	def __repr__(self):
		return self.name

	@property
	def rank(self):
		return self.bits


CTYPES = {
	'char': CType('char', True, 8),
	'unsigned char': CType('unsigned char', False, 8),
	'short': CType('short', True, 16),
	'int': CType('int', True, 32),
	'long': CType('long', True, 64),
	'intptr_t': CType('intptr_t', True, 64),
	'Py_ssize_t': CType('Py_ssize_t', True, 64),
	'int16_t': CType('int16_t', True, 16),
	'int32_t': CType('int32_t', True, 32),
	'int64_t': CType('int64_t', True, 64),
	'uint8_t': CType('uint8_t', False, 8),
	'uint16_t': CType('uint16_t', False, 16),
	'uint32_t': CType('uint32_t', False, 32),
	'uint64_t': CType('uint64_t', False, 64),
	'bint': CType('bint', True, 32, kind='bint'),
	'float': CType('float', kind='float'),
	'double': CType('double', kind='double'),
	'void': CType('void', kind='void'),
}
CTYPES['bint'].lo, CTYPES['bint'].hi = 0, 1
C_INT = CTYPES['int']


def c_promote(t):
	"""Integer promotion."""
	if t is None:
		return None
	if t.kind == 'bint' or (t.kind == 'int' and t.bits < 32):
		return C_INT
	return t


def c_common(t1, t2):
	"""Usual arithmetic conversions for two (possibly None = literal) integer types."""
	t1, t2 = c_promote(t1), c_promote(t2)
	if t1 is None:
		return t2
	if t2 is None:
		return t1
	if t1.kind != 'int' or t2.kind != 'int':
		return t1 if t1.kind != 'int' else t2
	if t1.signed == t2.signed:
		return t1 if t1.bits >= t2.bits else t2
	u, s = (t1, t2) if not t1.signed else (t2, t1)
	if u.bits >= s.bits:
		return u
	return s  # signed type can represent all values of the unsigned one


# ---------------------------------------------------------------------------------------------

class SV:
	"""Base of symbolic values."""


class SInt(SV):
	def __init__(self, term, ctype=None):
		if isinstance(term, int):
			term = z3.IntVal(term)
		self.term, self.ctype = term, ctype

	def __repr__(self):
		return f'SInt({self.term}{":" + self.ctype.name if self.ctype else ""})'

	def fresh_like(self, name):
		return SInt(z3.Int(fresh_name(name)), self.ctype)


class SBool(SV):
	def __init__(self, term):
		if isinstance(term, bool):
			term = z3.BoolVal(term)
		self.term = term

	def __repr__(self):
		return f'SBool({self.term})'

	def fresh_like(self, name):
		return SBool(z3.Bool(fresh_name(name)))


class SReal(SV):
	def __init__(self, term):
		self.term = term

	def __repr__(self):
		return f'SReal({self.term})'

	def fresh_like(self, name):
		return SReal(z3.Real(fresh_name(name)))


F32 = z3.DeclareSort('F32')  # IEEE binary32 values, uninterpreted at the integer level
i2f = z3.Function('i2f', I, F32)            # (float) n, round to nearest even
fdiv = z3.Function('fdiv', F32, F32, F32)   # binary32 division, RNE
fsub = z3.Function('fsub', F32, F32, F32)   # binary32 subtraction, RNE


class SF32(SV):
	def __init__(self, term):
		self.term = term

	def __repr__(self):
		return f'SF32({self.term})'

	def fresh_like(self, name):
		return SF32(z3.Const(fresh_name(name), F32))


class SStr(SV):
	def __init__(self, term):
		if isinstance(term, str):
			term = z3.StringVal(term)
		self.term = term

	def __repr__(self):
		return f'SStr({self.term})'

	def fresh_like(self, name):
		return SStr(z3.String(fresh_name(name)))


class SArr(SV):
	"""A sequence of integers: bytes / bytearray contents, typed memoryviews, 1-d integer ndarrays.
	Element j is arr[off + j] for 0 <= j < length."""

	def __init__(self, arr, length, off=0, elem=None, kind='bytes'):
		self.arr = arr
		self.length = length if not isinstance(length, int) else z3.IntVal(length)
		self.off = off if not isinstance(off, int) else z3.IntVal(off)
		self.elem = elem   # CType of the elements or None (Python ints)
		self.kind = kind   # 'bytes' | 'bytearray' | 'memview' | 'ndarray' | 'list'

	def at(self, j):
		return z3.Select(self.arr, self.off + j)

	def sub(self, lo, hi):
		return SArr(self.arr, hi - lo, self.off + lo, self.elem, self.kind)

	def store(self, j, v):
		return SArr(z3.Store(self.arr, self.off + j, v), self.length, self.off, self.elem, self.kind)

	def __repr__(self):
		return f'SArr({self.arr}, len={self.length}, off={self.off}, {self.elem})'

	def fresh_like(self, name):
		# contents are replaced, shape (length, offset) is kept: buffers do not change size
		return SArr(z3.Const(fresh_name(name), IntArr), self.length, self.off, self.elem, self.kind)

	@staticmethod
	def fresh(name, elem=None, kind='bytes'):
		return SArr(z3.Const(fresh_name(name), IntArr), z3.Int(fresh_name(name + '_len')), 0, elem, kind)


class TypeDesc:
	"""Describes how values of some Python-level type are represented by z3 terms of one sort."""
	sort = None

	def wrap(self, term):
		raise NotImplementedError

	def unwrap(self, v):
		raise NotImplementedError

	def fresh(self, name):
		return self.wrap(z3.Const(fresh_name(name), self.sort))


class _TInt(TypeDesc):
	sort = I

	def __init__(self, ctype=None):
		self.ctype = ctype

	def wrap(self, term):
		return SInt(term, self.ctype)

	def unwrap(self, v):
		if isinstance(v, bool):
			return z3.IntVal(int(v))
		if isinstance(v, int):
			return z3.IntVal(v)
		if isinstance(v, SBool):
			return z3.If(v.term, 1, 0)
		return v.term

	def __repr__(self):
		return 'Int'


class _TBool(TypeDesc):
	sort = B

	def wrap(self, term):
		return SBool(term)

	def unwrap(self, v):
		if isinstance(v, bool):
			return z3.BoolVal(v)
		return v.term

	def __repr__(self):
		return 'Bool'


class _TReal(TypeDesc):
	sort = R

	def wrap(self, term):
		return SReal(term)

	def unwrap(self, v):
		if isinstance(v, (int, float)):
			return z3.RealVal(v)
		if isinstance(v, SInt):
			return z3.ToReal(v.term)
		return v.term

	def __repr__(self):
		return 'Real'


class _TStr(TypeDesc):
	sort = STR

	def wrap(self, term):
		return SStr(term)

	def unwrap(self, v):
		if isinstance(v, str):
			return z3.StringVal(v)
		return v.term

	def __repr__(self):
		return 'Str'


class _TF32(TypeDesc):
	sort = F32

	def wrap(self, term):
		return SF32(term)

	def unwrap(self, v):
		if isinstance(v, bool):
			v = int(v)
		if isinstance(v, int) and abs(v) < 2 ** 24:
			return i2f(z3.IntVal(v))        # storing a small Python int into a float32 array: exact conversion
		if isinstance(v, SInt):
			return i2f(v.term)              # (float) n, round to nearest even
		if not hasattr(v, 'term'):
			from .ops import Unsupported
			raise Unsupported(f'store of {v!r} into a float32 array')
		return v.term

	def __repr__(self):
		return 'F32'


TInt, TBool, TReal, TStr, TF32 = _TInt(), _TBool(), _TReal(), _TStr(), _TF32()


class TObj(TypeDesc):
	"""An uninterpreted sort of immutable records (ORM rows, ...).  `none` is a distinguished
	element standing for Python's None, so Optional[T] needs no extra encoding.  Fields are
	uninterpreted functions declared with field()."""
	_registry = {}

	def __new__(cls, name, *a, **k):
		if name in cls._registry:
			return cls._registry[name]
		o = super().__new__(cls)
		cls._registry[name] = o
		return o

	def __init__(self, name):
		if hasattr(self, 'name'):
			return
		self.name = name
		self.sort = z3.DeclareSort(name)
		self.none = z3.Const(f'None_{name}', self.sort)
		self.fields = {}

	def field(self, fname, T):
		if fname not in self.fields:
			self.fields[fname] = (z3.Function(f'{self.name}.{fname}', self.sort, T.sort), T)
		return self

	def wrap(self, term):
		return SObj(self, term)

	def unwrap(self, v):
		if v is None:
			return self.none
		return v.term

	def __repr__(self):
		return self.name


class SObj(SV):
	def __init__(self, T, term):
		self.T, self.term = T, term

	def __repr__(self):
		return f'SObj({self.T.name}:{self.term})'

	def fresh_like(self, name):
		return SObj(self.T, z3.Const(fresh_name(name), self.T.sort))

	def getattr(self, fname):
		f, T = self.T.fields[fname]
		return T.wrap(f(self.term))


class TOpt(TypeDesc):
	"""Optional[T] for base sorts, as a z3 datatype."""
	_cache = {}

	def __new__(cls, T):
		key = repr(T)
		if key in cls._cache:
			return cls._cache[key]
		o = super().__new__(cls)
		cls._cache[key] = o
		return o

	def __init__(self, T):
		if hasattr(self, 'T'):
			return
		self.T = T
		nm = repr(T).replace('[', '_').replace(']', '')
		dt = z3.Datatype(f'Opt_{nm}')
		dt.declare(f'none_{nm}')
		dt.declare(f'some_{nm}', (f'val_{nm}', T.sort))
		self.sort = dt.create()
		self.none_c = getattr(self.sort, f'none_{nm}')
		self.some_c = getattr(self.sort, f'some_{nm}')
		self.val_a = getattr(self.sort, f'val_{nm}')
		self.is_none_r = getattr(self.sort, f'is_none_{nm}')
		self.is_some_r = getattr(self.sort, f'is_some_{nm}')

	def wrap(self, term):
		return SOpt(self, term)

	def unwrap(self, v):
		if v is None:
			return self.none_c
		if isinstance(v, SOpt):
			return v.term
		return self.some_c(self.T.unwrap(v))

	def __repr__(self):
		return f'Opt[{self.T!r}]'


class SOpt(SV):
	def __init__(self, T, term):
		self.T, self.term = T, term

	def is_none(self):
		return self.T.is_none_r(self.term)

	def value(self):
		return self.T.T.wrap(self.T.val_a(self.term))

	def __repr__(self):
		return f'SOpt({self.term})'

	def fresh_like(self, name):
		return SOpt(self.T, z3.Const(fresh_name(name), self.T.sort))


class TSeq(TypeDesc):
	"""Sequences (lists/tuples of symbolic length) of T, as a datatype (arr, len) so that they can
	nest and be fields.  The z3 sort is shared by all descriptors with the same element sort; the
	descriptor itself is not (record element types carry per-call constants)."""
	_sorts = {}

	def __init__(self, T):
		self.T = T
		key = repr(T)
		if key not in TSeq._sorts:
			arrsort = z3.ArraySort(I, T.sort)
			nm = key.replace('[', '_').replace(']', '')
			dt = z3.Datatype(f'Seq_{nm}')
			dt.declare(f'mkseq_{nm}', (f'arr_{nm}', arrsort), (f'len_{nm}', I))
			srt = dt.create()
			TSeq._sorts[key] = (arrsort, srt, getattr(srt, f'mkseq_{nm}'), getattr(srt, f'arr_{nm}'), getattr(srt, f'len_{nm}'))
		self.arrsort, self.sort, self._mk, self._arr, self._len = TSeq._sorts[key]

	def wrap(self, term):
		return SSeq(self.T, self._arr(term), self._len(term))

	def unwrap(self, v):
		return self._mk(v.arr, v.length)

	def fresh(self, name):
		return SSeq(self.T, z3.Const(fresh_name(name), self.arrsort), z3.Int(fresh_name(name + '_len')))

	def __repr__(self):
		return f'Seq[{self.T!r}]'


class SSeq(SV):
	def __init__(self, T, arr, length):
		self.T, self.arr = T, arr
		self.length = length if not isinstance(length, int) else z3.IntVal(length)

	def at(self, j):
		return self.T.wrap(z3.Select(self.arr, j))

	def snoc(self, v):
		return SSeq(self.T, z3.Store(self.arr, self.length, self.T.unwrap(v)), self.length + 1)

	def store(self, j, v):
		return SSeq(self.T, z3.Store(self.arr, j, self.T.unwrap(v)), self.length)

	def __repr__(self):
		return f'SSeq[{self.T!r}]({self.arr}, len={self.length})'

	def fresh_like(self, name):
		return TSeq(self.T).fresh(name)

	@staticmethod
	def empty(T):
		return SSeq(T, z3.Const(fresh_name('empty'), z3.ArraySort(I, T.sort)), 0)


class TArr(TypeDesc):
	"""Integer arrays as datatype (arr, len) -- for sequences of signatures etc."""
	dt = z3.Datatype('IntArrV')
	dt.declare('mkintarr', ('iarr', IntArr), ('ilen', I))
	sort = dt.create()

	def __init__(self, elem=None, kind='ndarray'):
		self.elem, self.kind = elem, kind

	def wrap(self, term):
		return SArr(self.sort.iarr(term), self.sort.ilen(term), 0, self.elem, self.kind)

	def unwrap(self, v):
		assert z3.is_int_value(v.off) and v.off.as_long() == 0, 'offset arrays cannot be stored'
		return self.sort.mkintarr(v.arr, v.length)

	def fresh(self, name):
		return SArr.fresh(name, self.elem, self.kind)

	def __repr__(self):
		return f'Arr[{self.elem}]'


class SSet(SV):
	"""A set of integers as characteristic array."""

	def __init__(self, arr):
		self.arr = arr

	def has(self, x):
		return z3.Select(self.arr, x)

	def add(self, x):
		return SSet(z3.Store(self.arr, x, True))

	def fresh_like(self, name):
		return SSet(z3.Const(fresh_name(name), z3.ArraySort(I, B)))

	@staticmethod
	def empty():
		return SSet(z3.K(I, z3.BoolVal(False)))


class EmptySet:
	"""set() before its element type is known"""

	def fresh_like(self, name):
		raise TypeError('element type of an empty set is unknown; declare it in the invariant')


class SSlice:
	"""slice(start, stop, step): fields are values or None."""

	def __init__(self, start, stop, step=None):
		self.start, self.stop, self.step = start, stop, step

	def __repr__(self):
		return f'SSlice({self.start},{self.stop},{self.step})'


class Ref:
	"""Reference to a mutable heap object (concrete address)."""
	_next = itertools.count(1)

	def __init__(self, kind, addr=None):
		self.addr = next(Ref._next) if addr is None else addr
		self.kind = kind

	def __repr__(self):
		return f'Ref({self.kind}@{self.addr})'


class Record:
	"""Contents of a heap record (instance of an attrs class / plain object): concrete field dict."""

	def __init__(self, cls, fields):
		self.cls, self.fields = cls, dict(fields)

	def fresh_like(self, name):
		return Record(self.cls, {k: (v.fresh_like(f'{name}.{k}') if isinstance(v, SV) else v) for k, v in self.fields.items()})

	def __repr__(self):
		return f'Record({self.cls}, {self.fields})'


class Ptr:
	"""C pointer to a local variable of the caller (one cell)."""

	def __init__(self, ref):
		self.ref = ref


def to_term(v):
	"""z3 term of a scalar value (concrete or symbolic)."""
	if isinstance(v, bool):
		return z3.BoolVal(v)
	if isinstance(v, int):
		return z3.IntVal(v)
	if isinstance(v, float):
		return z3.RealVal(v)
	if isinstance(v, str):
		return z3.StringVal(v)
	if isinstance(v, SV) and hasattr(v, 'term'):
		return v.term
	if z3.is_expr(v):
		return v
	raise TypeError(f'no scalar term for {v!r}')


def is_sym(v):
	return isinstance(v, SV)


class TRec(TypeDesc):
	"""Immutable symbolic record: symbolic fields packed in a z3 datatype, constant fields shared by
	all values of the type (e.g. every KmerMatch yielded by one find_kmers call has the same
	kmerspec and seq)."""
	_dts = {}

	def __init__(self, name, pyclass, fields, consts=None):
		self.name, self.pyclass = name, pyclass
		self.fields = dict(fields)          # fname -> TypeDesc
		self.consts = dict(consts or {})    # fname -> value
		key = (name, tuple((k, repr(v)) for k, v in self.fields.items()))
		if key not in TRec._dts:
			dt = z3.Datatype(f'Rec_{name}')
			dt.declare(f'mk_{name}', *[(f'{name}_{f}', T.sort) for f, T in self.fields.items()])
			TRec._dts[key] = dt.create()
		self.sort = TRec._dts[key]

	def wrap(self, term):
		return SRec(self, term)

	def unwrap(self, v):
		if isinstance(v, SRec):
			return v.term
		raise TypeError(f'not a {self.name}: {v!r}')

	def make_term(self, fieldvals):
		return getattr(self.sort, f'mk_{self.name}')(*[T.unwrap(fieldvals[f]) for f, T in self.fields.items()])

	def __repr__(self):
		return f'Rec[{self.name}]'


class SRec(SV):
	def __init__(self, T, term):
		self.T, self.term = T, term

	def getattr(self, f):
		if f in self.T.fields:
			return self.T.fields[f].wrap(getattr(self.T.sort, f'{self.T.name}_{f}')(self.term))
		if f in self.T.consts:
			return self.T.consts[f]
		raise KeyError(f)

	def has(self, f):
		return f in self.T.fields or f in self.T.consts

	def fresh_like(self, name):
		return SRec(self.T, z3.Const(fresh_name(name), self.T.sort))

	def __repr__(self):
		return f'SRec({self.T.name}:{self.term})'



class SMaybe(SV):
	"""Optional heap object returned by a contract: None when `none` holds, otherwise the object ref."""

	def __init__(self, none, ref):
		self.none, self.ref = none, ref

	def fresh_like(self, name):
		raise TypeError('SMaybe cannot be havocked')

	def __repr__(self):
		return f'SMaybe({self.none}, {self.ref})'



class SSetT(SV):
	"""A set of objects of sort T as characteristic array."""

	def __init__(self, T, arr):
		self.T, self.arr = T, arr

	def has(self, x):
		return z3.Select(self.arr, self.T.unwrap(x))

	def fresh_like(self, name):
		return SSetT(self.T, z3.Const(fresh_name(name), self.arr.sort()))

	@staticmethod
	def empty(T):
		return SSetT(T, z3.K(T.sort, z3.BoolVal(False)))

	@staticmethod
	def of_seq(T, seq):
		S = SSetT(T, z3.Const(fresh_name('setof'), z3.ArraySort(T.sort, B)))
		v = z3.Const(fresh_name('v'), T.sort)
		j = z3.Int(fresh_name('j'))
		return S, z3.ForAll([v], z3.Select(S.arr, v) == z3.Exists([j], z3.And(0 <= j, j < seq.length, z3.Select(seq.arr, j) == v)))
