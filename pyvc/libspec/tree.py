"""Assumed model for C17: SciPy linkage matrices and Biopython clades.

A linkage matrix with m rows is four columns: left id, right id (floats holding exact non-negative integers: modelled as
integers, so int() of them is the identity), height (real) and size.  Clades are objects with an integer identity taken from
an allocation counter; their mutable attributes live in ghost arrays indexed by that identity (name, branch_length, children)."""
import z3
from ..values import *
from ..ops import *
from ..interp import *
from .core import lib, LIB
from .. import spec as S
from ..contracts import TypeSpec

TClade = TObj('Clade')
TClade.field('cid', TInt)
CID = TClade.fields['cid'][0]
MKCL = z3.Function('mk_clade', I, TClade.sort)
R = z3.RealSort()


def clade_axiom():
	i = z3.Int('i')
	return z3.ForAll([i], z3.And(CID(MKCL(i)) == i, MKCL(i) != TClade.none), patterns=[MKCL(i)])


S.AXIOMS['clade'] = clade_axiom


class SLink:
	"""a linkage matrix (m x 4)"""

	def __init__(self, m, left, right, height, size):
		self.m, self.left, self.right, self.height, self.size = m, left, right, height, size

	def iter_bounds(self):
		return 0, self.m

	def iter_item(self, c):
		i = int_term(c)
		return (SInt(z3.Select(self.left, i)), SInt(z3.Select(self.right, i)), SReal(z3.Select(self.height, i)), SReal(z3.Select(self.size, i)))

	def fresh_like(self, name):
		return self


class LinkT(TypeSpec):
	"""TypeSpec of a linkage-matrix parameter"""

	def make(self, name, st, eng):
		m = z3.Int(fresh_name(name + '_rows'))
		st.assume(m >= 0)
		v = SLink(m, z3.Const(fresh_name(name + '_left'), IntArr), z3.Const(fresh_name(name + '_right'), IntArr),
		          z3.Const(fresh_name(name + '_height'), z3.ArraySort(I, R)), z3.Const(fresh_name(name + '_size'), z3.ArraySort(I, R)))
		return v




@lib('attr:SLink')
def _link_attr(eng, st, obj, attr, node):
	if attr == 'shape':
		return iter([(st, (SInt(obj.m), 4))])
	return None


_prev_getitem = LIB.get('__getitem__')


@lib('__getitem__')
def _link_getitem(eng, st, obj, idx, node, site):
	"""link[i, 2]: the height of row i; NumPy raises IndexError outside [-m, m) and wraps negative indices"""
	if isinstance(obj, SLink) and isinstance(idx, tuple) and len(idx) == 2 and idx[1] in (0, 1, 2, 3):
		i = int_term(idx[0])
		col = [obj.left, obj.right, obj.height, obj.size][idx[1]]
		wrap = (lambda t: SInt(t)) if idx[1] < 2 else (lambda t: SReal(t))

		def gen():
			for s2, inb in eng.branch(st, z3.And(i >= -obj.m, i < obj.m)):
				if not inb:
					yield s2, Raised('IndexError')
				else:
					yield s2, wrap(z3.Select(col, z3.If(i < 0, i + obj.m, i)))
		return gen()
	if _prev_getitem is not None:
		return _prev_getitem(eng, st, obj, idx, node, site)
	return None


@lib('__ghost_init__tree')
def _ghost_init(eng, st):
	nc = z3.Int(fresh_name('next_clade'))
	st.assume(nc >= 0)
	st.ghosts['_const_clade_base'] = SInt(nc)
	st.ghosts['next_clade'] = SInt(nc)
	st.ghosts['cl_name'] = z3.Const(fresh_name('cl_name'), z3.ArraySort(I, STR))
	st.ghosts['cl_bl'] = z3.Const(fresh_name('cl_bl'), z3.ArraySort(I, R))
	st.ghosts['cl_hasbl'] = z3.Const(fresh_name('cl_hasbl'), z3.ArraySort(I, B))
	st.ghosts['cl_left'] = z3.Const(fresh_name('cl_left'), IntArr)
	st.ghosts['cl_right'] = z3.Const(fresh_name('cl_right'), IntArr)


@lib('Bio.Phylo.BaseTree.Clade')
def _clade(eng, st, args, kwargs, node):
	"""Clade(name=..., clades=[l, r]): a NEW object (identity = allocation counter); leaf when no children are given"""
	if args or set(kwargs) - {'name', 'clades', 'branch_length'}:
		raise Unsupported('Clade(...) with other arguments than name= / clades= / branch_length=')
	cid = int_term(st.ghosts['next_clade'])
	st.ghosts['next_clade'] = SInt(cid + 1)
	name = kwargs.get('name')
	if name is not None:
		st.ghosts['cl_name'] = z3.Store(st.ghosts['cl_name'], cid, to_term(name))
	kids = kwargs.get('clades')
	l = r = z3.IntVal(-1)
	if kids is not None:
		ks = st.deref(kids)
		if not (isinstance(ks, list) and len(ks) == 2 and all(isinstance(k, SObj) and k.T is TClade for k in ks)):
			raise Unsupported('Clade(clades=...) with something other than a list of two clades')
		l, r = CID(ks[0].term), CID(ks[1].term)
	st.ghosts['cl_left'] = z3.Store(st.ghosts['cl_left'], cid, l)
	st.ghosts['cl_right'] = z3.Store(st.ghosts['cl_right'], cid, r)
	if 'branch_length' in kwargs and kwargs['branch_length'] is not None:
		st.ghosts['cl_bl'] = z3.Store(st.ghosts['cl_bl'], cid, real_term(kwargs['branch_length']))
		st.ghosts['cl_hasbl'] = z3.Store(st.ghosts['cl_hasbl'], cid, z3.BoolVal(True))
	else:
		st.ghosts['cl_hasbl'] = z3.Store(st.ghosts['cl_hasbl'], cid, z3.BoolVal(False))
	yield st, SObj(TClade, MKCL(cid))


def real_term(v):
	if isinstance(v, SReal):
		return v.term
	if isinstance(v, (int, float)) and not isinstance(v, bool):
		return z3.RealVal(v)
	if isinstance(v, SInt):
		return z3.ToReal(v.term)
	raise Unsupported(f'not a real number: {v!r}')


@lib('setattr:SObj')
def _clade_setattr(eng, st, obj, attr, v, node):
	if obj.T is TClade and attr == 'branch_length':
		cid = CID(obj.term)
		st.ghosts['cl_bl'] = z3.Store(st.ghosts['cl_bl'], cid, real_term(v))
		st.ghosts['cl_hasbl'] = z3.Store(st.ghosts['cl_hasbl'], cid, z3.BoolVal(True))
		yield st, None
		return
	raise Unsupported(f'attribute store {attr} on {obj!r}')


@lib('Bio.Phylo.BaseTree.Tree')
def _tree(eng, st, args, kwargs, node):
	if args or set(kwargs) - {'root', 'rooted'}:
		raise Unsupported('Tree(...) with other arguments than root= / rooted=')
	r = Ref('record')
	st.heap[r.addr] = Record('Bio.Phylo.BaseTree.Tree', {'root': kwargs.get('root'), 'rooted': kwargs.get('rooted', False)})
	yield st, r
