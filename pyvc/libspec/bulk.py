"""Abstract model for the bulk distance functions of C05 (jaccarddist_matrix / jaccarddist_pairwise):

* signatures are opaque values (sort SigV); DV(a, b) is THE two-signature distance (the value jaccarddist returns, C02);
* a signature collection (any AbstractSignatureArray) is an opaque value with a length and items; indexing it with a slice or an
  integer sequence gives a new collection whose item r is the selected item (contract of AdvancedIndexingMixin.__getitem__, C20);
* a 2-d float32 output array is a heap object with a cell function; `out[i, a:b]` is a writable view of row i, columns a..b
  (clamped like NumPy basic slicing), `out[a:b]` of a 1-d array is a view of a..b."""
import z3
from ..values import *
from ..ops import *
from ..interp import *
from .core import LIB as _GLOBAL
from .core import _getitem_hook as _core_getitem

BULK_LIB = {}      # NOT registered globally: installed per target (the concrete array model of numpy.empty must stay untouched elsewhere)


def lib(*names):
	def deco(f):
		for n in names:
			BULK_LIB[n] = f
		return f
	return deco

TSig = TObj('SigV')
TColl = TObj('SigColl')
DV = z3.Function('DV', TSig.sort, TSig.sort, F32)
CLEN = z3.Function('coll_len', TColl.sort, I)
CITEM = z3.Function('coll_item', TColl.sort, I, TSig.sort)
ROW = z3.ArraySort(I, F32)
CELLS = z3.ArraySort(I, ROW)


class Mat2:
	"""heap value: rows x cols float32 matrix"""

	def __init__(self, rows, cols, cells):
		self.rows, self.cols, self.cells = rows, cols, cells

	def fresh_like(self, name):
		return Mat2(self.rows, self.cols, z3.Const(fresh_name(name), CELLS))

	def cell(self, i, c):
		return z3.Select(z3.Select(self.cells, i), c)


class RowView(ViewRef):
	"""out[i, lo:hi] (row None: a 1-d array viewed as a single row 0)"""

	def __init__(self, base, row, lo, hi):
		self.base, self.row, self.lo, self.hi = base, row, lo, hi

	def havoc(self, eng, st):
		m = st.heap[self.base.addr]
		newrow = z3.Const(fresh_name('row'), ROW)
		c = z3.Int(fresh_name('c'))
		old = z3.Select(m.cells, self.row)
		# frame: cells outside lo..hi keep their values
		st.assume(z3.ForAll([c], z3.Implies(z3.Or(c < self.lo, c >= self.hi), z3.Select(newrow, c) == z3.Select(old, c))))
		st.heap[self.base.addr] = Mat2(m.rows, m.cols, z3.Store(m.cells, self.row, newrow))

	def length(self):
		return self.hi - self.lo


def _clamp(t, n):
	t = z3.If(t < 0, t + n, t)
	return z3.If(t < 0, 0, z3.If(t > n, n, t))


def _slice_bounds(st, idx, n):
	if isinstance(idx, SSlice):
		if idx.step is not None:
			raise Unsupported('slice with a step')
		lo = z3.IntVal(0) if idx.start is None else _clamp(int_term(idx.start), n)
		hi = n if idx.stop is None else _clamp(int_term(idx.stop), n)
	elif isinstance(idx, SRec) and idx.T.name == 'Slice':
		lo, hi = _clamp(int_term(idx.getattr('start')), n), _clamp(int_term(idx.getattr('stop')), n)
	else:
		return None
	hi = z3.If(hi < lo, lo, hi)
	return z3.simplify(lo), z3.simplify(hi)




@lib('__getitem__')
def _bulk_getitem(eng, st, obj, idx, node, site):
	o = st.deref(obj) if isinstance(obj, Ref) else obj
	# 2-d array: out[i, a:b] -> writable row view
	if isinstance(o, Mat2) and isinstance(idx, tuple) and len(idx) == 2:
		b = _slice_bounds(st, idx[1], o.cols)
		if b is not None and is_intlike(idx[0]):
			i = int_term(idx[0])

			def gen():
				for s2, inb in eng.branch(st, z3.And(i >= -o.rows, i < o.rows)):
					if not inb:
						yield s2, Raised('IndexError')
					else:
						yield s2, RowView(obj, z3.If(i < 0, i + o.rows, i), b[0], b[1])
			return gen()
	if isinstance(o, Mat2) and o.rows is None:
		b = _slice_bounds(st, idx, o.cols)      # 1-d array as a single row
		if b is not None:
			return iter([(st, RowView(obj, z3.IntVal(0), b[0], b[1]))])
	# collection[slice] / collection[index sequence] -> new collection (C20 contract); collection[int] -> that item
	if isinstance(o, SObj) and o.T is TColl and is_intlike(idx):
		n0 = CLEN(o.term)
		i0 = int_term(idx)

		def gen0():
			for s2, inb in eng.branch(st, z3.And(i0 >= -n0, i0 < n0)):
				if not inb:
					yield s2, Raised('IndexError')
				else:
					yield s2, SObj(TSig, CITEM(o.term, z3.If(i0 < 0, i0 + n0, i0)))
		return gen0()
	if isinstance(o, SObj) and o.T is TColl:
		n = CLEN(o.term)
		b = _slice_bounds(st, idx, n)
		R = TColl.fresh('sel')
		r = z3.Int(fresh_name('r'))
		if b is not None:
			lo, hi = b
			st.assume(R.term != TColl.none)
			st.assume(CLEN(R.term) == hi - lo)
			st.assume(z3.ForAll([r], z3.Implies(z3.And(r >= 0, r < hi - lo), CITEM(R.term, r) == CITEM(o.term, lo + r)), patterns=[CITEM(R.term, r)]))
			return iter([(st, R)])
		iv = st.deref(idx) if isinstance(idx, Ref) else idx
		if (isinstance(iv, SSeq) and iv.T is TInt) or (isinstance(iv, SArr) and iv.kind == 'ndarray' and iv.elem is not None and getattr(iv.elem, 'name', '').startswith(('int', 'uint'))):
			_at = (lambda t: z3.Select(iv.arr, t)) if isinstance(iv, SSeq) else (lambda t: iv.at(t))

			def gen2():
				j = z3.Int(fresh_name('j'))
				inrange = z3.ForAll([j], z3.Implies(z3.And(j >= 0, j < iv.length), z3.And(_at(j) >= -n, _at(j) < n)))
				for s2, ok in eng.branch(st, inrange):
					if not ok:
						yield s2, Raised('IndexError')
						continue
					s2.assume(R.term != TColl.none)
					s2.assume(CLEN(R.term) == iv.length)
					e = _at(r)
					s2.assume(z3.ForAll([r], z3.Implies(z3.And(r >= 0, r < iv.length), CITEM(R.term, r) == CITEM(o.term, z3.If(e < 0, e + n, e))), patterns=[CITEM(R.term, r)]))
					yield s2, R
			return gen2()
	# integer sequence [slice]: a new sequence (handled by the engine's list slicing for SSlice; records of chunk_slices here)
	if isinstance(o, SSeq) and isinstance(idx, SRec) and idx.T.name == 'Slice':
		return eng.slice_seq(st, o, SSlice(idx.getattr('start'), idx.getattr('stop'), None), node, site)
	return _core_getitem(eng, st, obj, idx, node, site)


@lib('numpy.empty')
def _empty2(eng, st, args, kwargs, node):
	"""np.empty((r, c), float32): a fresh 2-d array with arbitrary contents; np.empty(n, float32): 1-d (as a single row)"""
	shape = args[0]
	dt = args[1] if len(args) > 1 else kwargs.get('dtype')
	from .np import as_dtype
	try:
		d = as_dtype(dt) if dt is not None else None
	except Exception:
		d = None
	if d is None or not (d.kind == 'f' and d.itemsize == 4):
		raise Unsupported(f'numpy.empty with a dtype other than float32: {dt!r}')      # the matrix model has float32 cells
	if isinstance(shape, tuple) and len(shape) == 2:
		r, c = int_term(shape[0]), int_term(shape[1])
		ref = Ref('mat2')
		st.heap[ref.addr] = Mat2(r, c, z3.Const(fresh_name('cells'), CELLS))
		yield st, ref
		return
	if isinstance(shape, tuple) and len(shape) == 1:
		shape = shape[0]
	if is_intlike(shape):
		ref = Ref('mat2')
		st.heap[ref.addr] = Mat2(None, int_term(shape), z3.Const(fresh_name('cells'), CELLS))
		yield st, ref
		return
	raise Unsupported(f'numpy.empty({shape!r})')


@lib('__setitem__')
def _bulk_setitem(eng, st, obj, idx, v, node, site):
	"""out[a:b, i] = out[i, a:b] (the mirror copy of jaccarddist_pairwise): column i, rows a..b, receives the viewed row cells;
	the right-hand side is read completely before anything is written (NumPy copies overlapping operands)"""
	o = st.deref(obj) if isinstance(obj, Ref) else obj
	if isinstance(o, Mat2) and o.rows is not None and isinstance(idx, tuple) and len(idx) == 2 and isinstance(v, RowView) and is_intlike(idx[1]):
		b = _slice_bounds(st, idx[0], o.rows)
		if b is None:
			return None
		lo, hi = b
		ci = int_term(idx[1])
		src = st.deref(v.base)

		def gen():
			for s2, inb in eng.branch(st, z3.And(ci >= -o.cols, ci < o.cols)):
				if not inb:
					yield s2, Raised('IndexError')
					continue
				col = z3.If(ci < 0, ci + o.cols, ci)
				for s3, same in eng.branch(s2, hi - lo == v.hi - v.lo):
					if not same:
						for s4, one in eng.branch(s3, v.hi - v.lo == 1):
							if one:
								raise Unsupported('assignment that broadcasts a 1-element row over a column')
							yield s4, Raised('ValueError')      # shapes cannot be broadcast
						continue
					new = z3.Const(fresh_name('cells'), CELLS)
					r, c = z3.Int(fresh_name('r')), z3.Int(fresh_name('c'))
					cur = s3.heap[obj.addr]
					written = z3.And(r >= lo, r < hi, c == col)
					s3.assume(z3.ForAll([r, c], z3.Select(z3.Select(new, r), c) == z3.If(written, z3.Select(z3.Select(src.cells, v.row), v.lo + (r - lo)), z3.Select(z3.Select(cur.cells, r), c)),
					                    patterns=[z3.Select(z3.Select(new, r), c)]))
					s3.heap[obj.addr] = Mat2(cur.rows, cur.cols, new)
					yield s3, None
		return gen()
	return None


@lib('numpy.fill_diagonal')
def _fill_diagonal(eng, st, args, kwargs, node):
	"""np.fill_diagonal(a, 0) on a 2-d float32 array: a[d, d] = 0.0 for every d < min(rows, cols), nothing else changes"""
	_guard_kwargs_none(kwargs, 'numpy.fill_diagonal')
	if len(args) != 2:
		raise Unsupported('numpy.fill_diagonal with other than (array, value)')
	m = st.deref(args[0])
	if not isinstance(m, Mat2) or m.rows is None:
		raise Unsupported('numpy.fill_diagonal of something that is not a 2-d float32 array')
	val = TF32.unwrap(args[1])
	new = z3.Const(fresh_name('cells'), CELLS)
	r, c = z3.Int(fresh_name('r')), z3.Int(fresh_name('c'))
	diag = z3.And(r == c, r >= 0, r < m.rows, r < m.cols)
	st.assume(z3.ForAll([r, c], z3.Select(z3.Select(new, r), c) == z3.If(diag, val, z3.Select(z3.Select(m.cells, r), c)), patterns=[z3.Select(z3.Select(new, r), c)]))
	st.heap[args[0].addr] = Mat2(m.rows, m.cols, new)
	yield st, None


def _guard_kwargs_none(kwargs, what):
	if kwargs:
		raise Unsupported(f'{what} with keyword arguments {sorted(kwargs)}')


@lib('attr:mat2')
def _mat_attr(eng, st, obj, attr, node):
	m = st.heap[obj.addr]
	if attr == 'shape':
		return iter([(st, (SInt(m.cols),) if m.rows is None else (SInt(m.rows), SInt(m.cols)))])
	if attr == 'dtype':
		return iter([(st, ExtObj('dtype', name='float32'))])
	return None


BULK_LIB['class:SigColl'] = 'gambit.sigs.base.AbstractSignatureArray'
