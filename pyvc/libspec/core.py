"""Assumed contracts of Python builtins (and the pseudo-functions produced by the de-cythoniser).
Every handler here is an assumption about the language / library, listed in the evidence."""
import ast
import z3
from ..values import *
from ..ops import *
from ..interp import *

LIB = {}


def accept_kwargs(kwargs, *names):
	"""the listed keywords are understood by the model (their effect is covered by what the model says or is irrelevant to it);
	any other keyword is not interpreted -> the call is outside the subset"""
	extra = sorted(set(kwargs) - set(names))
	if extra:
		raise Unsupported(f'keyword arguments {extra} are not interpreted by the library model')


def lib(*names):
	def deco(f):
		for n in names:
			LIB[n] = f
		return f
	return deco


@lib('builtins.len')
def _len(eng, st, args, kwargs, node):
	v = st.deref(args[0])
	if isinstance(v, (SArr, SSeq)):
		yield st, SInt(v.length)
	elif isinstance(v, SStr):
		yield st, SInt(z3.Length(v.term))
	elif isinstance(v, (tuple, list, str, bytes, dict, set)):
		yield st, len(v)
	elif isinstance(v, SDict) and v.size is not None:
		yield st, SInt(v.size)
	elif isinstance(v, Record) or isinstance(v, SObj):
		yield from eng.call_method(st, args[0], '__len__', [], {}, node, f'call:len')
	else:
		h = eng.lib.get('len:' + type(v).__name__)
		if h is None:
			raise Unsupported(f'len of {v!r}')
		yield from h(eng, st, args[0], node)


@lib('builtins.range', 'cython.parallel.prange')
def _range(eng, st, args, kwargs, node):
	accept_kwargs(kwargs, 'nogil', 'schedule', 'num_threads', 'chunksize')     # prange scheduling: any interleaving is covered by the frame obligations
	if len(args) == 1:
		start, stop = 0, args[0]
	elif len(args) == 2:
		start, stop = args
	else:
		raise Unsupported('range with a step')
	if all(isinstance(a, int) for a in (start, stop)):
		yield st, range(start, stop)
		return
	ct = ctype_of(stop) if eng.cur_finfo.cython else None
	yield st, SRange(start, stop, 1, None)


@lib('builtins.__cast__')
def _cast(eng, st, args, kwargs, node):
	tname, v = args
	ct = eng._resolve_ctype(tname)
	if ct.kind == 'float':
		if isinstance(v, SF32):
			yield st, v
		else:
			yield st, SF32(i2f(int_term(v)))
		return
	if ct.kind == 'int':
		t = int_term(lit_to_c(v))
		eng.oblige(st, f'cast:{eng._site(node)}', f'fits[{ct.name}]', z3.And(t >= ct.lo, t <= ct.hi))
		yield st, SInt(t, ct)
		return
	raise Unsupported(f'cast to {tname}')


@lib('builtins.__addr__')
def _addr(eng, st, args, kwargs, node):
	name = args[0]
	cur = st.env.get(name)
	if isinstance(cur, Cell):
		yield st, Ptr(cur.ref)
		return
	r = Ref('cell')
	st.heap[r.addr] = cur
	st.env[name] = Cell(r)
	yield st, Ptr(r)


@lib('builtins.bytearray')
def _bytearray(eng, st, args, kwargs, node):
	if len(args) == 1 and is_intlike(args[0]):
		n = int_term(args[0])
		for s2, ok in eng.branch(st, n >= 0):
			if not ok:
				yield s2, Raised('ValueError')
				continue
			r = Ref('bytearray')
			s2.heap[r.addr] = SArr(z3.K(I, z3.IntVal(0)), n, 0, None, 'bytearray')
			yield s2, r
		return
	raise Unsupported('bytearray(...) of a non-integer')


@lib('builtins.bytes')
def _bytes(eng, st, args, kwargs, node):
	v = st.deref(args[0])
	if isinstance(v, SArr):
		yield st, SArr(v.arr, v.length, v.off, None, 'bytes')
		return
	h = eng.lib.get('bytes:' + type(v).__name__)
	if h is not None:
		yield from h(eng, st, args[0], node)
		return
	raise Unsupported(f'bytes({v!r})')


@lib('builtins.isinstance')
def _isinstance(eng, st, args, kwargs, node):
	v, T = args
	Ts = T if isinstance(T, tuple) else (T,)
	yield st, any(eng.isinstance(st, v, t) for t in Ts)


@lib('builtins.enumerate')
def _enumerate(eng, st, args, kwargs, node):
	it = st.deref(args[0])
	start = args[1] if len(args) > 1 else kwargs.get('start', 0)
	if isinstance(it, ConcreteIter):
		it = it.items
	if isinstance(it, (tuple, list, str, bytes, range)) and isinstance(start, int):
		yield st, ConcreteIter([(i + start, x) for i, x in enumerate(it)])
	else:
		yield st, SEnumerate(it, start)


@lib('builtins.list', 'builtins.tuple')
def _list(eng, st, args, kwargs, node):
	if not args:
		r = Ref('list')
		st.heap[r.addr] = []
		yield st, r
		return
	v = st.deref(args[0])
	if isinstance(v, ConcreteIter):
		v = v.items
	if isinstance(v, dict):
		v = list(v.keys())
	if isinstance(v, (tuple, list, range, str)):
		r = Ref('list')
		st.heap[r.addr] = list(v)
		yield st, r
		return
	if isinstance(v, SSeq):
		r = Ref('list')
		st.heap[r.addr] = v
		yield st, r
		return
	raise Unsupported(f'list({v!r})')


@lib('builtins.str')
def _str(eng, st, args, kwargs, node):
	v = args[0]
	if isinstance(v, (str, SStr)):
		yield st, v
	elif isinstance(v, int):
		yield st, str(v)
	elif isinstance(v, SInt):
		yield st, SStr(z3.IntToStr(v.term))      # decimal representation (non-negative integers)
	else:
		h = eng.lib.get('str:' + type(st.deref(v)).__name__)
		if h is None:
			raise Unsupported(f'str({v!r})')
		yield from h(eng, st, v, node)


@lib('builtins.int')
def _int(eng, st, args, kwargs, node):
	v = args[0]
	if is_intlike(v):
		yield st, (SInt(int_term(v)) if is_sym(v) else int(v))
	else:
		raise Unsupported(f'int({v!r})')


@lib('builtins.bool')
def _bool(eng, st, args, kwargs, node):
	yield st, wrap_bool(simp(eng.truth(st, args[0])))


@lib('builtins.dict')
def _dict(eng, st, args, kwargs, node):
	if args:
		raise Unsupported('dict(iterable)')
	r = Ref('dict')
	st.heap[r.addr] = dict(kwargs)
	yield st, r


@lib('builtins.set')
def _set(eng, st, args, kwargs, node):
	if args:
		v = st.deref(args[0])
		if isinstance(v, dict):
			v = list(v.keys())
		if isinstance(v, (list, tuple)):
			r = Ref('set')
			st.heap[r.addr] = list(v)
			yield st, r
			return
		if isinstance(v, SSeq) and isinstance(v.T, TObj):
			S, ax = SSetT.of_seq(v.T, v)
			st.assume(ax)
			r = Ref('set')
			st.heap[r.addr] = S
			yield st, r
			return
		raise Unsupported('set(iterable)')
	r = Ref('set')
	st.heap[r.addr] = EmptySet()
	yield st, r


@lib('method:add')
def _set_add(eng, st, obj, args, kwargs, node, site):
	c = st.deref(obj)
	if not (isinstance(obj, Ref) and obj.kind == 'set'):
		raise Unsupported(f'add on {c!r}')
	x = args[0]
	if isinstance(c, EmptySet):
		if is_intlike(x):
			c = SSet.empty()
		else:
			raise Unsupported('set of non-integers')
	if isinstance(c, SSet):
		st.heap[obj.addr] = c.add(int_term(x))
		yield st, None
		return
	raise Unsupported(f'add on {c!r}')


@lib('builtins.float')
def _float(eng, st, args, kwargs, node):
	v = args[0]
	if isinstance(v, str):
		yield st, float(v)
	elif isinstance(v, (SReal, float)):
		yield st, v
	else:
		raise Unsupported(f'float({v!r})')


# ---- isinstance for the modelled representations --------------------------------------------------
KIND_OF_TYPE = {
	'builtins.bytes': ('bytes',), 'builtins.bytearray': ('bytearray',), 'builtins.str': ('str',),
	'Bio.Seq.Seq': ('Seq',), 'builtins.int': ('int',), 'numpy.integer': ('npint',), 'builtins.slice': ('slice',),
	'numpy.ndarray': ('ndarray',), 'builtins.list': ('list',), 'builtins.tuple': ('tuple',), 'builtins.dict': ('dict',),
}


def value_kind(st, v):
	if isinstance(v, Ref):
		c = st.heap[v.addr]
		if isinstance(c, Record):
			return ('record', c.cls)
		return (v.kind,)
	if isinstance(v, SArr):
		return (v.kind,)
	if isinstance(v, SSeq):
		return ('list',)
	if isinstance(v, bool) or isinstance(v, SBool):
		return ('bool',)
	if isinstance(v, int):
		return ('int',)
	if isinstance(v, SInt):
		return ('npint',) if getattr(v, 'npint', False) else ('int',)
	if isinstance(v, Ref) and False:
		pass
	if isinstance(v, (str, SStr)):
		return ('str',)
	if isinstance(v, bytes):
		return ('bytes',)
	if isinstance(v, SSlice):
		return ('slice',)
	if isinstance(v, tuple):
		return ('tuple',)
	if isinstance(v, SObj):
		return ('obj', v.T.name)
	if isinstance(v, SRec):
		return ('record', v.T.pyclass)
	if v is None:
		return ('none',)
	if isinstance(v, ExtObj):
		return (v.kind,)
	if isinstance(v, (float, SReal)):
		return ('float',)
	return ('unknown', type(v).__name__)


@lib('__isinstance__')
def _isinst(eng, st, v, T):
	vk = value_kind(st, v)
	if vk[0] == 'unknown':
		return None
	if isinstance(T, ExtRef):
		ks = KIND_OF_TYPE.get(T.qualname)
		if ks is None:
			return None
		if vk[0] == 'bool' and 'int' in ks:
			return True
		return vk[0] in ks
	if isinstance(T, ClassRef):
		h = eng.lib.get('__subclass__')
		if vk[0] == 'record':
			if h is not None:
				return h(eng, vk[1], T.qualname)
			return vk[1] == T.qualname
		if vk[0] == 'obj':
			q = eng.lib.get('class:' + vk[1])
			if h is not None and q is not None:
				return h(eng, q, T.qualname)
			return q == T.qualname
		if h is not None:
			r = h(eng, 'kind:' + vk[0], T.qualname)
			if r is not None:
				return r
		return False
	return None


# ---- bytes / str methods ------------------------------------------------------------------------------
from ..spec import uparr



@lib('method:upper')
def _upper(eng, st, obj, args, kwargs, node, site):
	v = st.deref(obj)
	if isinstance(v, (str, bytes)):
		yield st, v.upper()
	elif isinstance(v, SArr) and v.kind in ('bytes', 'bytearray'):
		eng.axioms_used.add('uparr')
		yield st, SArr(uparr(v.arr), v.length, v.off, None, 'bytes')
	else:
		raise Unsupported(f'upper() of {v!r}')


@lib('method:lower')
def _lower(eng, st, obj, args, kwargs, node, site):
	v = st.deref(obj)
	if isinstance(v, (str, bytes)):
		yield st, v.lower()
	else:
		raise Unsupported(f'lower() of {v!r}')


@lib('method:encode')
def _encode(eng, st, obj, args, kwargs, node, site):
	v = st.deref(obj)
	if kwargs or len(args) > 1:
		raise Unsupported('encode() with an error handler / further arguments')       # e.g. errors='ignore' silently drops characters
	if isinstance(v, str):
		yield st, v.encode(*args)
		return
	if isinstance(v, SArr) and v.kind == 'str' and args == ['ascii']:
		j = z3.Int(fresh_name('j'))
		nonascii = z3.Exists([j], z3.And(j >= 0, j < v.length, v.at(j) > 127))
		for s2, bad in eng.branch(st, nonascii):
			if bad:
				yield s2, Raised('UnicodeEncodeError')
			else:
				yield s2, SArr(v.arr, v.length, v.off, None, 'bytes')
		return
	raise Unsupported(f'encode() of {v!r}')


@lib('method:decode')
def _decode(eng, st, obj, args, kwargs, node, site):
	v = st.deref(obj)
	if isinstance(v, bytes):
		yield st, v.decode(*args)
		return
	if isinstance(v, SArr) and v.kind in ('bytes',) and args == ['ascii']:
		j = z3.Int(fresh_name('j'))
		nonascii = z3.Exists([j], z3.And(j >= 0, j < v.length, v.at(j) > 127))
		for s2, bad in eng.branch(st, nonascii):
			if bad:
				yield s2, Raised('UnicodeDecodeError')
			else:
				yield s2, SArr(v.arr, v.length, v.off, None, 'str')
		return
	raise Unsupported(f'decode() of {v!r}')


def _clamp_index(v, n, default):
	"""PySlice_AdjustIndices for one bound (step 1)."""
	if v is None:
		return default
	t = int_term(v)
	t = z3.If(t < 0, t + n, t)
	return z3.If(t < 0, 0, z3.If(t > n, n, t))


@lib('method:find')
def _find(eng, st, obj, args, kwargs, node, site):
	"""bytes.find(sub[, start[, end]]): lowest index in [start, end - len(sub)] where sub occurs, else -1
	(start/end clamped like slice bounds).  Stated for non-empty sub."""
	from .. import spec as S
	hay = st.deref(obj)
	if not isinstance(hay, SArr):
		raise Unsupported(f'find on {hay!r}')
	needle = st.deref(args[0])
	if isinstance(needle, (bytes, bytearray)):
		raise Unsupported('find of a concrete needle')
	if not isinstance(needle, SArr):
		raise Unsupported(f'find of {needle!r}')
	n, L = hay.length, needle.length
	eng.oblige(st, site, 'needle-non-empty(library contract stated for len>=1)', L >= 1)
	s = _clamp_index(args[1] if len(args) > 1 else None, n, z3.IntVal(0))
	e = _clamp_index(args[2] if len(args) > 2 else None, n, n)
	r = z3.Int(fresh_name('loc'))
	p = z3.Int(fresh_name('p'))
	oc = lambda t: S.occ(hay.arr, hay.off, needle.arr, needle.off, L, t)
	notfound = z3.And(r == -1, z3.ForAll([p], z3.Implies(z3.And(s <= p, p + L <= e), z3.Not(oc(p)))))
	found = z3.And(s <= r, r + L <= e, oc(r), z3.ForAll([p], z3.Implies(z3.And(s <= p, p < r), z3.Not(oc(p)))))
	st.assume(z3.Or(notfound, found))
	yield st, SInt(r)


@lib('recmethod:__attrs_init__')
def _attrs_init(eng, st, obj, args, kwargs, node, site):
	rec = st.heap[obj.addr]
	nf = dict(rec.fields)
	nf.update(kwargs)
	st.heap[obj.addr] = Record(rec.cls, nf)
	yield st, None


@lib('builtins.type')
def _type(eng, st, args, kwargs, node):
	v = st.deref(args[0])
	if isinstance(v, Record):
		yield st, ClassRef(v.cls)
	else:
		yield st, ExtObj('type', of=v)


@lib('builtins.slice')
def _slice(eng, st, args, kwargs, node):
	if len(args) == 1:
		yield st, SSlice(None, args[0], None)
	elif len(args) == 2:
		yield st, SSlice(args[0], args[1], None)
	else:
		yield st, SSlice(*args[:3])


# ---- list / dict methods -------------------------------------------------------------------------------------------

@lib('method:append')
def _append(eng, st, obj, args, kwargs, node, site):
	if not (isinstance(obj, Ref) and obj.kind == 'list'):
		raise Unsupported(f'append on {obj!r}')
	c = st.heap[obj.addr]
	v = args[0]
	if isinstance(c, list):
		st.heap[obj.addr] = c + [v]
	elif isinstance(c, SSeq):
		st.heap[obj.addr] = c.snoc(eng.to_elem(st, c.T, v))
	else:
		raise Unsupported(f'append on {c!r}')
	yield st, None


@lib('method:index')
def _index(eng, st, obj, args, kwargs, node, site):
	"""list.index(x): least i with list[i] == x, ValueError if there is none"""
	c = st.deref(obj)
	x = args[0]
	if isinstance(c, (list, tuple)) and not is_sym(x):
		try:
			yield st, c.index(x)
		except ValueError:
			yield st, Raised('ValueError')
		return
	if isinstance(c, SSeq):
		j = z3.Int(fresh_name('j'))
		found = z3.Exists([j], z3.And(0 <= j, j < c.length, bool_term(values_equal(c.at(j), x))))
		for s2, ok in eng.branch(st, found):
			if not ok:
				yield s2, Raised('ValueError')
				continue
			i = z3.Int(fresh_name('idx'))
			s2.assume(z3.And(0 <= i, i < c.length, bool_term(values_equal(c.at(i), x)),
			                 z3.ForAll([j], z3.Implies(z3.And(0 <= j, j < i), z3.Not(bool_term(values_equal(c.at(j), x)))))))
			yield s2, SInt(i)
		return
	raise Unsupported(f'index on {c!r}')


@lib('method:get')
def _dict_get(eng, st, obj, args, kwargs, node, site):
	c = st.deref(obj)
	k = args[0]
	default = args[1] if len(args) > 1 else None
	if isinstance(c, dict) and not is_sym(k) and not isinstance(k, Ref):
		yield st, c.get(k, default)
		return
	from ..interp import SDict
	if isinstance(c, SDict):
		if default is None and isinstance(c.VT, TObj):
			# one value: the stored object or None (the sort's distinguished element)
			yield st, SObj(c.VT, z3.If(c.has(k), c.VT.unwrap(c.get(k)), c.VT.none))
			return
		for s2, has in eng.branch(st, c.has(k)):
			yield s2, (c.get(k) if has else default)
		return
	h = eng.lib.get('get:' + type(c).__name__)
	if h is not None:
		yield from h(eng, st, obj, args, kwargs, node, site)
		return
	raise Unsupported(f'get on {c!r}')


@lib('method:items', 'method:keys', 'method:values')
def _dict_views(eng, st, obj, args, kwargs, node, site):
	c = st.deref(obj)
	name = node.func.attr
	if isinstance(c, dict):
		yield st, ConcreteIter(list(getattr(c, name)()))
		return
	raise Unsupported(f'{name}() on {c!r}')


@lib('method:setdefault')
def _setdefault(eng, st, obj, args, kwargs, node, site):
	c = st.deref(obj)
	k, d = args[0], (args[1] if len(args) > 1 else None)
	if isinstance(c, dict) and not is_sym(k) and not isinstance(k, Ref):
		if k not in c:
			nc = dict(c)
			nc[k] = d
			st.heap[obj.addr] = nc
			yield st, d
		else:
			yield st, c[k]
		return
	raise Unsupported(f'setdefault on {c!r}')


@lib('method:pop')
def _pop(eng, st, obj, args, kwargs, node, site):
	c = st.deref(obj)
	if isinstance(c, dict) and args and not is_sym(args[0]):
		nc = dict(c)
		if args[0] in nc:
			v = nc.pop(args[0])
			st.heap[obj.addr] = nc
			yield st, v
		elif len(args) > 1:
			yield st, args[1]
		else:
			yield st, Raised('KeyError')
		return
	raise Unsupported(f'pop on {c!r}')


@lib('sqlalchemy.orm.object_session', 'sqlalchemy.orm.session.object_session')
def _object_session(eng, st, args, kwargs, node):
	yield st, ExtObj('session')


@lib('method:count')
def _count(eng, st, obj, args, kwargs, node, site):
	"""Query.count() on genomeset.genomes: the number of genomes in the set (ghost gqcount)"""
	if isinstance(obj, SObj) and obj.T.name == 'GenomeQuery':
		from contracts.refdb import gqcount
		yield st, SInt(gqcount(obj.term))
		return
	raise Unsupported(f'count() on {obj!r}')


@lib('builtins.map')
def _map(eng, st, args, kwargs, node):
	"""map(f, xs) consumed as a list: element-wise (generic element for symbolic sequences)"""
	f = args[0]
	if len(args) != 2:
		raise Unsupported('map over several iterables')
	xs = st.deref(args[1])
	if isinstance(xs, ConcreteIter):
		xs = xs.items
	if isinstance(xs, (list, tuple, range, str)):
		states = [(st, [])]
		for x in xs:
			nxt = []
			for s, acc in states:
				for s2, v in eng.call(s, f, [x], {}, node):
					if isinstance(v, Raised):
						yield s2, v
					else:
						nxt.append((s2, acc + [v]))
			states = nxt
		for s, acc in states:
			yield s, ConcreteIter(acc)
		return

	def elem(s1, item):
		yield from eng.call(s1, f, [item], {}, node)
	yield from eng.generic_map(st, xs, elem, node)


# ---- str (z3 strings) ---------------------------------------------------------------------------------------------------

@lib('method:endswith')
def _endswith(eng, st, obj, args, kwargs, node, site):
	s, suf = obj, args[0]
	if isinstance(s, str) and isinstance(suf, (str, tuple)):
		yield st, s.endswith(suf)
		return
	if isinstance(s, (SStr, str)) and isinstance(suf, (SStr, str)):
		yield st, SBool(z3.SuffixOf(to_term(suf), to_term(s)))
		return
	raise Unsupported(f'endswith on {s!r}')


@lib('method:startswith')
def _startswith(eng, st, obj, args, kwargs, node, site):
	s, pre = obj, args[0]
	if isinstance(s, str) and isinstance(pre, (str, tuple)):
		yield st, s.startswith(pre)
		return
	if isinstance(s, (SStr, str)) and isinstance(pre, (SStr, str)):
		yield st, SBool(z3.PrefixOf(to_term(pre), to_term(s)))
		return
	raise Unsupported(f'startswith on {s!r}')


@lib('os.fspath', 'os.fsdecode')
def _fspath(eng, st, args, kwargs, node):
	v = args[0]
	if isinstance(v, (str, SStr)):
		yield st, v
		return
	h = eng.lib.get('fspath:' + type(st.deref(v)).__name__)
	if h is not None:
		yield from h(eng, st, v, node)
		return
	if isinstance(v, SObj) and 'pathstr' in v.T.fields:
		yield st, v.getattr('pathstr')
		return
	raise Unsupported(f'fspath({v!r})')


@lib('os.path.basename', 'posixpath.basename')
def _basename(eng, st, args, kwargs, node):
	"""the part after the last '/' (POSIX)"""
	s = args[0]
	if isinstance(s, str):
		import posixpath
		yield st, posixpath.basename(s)
		return
	d = z3.String(fresh_name('dirpart'))
	r = z3.String(fresh_name('base'))
	st.assume(z3.And(s.term == z3.Concat(d, r), z3.Not(z3.Contains(r, z3.StringVal('/'))),
	                 z3.Or(d == z3.StringVal(''), z3.SuffixOf(z3.StringVal('/'), d))))
	yield st, SStr(r)


@lib('__getitem__')
def _getitem_hook(eng, st, obj, idx, node, site):
	# str slicing s[:-n] / s[:n] / s[n:] with concrete n
	if isinstance(obj, SStr) and isinstance(idx, SSlice) and idx.step is None:
		L = z3.Length(obj.term)
		lo, hi = idx.start, idx.stop
		def norm(v, default):
			if v is None:
				return default
			t = int_term(v)
			t = z3.If(t < 0, t + L, t)
			return z3.If(t < 0, 0, z3.If(t > L, L, t))
		a, b = norm(lo, z3.IntVal(0)), norm(hi, L)
		return iter([(st, SStr(z3.SubString(obj.term, a, z3.If(b - a < 0, 0, b - a))))])
	return None


_olen = {}


@lib('method:__len__')
def _opaque_len(eng, st, obj, args, kwargs, node, site):
	"""len() of an opaque collection value: an uninterpreted non-negative function of the value"""
	if isinstance(obj, SObj):
		f = _olen.setdefault(obj.T.name, z3.Function(f'len_{obj.T.name}', obj.T.sort, I))
		st.assume(f(obj.term) >= 0)
		yield st, SInt(f(obj.term))
		return
	raise Unsupported(f'len of {obj!r}')


@lib('builtins.getattr')
def _getattr(eng, st, args, kwargs, node):
	obj, name = args[0], args[1]
	if not isinstance(name, str):
		raise Unsupported('getattr with a symbolic name')
	yield from eng.getattr(st, obj, name, node)


@lib('method:split')
def _split(eng, st, obj, args, kwargs, node, site):
	if isinstance(obj, str) and all(isinstance(a, str) for a in args):
		r = Ref('list')
		st.heap[r.addr] = obj.split(*args)
		yield st, r
		return
	raise Unsupported(f'split on {obj!r}')
