"""Assumed model of h5py (C12): a group has an attribute store (name -> value, possibly h5py.Empty) and datasets."""
import z3
from ..values import *
from ..ops import *
from ..interp import *
from .core import lib, LIB, KIND_OF_TYPE

TJson = TObj('JsonVal')
TAttrVal = TObj('AttrVal')
JD = z3.Function('json_dumps', TJson.sort, STR)
JL = z3.Function('json_loads', STR, TJson.sort)
KIND_OF_TYPE['h5py.Empty'] = ('h5empty',)
KIND_OF_TYPE['h5py._hl.base.Empty'] = ('h5empty',)


def json_axiom():
	x = z3.Const('x', TJson.sort)
	return z3.ForAll([x], z3.Implies(x != TJson.none, z3.And(JL(JD(x)) == x, JL(JD(x)) != TJson.none)), patterns=[JD(x)])


from .. import spec as S
S.AXIOMS['json'] = json_axiom


@lib('h5py.Empty')
def _empty(eng, st, args, kwargs, node):
	yield st, ExtObj('h5empty')


@lib('h5py.string_dtype')
def _string_dtype(eng, st, args, kwargs, node):
	yield st, ExtObj('h5strdtype')


@lib('json.dumps')
def _dumps(eng, st, args, kwargs, node):
	v = args[0]
	if isinstance(v, SObj) and v.T is TJson:
		yield st, SStr(JD(v.term))
		return
	raise Unsupported(f'json.dumps({v!r})')


@lib('json.loads')
def _loads(eng, st, args, kwargs, node):
	v = args[0]
	if isinstance(v, (SStr, str)):
		yield st, SObj(TJson, JL(to_term(v)))
		return
	raise Unsupported(f'json.loads({v!r})')


_prev_kind = None


HEADER = z3.Function('file_header', STR, TArr.sort)      # the first (up to) 8 bytes of the file at a path
HASMARK = z3.Function('file_has_marker', STR, B)         # the HDF5 root group of that file carries the format marker attribute
MARKVAL = z3.Function('file_marker_value', STR, I)


@lib('builtins.open')
def _open(eng, st, args, kwargs, node):
	"""open(path, mode): a file object (OSError for unreadable paths is not modelled); the mode is recorded for C18"""
	mode = args[1] if len(args) > 1 else kwargs.get('mode', 'r')
	if not isinstance(mode, str):
		raise Unsupported('open() with a symbolic mode')
	if any(ch in mode for ch in 'wax+'):
		st.ghosts['fs_write'] = True
	yield st, ExtObj('file', path=args[0], mode=mode, enter=None)


@lib('method:read')
def _read(eng, st, obj, args, kwargs, node, site):
	if isinstance(obj, ExtObj) and obj.kind == 'file' and args and args[0] == 8 and 'b' in str(obj.data.get('mode')):
		h = TArr(None, 'bytes').wrap(HEADER(to_term(obj.data['path'])))
		st.assume(z3.And(h.length >= 0, h.length <= 8))
		j = z3.Int(fresh_name('j'))
		st.assume(z3.ForAll([j], z3.And(z3.Select(h.arr, j) >= 0, z3.Select(h.arr, j) <= 255)))
		yield st, h
		return
	raise Unsupported(f'read on {obj!r}')


@lib('h5py.File')
def _h5file(eng, st, args, kwargs, node):
	"""h5py.File(path[, mode]): the root group; default mode is read-only ('r').  Attribute store: symbolic, with the
	format marker present iff file_has_marker(path)."""
	from contracts.hdf5c import MARKER
	path = args[0]
	mode = args[1] if len(args) > 1 else kwargs.get('mode', 'r')
	if mode != 'r':
		st.ghosts['fs_write'] = True       # every h5py mode other than 'r' may create, truncate or modify the file
	d = SDict(TStr, TAttrVal, z3.Const(fresh_name('attrs_dom'), z3.ArraySort(STR, B)), z3.Const(fresh_name('attrs_val'), z3.ArraySort(STR, TAttrVal.sort)), None)
	st.assume(z3.Select(d.dom, z3.StringVal(MARKER)) == HASMARK(to_term(path)))
	a = Ref('dict')
	st.heap[a.addr] = d
	r = Ref('record')
	st.heap[r.addr] = Record('h5py.Group', {'attrs': a, 'path': path, 'mode': mode})
	yield st, r


@lib('__ghost_init__h5')
def _ghost_init_h5(eng, st):
	st.ghosts['fs_write'] = False
