"""Assumed model of the SQLAlchemy objects the read-only glue of C18 touches: engines, session makers, sessions.
Ghost flags record the two effects the property forbids on the default path: a real flush and a real commit."""
import z3
from ..values import *
from ..ops import *
from ..interp import *
from .core import lib, LIB


@lib('__ghost_init__sqla')
def _ghost_init(eng, st):
	st.ghosts['db_flushed'] = False
	st.ghosts['db_committed'] = False


@lib('sqlalchemy.create_engine', 'sqlalchemy.engine.create_engine')
def _create_engine(eng, st, args, kwargs, node):
	yield st, ExtObj('engine', url=args[0])


@lib('sqlalchemy.orm.sessionmaker', 'sqlalchemy.orm.session.sessionmaker')
def _sessionmaker(eng, st, args, kwargs, node):
	"""sessionmaker(bind, class_=Session, **kw): a factory of sessions of class class_ bound to that engine"""
	bind = args[0] if args else kwargs.get('bind')
	yield st, ExtObj('sessionmaker', engine=bind, class_=kwargs.get('class_', ExtRef('sqlalchemy.orm.Session')), kw={k: v for k, v in kwargs.items() if k not in ('class_', 'bind')})


@lib('call:sessionmaker')
def _make_session(eng, st, f, args, kwargs, node):
	yield st, ExtObj('session', class_=f.data['class_'], engine=f.data['engine'], maker=f)


@lib('builtins.super')
def _super(eng, st, args, kwargs, node):
	yield st, ExtObj('super')


@lib('method:flush')
def _flush(eng, st, obj, args, kwargs, node, site):
	"""Session.flush (reached through super() or on a plain session): writes pending changes to the database"""
	if isinstance(obj, ExtObj) and obj.kind in ('super', 'session'):
		st.ghosts['db_flushed'] = True
		yield st, None
		return
	raise Unsupported(f'flush on {obj!r}')


@lib('method:commit')
def _commit(eng, st, obj, args, kwargs, node, site):
	if isinstance(obj, ExtObj) and obj.kind in ('super', 'session'):
		st.ghosts['db_committed'] = True
		st.ghosts['db_flushed'] = True
		yield st, None
		return
	raise Unsupported(f'commit on {obj!r}')
