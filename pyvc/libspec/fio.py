"""Assumed model of byte/text streams for the file glue of C06 (open, gzip, TextIOWrapper, Bio.SeqIO.parse).

A stream is an opaque object that remembers HOW it was built (a chain text > gzip > file ...), over WHICH path and in
which mode; file content is an uninterpreted function of the path.  read(n) at position 0 of a binary file returns the first
min(n, size) bytes of that content.  Nothing here says what gzip or the FASTA parser compute: the contracts only pin down
which stream construction the code chooses for which content."""
import z3
from ..values import *
from ..ops import *
from ..interp import *
from .core import lib, LIB

CONTENT = z3.Function('file_content', STR, TArr(None, 'bytes').sort)      # the bytes stored at a path


def content_of(path):
	return TArr(None, 'bytes').wrap(CONTENT(to_term(path)))


def _pos(st, f):
	return st.ghosts.get('_const_fpos', {}).get(id(f), 0)


def _setpos(st, f, v):
	d = dict(st.ghosts.get('_const_fpos', {}))
	d[id(f)] = v
	st.ghosts['_const_fpos'] = d


@lib('builtins.open')
def _open(eng, st, args, kwargs, node):
	"""open(path, mode='r', **kw): a file object positioned at 0 (OSError for unreadable paths is not modelled)"""
	mode = args[1] if len(args) > 1 else kwargs.get('mode', 'r')
	kw = {k: v for k, v in kwargs.items() if k != 'mode'}
	yield st, ExtObj('file', path=args[0], mode=mode, enter=None, closed=[False], kw=kw, chain='file')


@lib('method:read')
def _read(eng, st, obj, args, kwargs, node, site):
	if isinstance(obj, ExtObj) and obj.kind == 'file' and args and isinstance(args[0], int) and 'b' in str(obj.data.get('mode')) and _pos(st, obj) == 0:
		n = args[0]
		c = content_of(obj.data['path'])
		st.assume(c.length >= 0)
		j = z3.Int(fresh_name('j'))
		st.assume(z3.ForAll([j], z3.And(z3.Select(c.arr, j) >= 0, z3.Select(c.arr, j) <= 255)))
		ln = z3.If(c.length < n, c.length, z3.IntVal(n))
		_setpos(st, obj, None)       # somewhere behind the start
		yield st, SArr(c.arr, ln, c.off, None, 'bytes')
		return
	raise Unsupported(f'read on {obj!r}')


@lib('method:seek')
def _seek(eng, st, obj, args, kwargs, node, site):
	if isinstance(obj, ExtObj) and obj.kind == 'file' and args and args[0] == 0 and len(args) == 1:
		_setpos(st, obj, 0)
		yield st, 0
		return
	raise Unsupported(f'seek on {obj!r}')


@lib('method:close')
def _close(eng, st, obj, args, kwargs, node, site):
	if isinstance(obj, ExtObj) and 'closed' in obj.data:
		yield st, None
		return
	raise Unsupported(f'close on {obj!r}')


def _wrap(kind, inner, **extra):
	return ExtObj(kind, inner=inner, path=inner.data.get('path'), mode=inner.data.get('mode'), closed=inner.data.get('closed', [False]),
	              chain=kind + '>' + inner.data.get('chain', inner.kind), base=inner.data.get('base', inner), **extra)


@lib('gzip.GzipFile')
def _gzipfile(eng, st, args, kwargs, node):
	f = kwargs.get('fileobj')
	if not isinstance(f, ExtObj) or kwargs.get('mode') != 'rb' or args:
		raise Unsupported('GzipFile(...) other than GzipFile(fileobj=<binary file>, mode="rb")')
	if _pos(st, f) != 0:
		raise Unsupported('GzipFile over a file that is not positioned at its start')
	yield st, _wrap('gzip', f)


@lib('gzip.open')
def _gzipopen(eng, st, args, kwargs, node):
	mode = args[1] if len(args) > 1 else kwargs.get('mode', 'rb')
	f = ExtObj('file', path=args[0], mode='rb' if isinstance(mode, str) and mode[0] == 'r' else mode, enter=None, closed=[False], kw={}, chain='file')
	g = _wrap('gzip', f)
	if isinstance(mode, str) and mode.endswith('t'):
		g = _wrap('text', g, kw={k: v for k, v in kwargs.items() if k != 'mode'})
	yield st, g


@lib('io.TextIOWrapper')
def _textio(eng, st, args, kwargs, node):
	b = args[0]
	if not isinstance(b, ExtObj):
		raise Unsupported('TextIOWrapper over a non-stream')
	if b.kind == 'file' and _pos(st, b) != 0:
		raise Unsupported('TextIOWrapper over a file that is not positioned at its start')
	yield st, _wrap('text', b, kw=dict(kwargs))


@lib('os.fsdecode', 'os.fspath')
def _fsdecode(eng, st, args, kwargs, node):
	yield st, args[0]


@lib('Bio.SeqIO.parse')
def _seqio_parse(eng, st, args, kwargs, node):
	"""SeqIO.parse(stream, format): lazy iterator over the records of that stream (the parser itself is external: bounded only)"""
	s = args[0]
	if not isinstance(s, ExtObj):
		raise Unsupported('SeqIO.parse over a non-stream')
	yield st, ExtObj('records', stream=s, format=args[1] if len(args) > 1 else kwargs.get('format'), chain='records>' + s.data.get('chain', s.kind))


@lib('builtins.iter')
def _iter(eng, st, args, kwargs, node):
	v = args[0]
	if isinstance(v, ExtObj) and v.kind == 'records':
		yield st, v
		return
	raise Unsupported(f'iter({v!r})')


@lib('__ghost_init__fio')
def _ghost_init_fio(eng, st):
	"""THE records Bio.SeqIO parses from the sequence file a function works on (one file per verified function)"""
	from contracts.fileio import fresh_records
	if not any('records_of' in str(c) for c in list(eng.cur_contract.requires) + list(eng.cur_contract.ensures)):
		return
	st.ghosts['_const_records'] = fresh_records(st)
