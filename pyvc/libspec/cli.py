"""Assumed contracts for click and for the opaque k-mer spec values used by the CLI contracts."""
import z3
from ..values import *
from ..ops import *
from ..interp import *
from .core import lib, LIB
from .conc import TKSpecV
from ..spec import uparr


@lib('click.ClickException', 'click.exceptions.ClickException')
def _click_exc(eng, st, args, kwargs, node):
	yield st, ExcInstance('ClickException', tuple(args))


@lib('click.echo')
def _echo(eng, st, args, kwargs, node):
	yield st, None


@lib('new:gambit.kmers.KmerSpec')
def _new_kspec(eng, st, args, kwargs, node):
	"""KmerSpec(k, prefix) as an opaque value: equal iff k and the (upper-cased) prefix are equal"""
	from contracts.cli import mkspec, DEFAULT
	k, prefix = args[0], st.deref(args[1])
	if isinstance(k, int) and isinstance(prefix, (str, bytes)):
		if (k, prefix if isinstance(prefix, str) else prefix.decode()) == (11, 'ATGAC'):
			yield st, SObj(TKSpecV, DEFAULT)
			return
		raise Unsupported('concrete KmerSpec other than the default')
	if not isinstance(prefix, SArr):
		raise Unsupported(f'KmerSpec prefix {prefix!r}')
	yield st, SObj(TKSpecV, mkspec(int_term(k), uparr(prefix.arr), prefix.length))


_core_upper = LIB['method:upper']


@lib('method:upper')
def _upper(eng, st, obj, args, kwargs, node, site):
	v = st.deref(obj)
	if isinstance(v, SArr) and v.kind == 'str':
		# ASCII text (the contract of the caller requires it): code-point-wise upper-casing, same length
		yield st, SArr(uparr(v.arr), v.length, v.off, None, 'str')
		return
	yield from _core_upper(eng, st, obj, args, kwargs, node, site)


@lib('__ghost_init__cli')
def _ghost_init_cli(eng, st):
	st.ghosts['_const_written_init'] = False
	st.ghosts['written'] = False


@lib('method:export')
def _export(eng, st, obj, args, kwargs, node, site):
	"""exporter.export(file, results): writes the results (ghost: written)"""
	if isinstance(obj, ExtObj) and obj.kind == 'exporter':
		st.ghosts['written'] = True
		yield st, None
		return
	raise Unsupported(f'export on {obj!r}')


@lib('gambit._cython.threads.omp_set_num_threads')
def _omp(eng, st, args, kwargs, node):
	yield st, None


@lib('Bio.Phylo.write')
def _phylo_write(eng, st, args, kwargs, node):
	st.ghosts['written'] = True
	yield st, None


@lib('__getitem__')
def _dmat_getitem(eng, st, obj, idx, node, site):
	"""dmat[i, :] of the abstract distance matrix: row i (in-bounds obligation on i)"""
	if isinstance(obj, SObj) and obj.T.name == 'DMat' and isinstance(idx, tuple) and len(idx) == 2 and isinstance(idx[1], SSlice) \
			and idx[1].start is None and idx[1].stop is None and idx[1].step is None:
		from contracts.queryglue import rowof, nrows, TRow
		i = int_term(idx[0])
		eng.oblige(st, site, 'row-in-bounds', z3.And(i >= 0, i < nrows(obj.term)))
		return iter([(st, SObj(TRow, rowof(obj.term, i)))])
	from .core import _getitem_hook
	return _getitem_hook(eng, st, obj, idx, node, site)


@lib('factory:datetime.now')
def _now(eng, st):
	yield st, ExtObj('datetime')


@lib('pure_len:Record')
def _rec_len(pe, rec):
	if rec.cls.endswith('SignatureList'):
		return SInt(pe.deref(rec.fields['_list']).length)
	raise Unsupported(f'len of {rec.cls} in specification')


@lib('pure_index:Record')
def _rec_index(pe, rec, idx):
	if rec.cls.endswith('SignatureList'):
		return pe.index(rec.fields['_list'], idx)
	raise Unsupported(f'index of {rec.cls} in specification')


@lib('builtins.zip')
def _zip(eng, st, args, kwargs, node):
	"""zip(a, b, strict=True): pairs in order; ValueError if the lengths differ"""
	xs = [st.deref(a) for a in args]
	strict = kwargs.get('strict', False)
	if all(isinstance(x, (list, tuple)) for x in xs):
		if strict and len(set(len(x) for x in xs)) > 1:
			yield st, Raised('ValueError')
		else:
			yield st, ConcreteIter(list(zip(*xs)))
		return
	if not all(isinstance(x, (SSeq, SArr)) for x in xs):
		raise Unsupported('zip over mixed concrete/symbolic sequences')
	n = xs[0].length
	same = z3.And(*[x.length == n for x in xs[1:]]) if len(xs) > 1 else z3.BoolVal(True)
	if strict:
		for s2, ok in eng.branch(st, same):
			if ok:
				yield s2, SZip(xs, n)
			else:
				yield s2, Raised('ValueError')
	else:
		m = n
		for x in xs[1:]:
			m = z3.If(x.length < m, x.length, m)
		yield st, SZip(xs, m)



@lib('gambit.util.misc.zip_strict')
def _zip_strict(eng, st, args, kwargs, node):
	"""gambit.util.misc.zip_strict on Python >= 3.10 is zip(*iterables, strict=True)"""
	yield from _zip(eng, st, args, dict(kwargs, strict=True), node)


@lib('str:SObj')
def _str_sobj(eng, st, v, node):
	if 'pathstr' in v.T.fields:
		yield st, v.getattr('pathstr')
		return
	raise Unsupported(f'str({v!r})')


# ---- pathlib / SequenceFile as opaque values (labels.py) ---------------------------------------------------------------

@lib('pathlib.Path')
def _path(eng, st, args, kwargs, node):
	"""Path(s): str(Path(s)) = pnorm(s) (pathlib's normalisation, uninterpreted); Path(Path) is the same path"""
	from contracts.labels import TPath, PNORM
	v = args[0]
	if isinstance(v, SObj) and v.T is TPath:
		yield st, v
		return
	p = TPath.fresh('path')
	st.assume(p.term != TPath.none)
	st.assume(TPath.fields['pathstr'][0](p.term) == PNORM(to_term(v)))
	yield st, p


_prev_binop = LIB.get('__binop__')


@lib('__binop__')
def _path_div(eng, st, op, a, b, node):
	import ast as _ast
	from contracts.labels import TPath, PJOIN
	if op is _ast.Div and isinstance(a, SObj) and a.T is TPath and isinstance(b, (SStr, str)):
		p = TPath.fresh('joined')
		st.assume(p.term != TPath.none)
		st.assume(TPath.fields['pathstr'][0](p.term) == PJOIN(a.getattr('pathstr').term, to_term(b)))
		return iter([(st, p)])
	if _prev_binop is not None:
		return _prev_binop(eng, st, op, a, b, node)
	return None


@lib('new:gambit.seq.SequenceFile')
def _new_seqfile(eng, st, args, kwargs, node):
	"""attrs class SequenceFile(path, format, compression=None) with converter Path on path"""
	from contracts.labels import TPath
	from .conc import TFile
	names = ['path', 'format', 'compression']
	vals = dict(zip(names, args))
	vals.update(kwargs)
	vals.setdefault('compression', None)
	path = vals['path']
	if not (isinstance(path, SObj) and path.T is TPath):
		path = next(_path(eng, st, [path], {}, node))[1]
	f = TFile.fresh('seqfile')
	st.assume(f.term != TFile.none)
	st.assume(TFile.fields['path'][0](f.term) == path.term)
	st.assume(TFile.fields['format'][0](f.term) == to_term(vals['format']))
	st.assume(TFile.fields['compression'][0](f.term) == TOpt(TStr).unwrap(vals['compression']))
	yield st, f


# ---- csv writer as a ghost list of rows -------------------------------------------------------------------------------
_RowT = TSeq(TStr)
FMT = z3.Function('FMT4', F32, STR)      # format(x, '0.4f') of a binary32 value


@lib('__ghost_init__csv')
def _ghost_init_csv(eng, st):
	st.ghosts['csv_rows'] = SSeq(_RowT, z3.Const(fresh_name('csv0'), z3.ArraySort(I, _RowT.sort)), 0)


@lib('csv.writer')
def _csv_writer(eng, st, args, kwargs, node):
	yield st, ExtObj('csvwriter', opts=dict(kwargs))


@lib('method:writerow')
def _writerow(eng, st, obj, args, kwargs, node, site):
	"""csv.writer.writerow(row): appends one row (the list of its fields as strings) to the document"""
	row = st.deref(args[0])
	if isinstance(row, (list, tuple)):
		r = SSeq(TStr, z3.Const(fresh_name('row'), z3.ArraySort(I, STR)), len(row))
		for i, x in enumerate(row):
			st.assume(z3.Select(r.arr, i) == to_term(x))
		row = r
	if not (isinstance(row, SSeq) and row.T is TStr):
		raise Unsupported(f'writerow of {row!r}')
	st.ghosts['csv_rows'] = st.ghosts['csv_rows'].snoc(row)
	yield st, None


@lib('builtins.format')
def _format(eng, st, args, kwargs, node):
	v, spec = args[0], args[1] if len(args) > 1 else ''
	if isinstance(v, SF32) and spec == '0.4f':
		yield st, SStr(FMT(v.term))
		return
	raise Unsupported(f'format({v!r}, {spec!r})')


@lib('gambit.util.io.maybe_open')
def _maybe_open(eng, st, args, kwargs, node):
	"""a context manager yielding a writable/readable file object for a path, or the given file object (C18 inspects the modes)"""
	yield st, ExtObj('file', mode=args[1] if len(args) > 1 else 'r')


def install_csv11(LIB):
	"""C11 variant of the csv model: rows are opaque values; csv.writer(**opts) carries the quoting obligation"""
	from contracts.results import TRowV

	def ghost_init(eng, st):
		st.ghosts['rows11'] = SSeq(TRowV, z3.Const(fresh_name('rows0'), z3.ArraySort(I, TRowV.sort)), 0)

	def csv_writer(eng, st, args, kwargs, node):
		# Python 3.12 csv, QUOTE_MINIMAL: a field is quoted iff it contains the delimiter, the quote character or a character of
		# the configured lineterminator; the reader ends a record at an unquoted \\r or \\n.  Every field that would break
		# parsing must therefore be quoted by the writer under the options in use.
		lt = kwargs.get('lineterminator', '\\r\\n')
		quoting = kwargs.get('quoting', 0)
		if isinstance(lt, str) and quoting == 0 and 'dialect' not in kwargs:
			s = z3.String(fresh_name('field'))
			has = lambda ch: z3.Contains(s, z3.StringVal(ch))
			breaks = z3.Or(has('\\r'), has('\\n'), has(','), has('"'))
			quoted = z3.Or(has(','), has('"'), *[has(ch) for ch in sorted(set(lt))])
			eng.oblige(st, 'csv.writer', 'fields-that-break-parsing-are-quoted', z3.Implies(breaks, quoted))
		yield st, ExtObj('csvwriter', opts=dict(kwargs))

	def writerow(eng, st, obj, args, kwargs, node, site):
		row = args[0]
		if not (isinstance(row, SObj) and row.T is TRowV):
			raise Unsupported(f'writerow of {row!r}')
		st.ghosts['rows11'] = st.ghosts['rows11'].snoc(row)
		yield st, None
	LIB['__ghost_init__csv11'] = ghost_init
	LIB['csv.writer'] = csv_writer
	LIB['method:writerow'] = writerow


@lib('getattr:csv.QUOTE_MINIMAL')
def _quote_minimal(eng, st, obj, node):
	yield st, 0
