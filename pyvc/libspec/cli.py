"""Assumed contracts for click and for the opaque k-mer spec values used by the CLI contracts."""
import z3
from ..values import *
from ..ops import *
from ..interp import *
from .core import lib, LIB
from .conc import TKSpecV
from ..spec import uparr


@lib('click.ClickException', 'click.exceptions.ClickException')
def _click_exc(eng, st, args, kwargs, node):
	yield st, ExcInstance('ClickException', tuple(args))


@lib('click.echo')
def _echo(eng, st, args, kwargs, node):
	yield st, None


@lib('new:gambit.kmers.KmerSpec')
def _new_kspec(eng, st, args, kwargs, node):
	"""KmerSpec(k, prefix) as an opaque value: equal iff k and the (upper-cased) prefix are equal"""
	from contracts.cli import mkspec, DEFAULT
	k, prefix = args[0], st.deref(args[1])
	if isinstance(k, int) and isinstance(prefix, (str, bytes)):
		if (k, prefix if isinstance(prefix, str) else prefix.decode()) == (11, 'ATGAC'):
			yield st, SObj(TKSpecV, DEFAULT)
			return
		raise Unsupported('concrete KmerSpec other than the default')
	if not isinstance(prefix, SArr):
		raise Unsupported(f'KmerSpec prefix {prefix!r}')
	yield st, SObj(TKSpecV, mkspec(int_term(k), uparr(prefix.arr), prefix.length))


_core_upper = LIB['method:upper']


@lib('method:upper')
def _upper(eng, st, obj, args, kwargs, node, site):
	v = st.deref(obj)
	if isinstance(v, SArr) and v.kind == 'str':
		# ASCII text (the contract of the caller requires it): code-point-wise upper-casing, same length
		yield st, SArr(uparr(v.arr), v.length, v.off, None, 'str')
		return
	yield from _core_upper(eng, st, obj, args, kwargs, node, site)


@lib('__ghost_init__cli')
def _ghost_init_cli(eng, st):
	st.ghosts['_const_written_init'] = False
	st.ghosts['written'] = False


@lib('method:export')
def _export(eng, st, obj, args, kwargs, node, site):
	"""exporter.export(file, results): writes the results (ghost: written)"""
	if isinstance(obj, ExtObj) and obj.kind == 'exporter':
		st.ghosts['written'] = True
		yield st, None
		return
	raise Unsupported(f'export on {obj!r}')


@lib('gambit._cython.threads.omp_set_num_threads')
def _omp(eng, st, args, kwargs, node):
	yield st, None


@lib('Bio.Phylo.write')
def _phylo_write(eng, st, args, kwargs, node):
	st.ghosts['written'] = True
	yield st, None
