"""Assumed contracts: concurrent.futures, contextlib.nullcontext, gambit's progress helpers (treated as a library:
they wrap an iterable / count increments and have no effect on program values).

Futures are integers handed out by an allocation counter (ghost `next_future`), so a future returned by
submit() is different from every earlier one.  ghost arrays: fut_arg[f] = the argument tuple's relevant item."""
import ast
import z3
from ..values import *
from ..ops import *
from ..interp import *
from .core import lib, LIB, accept_kwargs

TFile = TObj('SequenceFile')
TSig = TObj('Signature')          # an opaque signature value (what calc_file_signature returns)
filesig = z3.Function('filesig', TObj('KmerSpecV').sort, TFile.sort, TSig.sort)   # THE single-file result
fileerr = z3.Function('fileerr', TObj('KmerSpecV').sort, TFile.sort, B)             # reading/parsing that file fails
TKSpecV = TObj('KmerSpecV')


@lib('concurrent.futures.ThreadPoolExecutor', 'concurrent.futures.ProcessPoolExecutor',
     'concurrent.futures.thread.ThreadPoolExecutor', 'concurrent.futures.process.ProcessPoolExecutor')
def _executor(eng, st, args, kwargs, node):
	accept_kwargs(kwargs, 'max_workers')       # the worker count does not occur in the futures contract (any completion order is covered)
	yield st, ExtObj('executor', created_here=True)


@lib('contextlib.nullcontext')
def _nullcontext(eng, st, args, kwargs, node):
	yield st, ExtObj('nullcontext', value=args[0] if args else None)


@lib('__enter__')
def _enter(eng, st, cm, node):
	if isinstance(cm, ExtObj):
		if cm.kind == 'nullcontext':
			yield st, cm.data.get('value')
			return
		if cm.kind in ('executor', 'meter', 'file', 'progress_iter'):
			e_ = cm.data.get('enter', cm)
			yield st, (cm if e_ is None else e_)
			return
	h = eng.lib.get('enter:' + type(st.deref(cm)).__name__)
	if h is not None:
		yield from h(eng, st, cm, node)
		return
	raise Unsupported(f'with-statement over {cm!r}')


@lib('__exit__')
def _exit(eng, st, cm, out):
	# the modelled managers do not swallow exceptions and do not change program values on exit
	yield st, out


@lib('__ghost_init__conc')
def _ghost_init(eng, st):
	base = z3.Int(fresh_name('fut_base'))      # futures created before this call (caller-supplied executor) are older
	st.assume(base >= 0)
	st.ghosts['_const_fut_base'] = SInt(base)
	st.ghosts['next_future'] = SInt(base)
	st.ghosts['fut_file'] = z3.Const(fresh_name('fut_file'), z3.ArraySort(I, TFile.sort))
	st.ghosts['fut_kspec'] = z3.Const(fresh_name('fut_kspec'), z3.ArraySort(I, TKSpecV.sort))


@lib('method:submit')
def _submit(eng, st, obj, args, kwargs, node, site):
	"""Executor.submit(fn, *args): a NEW future (never seen before) standing for the call fn(*args)"""
	if not (isinstance(obj, ExtObj) and obj.kind == 'executor'):
		raise Unsupported(f'submit on {obj!r}')
	fn = args[0]
	if not (isinstance(fn, FuncRef) and fn.qualname == 'gambit.sigs.calc.calc_file_signature'):
		raise Unsupported(f'submit of {fn!r}')
	nf = st.ghosts.get('next_future', SInt(0))
	f = int_term(nf)
	fa = st.ghosts.get('fut_file')
	fk = st.ghosts.get('fut_kspec')
	if fa is None:
		fa = z3.Const(fresh_name('fut_file'), z3.ArraySort(I, TFile.sort))
		fk = z3.Const(fresh_name('fut_kspec'), z3.ArraySort(I, TKSpecV.sort))
	st.ghosts['fut_file'] = z3.Store(fa, f, args[2].term)
	st.ghosts['fut_kspec'] = z3.Store(fk, f, args[1].term)
	st.ghosts['next_future'] = SInt(f + 1)
	yield st, SInt(f)


@lib('concurrent.futures.as_completed', 'concurrent.futures._base.as_completed')
def _as_completed(eng, st, args, kwargs, node):
	"""yields every future of the collection exactly once, in an ARBITRARY order (any completion order)"""
	fs = st.deref(args[0])
	if not isinstance(fs, SDict):
		raise Unsupported(f'as_completed over {fs!r}')
	y = TSeq(TInt).fresh('completed')
	p, q, j, f = z3.Int(fresh_name('p')), z3.Int(fresh_name('q')), z3.Int(fresh_name('j')), z3.Int(fresh_name('f'))
	st.assume(y.length >= 0)
	st.assume(z3.ForAll([j], z3.Implies(z3.And(0 <= j, j < y.length), z3.Select(fs.dom, z3.Select(y.arr, j)))))
	st.assume(z3.ForAll([p, q], z3.Implies(z3.And(0 <= p, p < q, q < y.length), z3.Select(y.arr, p) != z3.Select(y.arr, q))))
	st.assume(z3.ForAll([f], z3.Implies(z3.Select(fs.dom, f), z3.Exists([j], z3.And(0 <= j, j < y.length, z3.Select(y.arr, j) == f)))))
	yield st, y


@lib('method:result')
def _result(eng, st, obj, args, kwargs, node, site):
	"""Future.result(): the value of the submitted call, or its exception re-raised"""
	if not isinstance(obj, SInt) or 'fut_file' not in st.ghosts:
		raise Unsupported(f'result() on {obj!r}')
	file = z3.Select(st.ghosts['fut_file'], obj.term)
	ks = z3.Select(st.ghosts['fut_kspec'], obj.term)
	for s2, bad in eng.branch(st, fileerr(ks, file)):
		if bad:
			yield s2, Raised('Exception')
		else:
			yield s2, SObj(TSig, filesig(ks, file))


@lib('method:increment')
def _increment(eng, st, obj, args, kwargs, node, site):
	yield st, None


@lib('gambit.util.progress.get_progress')
def _get_progress(eng, st, args, kwargs, node):
	yield st, ExtObj('meter')


@lib('gambit.util.progress.iter_progress')
def _iter_progress(eng, st, args, kwargs, node):
	"""context manager whose value iterates over the same items in the same order"""
	yield st, ExtObj('progress_iter', enter=args[0])


@lib('gambit.util.progress.progress_config')
def _progress_config(eng, st, args, kwargs, node):
	yield st, ExtObj('pconf')


@lib('method:update')
def _pconf_update(eng, st, obj, args, kwargs, node, site):
	accept_kwargs(kwargs, 'desc', 'total', 'file')      # progress configuration: display only
	if isinstance(obj, ExtObj) and obj.kind == 'pconf':
		yield st, obj
		return
	raise Unsupported(f'update on {obj!r}')


@lib('builtins.all')
def _all(eng, st, args, kwargs, node):
	v = st.deref(args[0])
	if isinstance(v, SSeq) and v.T is TBool:
		j = z3.Int(fresh_name('j'))
		yield st, SBool(z3.ForAll([j], z3.Implies(z3.And(0 <= j, j < v.length), z3.Select(v.arr, j))))
	elif isinstance(v, (list, tuple)):
		yield st, wrap_bool(simp(mk_and(*[eng.truth(st, x) for x in v])))
	else:
		raise Unsupported(f'all({v!r})')


@lib('__binop__')
def _binop_hook(eng, st, op, a, b, node):
	# [None] * n  ->  a list of n "absent" entries (element type decided by the contract: invariant types)
	av = st.deref(a) if isinstance(a, Ref) else a
	if op is ast.Mult and isinstance(av, list) and len(av) == 1 and av[0] is None and is_intlike(b):
		T = eng.cur_contract.hints.get('none_list_type')
		if T is None:
			raise Unsupported('[None] * n without a declared element type')
		n = int_term(b)
		r = Ref('list')
		st.heap[r.addr] = SSeq(T, z3.K(I, T.none), z3.If(n >= 0, n, 0))
		return iter([(st, r)])
	return None
