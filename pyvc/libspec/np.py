"""Assumed contracts of the NumPy calls that verified functions make.

Arrays: a 1-d integer ndarray is an SArr (kind 'ndarray') whose elem CType mirrors the dtype.
dtypes are concrete DType objects; functions are verified once per dtype instance."""
import ast
import z3
from ..values import *
from ..ops import *
from ..interp import *
from .core import lib, LIB


class DType:
	def __init__(self, kind, itemsize):
		self.kind, self.itemsize = kind, itemsize

	@property
	def str(self):
		return f'<{self.kind}{self.itemsize}'

	def __eq__(self, other):
		return isinstance(other, DType) and (self.kind, self.itemsize) == (other.kind, other.itemsize)

	def __hash__(self):
		return hash((self.kind, self.itemsize))

	def __repr__(self):
		return f'dtype({self.kind}{self.itemsize})'

	@property
	def ctype(self):
		return DT2C[(self.kind, self.itemsize)]


DT2C = {('u', 1): CTYPES['uint8_t'], ('u', 2): CTYPES['uint16_t'], ('u', 4): CTYPES['uint32_t'], ('u', 8): CTYPES['uint64_t'],
        ('i', 1): CType('int8_t', True, 8), ('i', 2): CTYPES['int16_t'], ('i', 4): CTYPES['int32_t'], ('i', 8): CTYPES['int64_t'],
        ('f', 4): CTYPES['float'], ('f', 8): CTYPES['double'], ('b', 1): CType('npy_bool', False, 8)}
DT2C[('b', 1)].hi = 1
C2DT = {}
for _k, _v in DT2C.items():
	C2DT[_v.name] = DType(*_k)
C2DT['intptr_t'] = DType('i', 8)
C2DT['Py_ssize_t'] = DType('i', 8)
C2DT['unsigned char'] = DType('u', 1)

NP_SCALAR = {'numpy.float32': DType('f', 4), 'numpy.float64': DType('f', 8), 'numpy.intp': DType('i', 8),
             'numpy.bool_': DType('b', 1), 'builtins.bool': DType('b', 1), 'builtins.int': DType('i', 8),
             'builtins.float': DType('f', 8), 'numpy.uint8': DType('u', 1), 'numpy.uint16': DType('u', 2),
             'numpy.uint32': DType('u', 4), 'numpy.uint64': DType('u', 8), 'numpy.int64': DType('i', 8)}


def as_dtype(v):
	if isinstance(v, DType):
		return v
	if isinstance(v, str):
		s = v.lstrip('<>=|')
		if s in ('bool',):
			return DType('b', 1)
		if s in ('int', 'intp'):
			return DType('i', 8)
		return DType(s[0], int(s[1:]))
	if isinstance(v, ExtRef) and v.qualname in NP_SCALAR:
		return NP_SCALAR[v.qualname]
	raise Unsupported(f'dtype({v!r})')


def dtype_of(arr):
	if arr.elem is None:
		raise Unsupported('ndarray without dtype')
	return C2DT[arr.elem.name]


def mk_ndarray(st, name, dt, length=None, ref=True, constrain=True):
	ct = dt.ctype
	v = SArr(z3.Const(fresh_name(name), IntArr), z3.Int(fresh_name(name + '_len')) if length is None else length, 0, ct, 'ndarray')
	if length is None:
		st.assume(v.length >= 0)
	if constrain and ct.kind == 'int':
		j = z3.Int(fresh_name('j'))
		st.assume(z3.ForAll([j], z3.And(z3.Select(v.arr, j) >= ct.lo, z3.Select(v.arr, j) <= ct.hi)))
	if ref:
		r = Ref('ndarray')
		st.heap[r.addr] = v
		return r
	return v


class NdArr(TypeSpec):
	"""1-d ndarray parameter of a fixed dtype."""

	def __init__(self, dt):
		self.dt = as_dtype(dt)

	def make(self, name, st, eng):
		return mk_ndarray(st, name, self.dt)

	@property
	def desc(self):
		return TArr(self.dt.ctype, 'ndarray')


@lib('numpy.dtype')
def _dtype(eng, st, args, kwargs, node):
	yield st, as_dtype(args[0])


@lib('attr:ndarray')
def _nd_attr(eng, st, obj, attr, node):
	c = st.heap[obj.addr]
	if isinstance(c, SSeq) and c.T is TF32:
		if attr == 'dtype':
			return iter([(st, DType('f', 4))])
		if attr == 'shape':
			return iter([(st, (SInt(c.length),))])
		if attr == 'ndim':
			return iter([(st, 1)])
		return None
	if attr == 'dtype':
		return iter([(st, dtype_of(c))])
	if attr == 'shape':
		return iter([(st, (SInt(c.length),))])
	if attr == 'ndim':
		return iter([(st, 1)])
	if attr == 'any' or attr == 'copy' or attr == 'astype' or attr == 'view' or attr == 'sort':
		return None
	if attr == 'size':
		return iter([(st, SInt(c.length))])
	return None


@lib('attr:DType')
def _dt_attr(eng, st, obj, attr, node):
	if attr in ('kind', 'itemsize', 'str'):
		return iter([(st, getattr(obj, attr))])
	if attr == 'type':
		return iter([(st, ExtObj('nptype', dt=obj))])
	return None


@lib('method:view')
def _view(eng, st, obj, args, kwargs, node, site):
	c = st.deref(obj)
	if not (isinstance(c, SArr) and c.kind == 'ndarray'):
		raise Unsupported('view() of a non-array')
	new = as_dtype(args[0])
	old = dtype_of(c)
	if new.itemsize != old.itemsize or new.kind not in 'ui' or old.kind not in 'ui':
		raise Unsupported(f'view from {old} to {new}')
	if new == old:
		yield st, obj
		return
	bits = 8 * new.itemsize
	# two's-complement reinterpretation, element by element; the result shares memory with the
	# original (writes through the view are not modelled: the verified code only reads it)
	nv = SArr(z3.Const(fresh_name('view'), IntArr), c.length, c.off, new.ctype, 'ndarray')
	j = z3.Int(fresh_name('j'))
	if new.kind == 'u':
		st.assume(z3.ForAll([j], z3.Select(nv.arr, j) == z3.If(z3.Select(c.arr, j) < 0, z3.Select(c.arr, j) + (1 << bits), z3.Select(c.arr, j))))
	else:
		st.assume(z3.ForAll([j], z3.Select(nv.arr, j) == z3.If(z3.Select(c.arr, j) >= (1 << (bits - 1)), z3.Select(c.arr, j) - (1 << bits), z3.Select(c.arr, j))))
	r = Ref('ndarray')
	st.heap[r.addr] = nv
	yield st, r


# ---- array creation / whole-array functions used by the accumulators -------------------------------------

def _kw(args, kwargs, pos, name, default=None):
	if len(args) > pos:
		return args[pos]
	return kwargs.get(name, default)


@lib('numpy.zeros')
def _zeros(eng, st, args, kwargs, node):
	n = args[0]
	dt = as_dtype(_kw(args, kwargs, 1, 'dtype', DType('f', 8)))
	if isinstance(n, tuple):
		raise Unsupported('numpy.zeros with a shape tuple')
	nt = int_term(n)
	for s2, ok in eng.branch(st, nt >= 0):
		if not ok:
			yield s2, Raised('ValueError')
			continue
		r = Ref('ndarray')
		s2.heap[r.addr] = SArr(z3.K(I, z3.IntVal(0)), nt, 0, dt.ctype, 'ndarray')
		yield s2, r


FLATNZ_ARR = z3.Function('flatnz_arr', IntArr, I, I, IntArr)    # positions of the non-zero entries of a[off..off+n), increasing
FLATNZ_LEN = z3.Function('flatnz_len', IntArr, I, I, I)


def flatnz(a):
	"""(SArr of positions, characterisation) for the array a"""
	r = SArr(FLATNZ_ARR(a.arr, a.off, a.length), FLATNZ_LEN(a.arr, a.off, a.length), 0, DType('i', 8).ctype, 'ndarray')
	m, n = r.length, a.length
	p, q, j, i = z3.Int(fresh_name('p')), z3.Int(fresh_name('q')), z3.Int(fresh_name('j')), z3.Int(fresh_name('i'))
	char = z3.And(m >= 0,
		z3.ForAll([p, q], z3.Implies(z3.And(0 <= p, p < q, q < m), r.at(p) < r.at(q))),
		z3.ForAll([j], z3.Implies(z3.And(0 <= j, j < m), z3.And(r.at(j) >= 0, r.at(j) < n, a.at(r.at(j)) != 0))),
		z3.ForAll([i], z3.Implies(z3.And(0 <= i, i < n, a.at(i) != 0), z3.Exists([j], z3.And(0 <= j, j < m, r.at(j) == i)))))
	return r, char


@lib('numpy.flatnonzero')
def _flatnonzero(eng, st, args, kwargs, node):
	"""indices of the non-zero entries, in increasing order (intp): THE array flatnz(a)"""
	a = st.deref(args[0])
	if not isinstance(a, SArr):
		raise Unsupported(f'flatnonzero of {a!r}')
	r, char = flatnz(a)
	st.assume(char)
	ref = Ref('ndarray')
	st.heap[ref.addr] = r
	yield st, ref


@lib('method:astype')
def _astype(eng, st, obj, args, kwargs, node, site):
	"""element-wise C conversion to the target dtype (integers: value modulo 2^bits); a new array unless copy=False and the dtype already matches"""
	a = st.deref(obj)
	if not isinstance(a, SArr):
		raise Unsupported(f'astype of {a!r}')
	dt = as_dtype(args[0])
	old = dtype_of(a)
	if dt == old and kwargs.get('copy', True) is False:
		yield st, obj
		return
	if dt.kind not in 'ui' or old.kind not in 'uib':
		raise Unsupported(f'astype from {old} to {dt}')
	ct = dt.ctype
	r = mk_ndarray(st, 'astype', dt, length=a.length, ref=False)
	j = z3.Int(fresh_name('j'))
	bits = ct.bits
	if ct.signed:
		conv = lambda x: z3.If((x % (1 << bits)) >= (1 << (bits - 1)), (x % (1 << bits)) - (1 << bits), x % (1 << bits))
	else:
		conv = lambda x: x % (1 << bits)
	st.assume(z3.ForAll([j], z3.Implies(z3.And(0 <= j, j < a.length), r.at(j) == conv(a.at(j)))))
	ref = Ref('ndarray')
	st.heap[ref.addr] = r
	yield st, ref


@lib('method:type')
def _dtype_type(eng, st, obj, args, kwargs, node, site):
	raise Unsupported('dtype.type as a method')


def call_nptype(eng, st, dt, args, node):
	"""numpy integer scalar constructor: the value if it fits the type, OverflowError otherwise (Python int argument)"""
	v = args[0]
	ct = dt.ctype
	if ct.kind != 'int':
		raise Unsupported(f'scalar constructor of {dt}')
	t = int_term(v)
	for s2, ok in eng.branch(st, z3.And(t >= ct.lo, t <= ct.hi)):
		if ok:
			r = SInt(t)
			r.npint = True
			yield s2, r
		else:
			yield s2, Raised('OverflowError')


@lib('numpy.fromiter')
def _fromiter(eng, st, args, kwargs, node):
	"""array holding each element of the iterable once, in iteration order (for a set: some order)"""
	src = st.deref(args[0])
	dt = as_dtype(_kw(args, kwargs, 1, 'dtype'))
	if isinstance(src, EmptySet):
		r = Ref('ndarray')
		st.heap[r.addr] = SArr(z3.K(I, z3.IntVal(0)), 0, 0, dt.ctype, 'ndarray')
		yield st, r
		return
	if not isinstance(src, SSet):
		raise Unsupported(f'fromiter of {src!r}')
	r = mk_ndarray(st, 'fromiter', dt, ref=False, constrain=False)
	m = r.length
	p, q, j, x = z3.Int(fresh_name('p')), z3.Int(fresh_name('q')), z3.Int(fresh_name('j')), z3.Int(fresh_name('x'))
	st.assume(z3.ForAll([p, q], z3.Implies(z3.And(0 <= p, p < q, q < m), r.at(p) != r.at(q))))
	st.assume(z3.ForAll([j], z3.Implies(z3.And(0 <= j, j < m), src.has(r.at(j)))))
	st.assume(z3.ForAll([x], z3.Implies(src.has(x), z3.Exists([j], z3.And(0 <= j, j < m, r.at(j) == x)))))
	ref = Ref('ndarray')
	st.heap[ref.addr] = r
	yield st, ref


@lib('method:sort')
def _sort(eng, st, obj, args, kwargs, node, site):
	"""ndarray.sort(): in place, non-decreasing, a permutation of the old contents (stated with the
	permutation pi and its inverse as ghost functions)"""
	a = st.deref(obj)
	if not (isinstance(a, SArr) and isinstance(obj, Ref)):
		raise Unsupported(f'sort of {a!r}')
	m = a.length
	r = SArr(z3.Const(fresh_name('sorted'), IntArr), m, 0, a.elem, a.kind)
	pi = z3.Function(fresh_name('pi'), I, I)
	inv = z3.Function(fresh_name('pinv'), I, I)
	p, q, j = z3.Int(fresh_name('p')), z3.Int(fresh_name('q')), z3.Int(fresh_name('j'))
	st.assume(z3.ForAll([p, q], z3.Implies(z3.And(0 <= p, p < q, q < m), r.at(p) <= r.at(q))))
	st.assume(z3.ForAll([j], z3.Implies(z3.And(0 <= j, j < m), z3.And(0 <= pi(j), pi(j) < m, r.at(j) == a.at(pi(j)), inv(pi(j)) == j))))
	st.assume(z3.ForAll([j], z3.Implies(z3.And(0 <= j, j < m), z3.And(0 <= inv(j), inv(j) < m, pi(inv(j)) == j, r.at(inv(j)) == a.at(j)))))
	st.heap[obj.addr] = r
	yield st, None


@lib('call:nptype')
def _call_nptype(eng, st, f, args, kwargs, node):
	yield from call_nptype(eng, st, f.data['dt'], args, node)


# ---- real-valued vectors (distance rows): SSeq of TReal ------------------------------------------------------------

def _realvec(st, v):
	v = st.deref(v)
	if isinstance(v, SSeq) and v.T is TReal:
		return v
	raise Unsupported(f'expected a real vector, got {v!r}')


@lib('numpy.argmin')
def _argmin(eng, st, args, kwargs, node):
	"""index of the first minimum; ValueError on an empty array (NaN-free input)"""
	d = _realvec(st, args[0])
	for s2, empty in eng.branch(st, d.length == 0):
		if empty:
			yield s2, Raised('ValueError')
			continue
		a = z3.Int(fresh_name('argmin'))
		j = z3.Int(fresh_name('j'))
		s2.assume(z3.And(0 <= a, a < d.length,
			z3.ForAll([j], z3.Implies(z3.And(0 <= j, j < d.length), z3.Select(d.arr, a) <= z3.Select(d.arr, j))),
			z3.ForAll([j], z3.Implies(z3.And(0 <= j, j < a), z3.Select(d.arr, a) < z3.Select(d.arr, j)))))
		r = SInt(a)
		r.npint = True
		yield s2, r


LEXRANK = z3.Function('lexrank', z3.ArraySort(I, R), I, I, I)   # lexrank(d, n, k): position of index k when 0..n-1 is ordered by (d[k], k)


def lexrank_axioms(d, n):
	"""lexrank(d, n, .) is THE order isomorphism from (0..n-1, lexicographic order on (d[k], k)) onto 0..n-1"""
	i, k = z3.Int(fresh_name('i')), z3.Int(fresh_name('k'))
	rk = lambda x: LEXRANK(d, n, x)
	lt = lambda x, y: z3.Or(z3.Select(d, x) < z3.Select(d, y), z3.And(z3.Select(d, x) == z3.Select(d, y), x < y))
	return z3.And(
		z3.ForAll([k], z3.Implies(z3.And(0 <= k, k < n), z3.And(0 <= rk(k), rk(k) < n)), patterns=[rk(k)]),
		z3.ForAll([i, k], z3.Implies(z3.And(0 <= i, i < n, 0 <= k, k < n), lt(i, k) == (rk(i) < rk(k))), patterns=[z3.MultiPattern(rk(i), rk(k))]))


@lib('numpy.argsort')
def _argsort(eng, st, args, kwargs, node):
	"""a permutation of 0..n-1 that sorts the values in non-decreasing order.  The default kind ('quicksort') is
	documented as NOT stable: nothing is promised about the order of equal values.  kind='stable' (or 'mergesort')
	orders equal values by index, i.e. the result is THE permutation sorting by (value, index): result[lexrank(k)] = k."""
	d = _realvec(st, args[0])
	kind = kwargs.get('kind', args[2] if len(args) > 2 else None)
	n = d.length
	r = mk_ndarray(st, 'argsort', DType('i', 8), length=n, ref=False, constrain=False)
	p, q, j = z3.Int(fresh_name('p')), z3.Int(fresh_name('q')), z3.Int(fresh_name('j'))
	if kind in ('stable', 'mergesort'):
		rk = lambda x: LEXRANK(d.arr, n, x)
		st.assume(lexrank_axioms(d.arr, n))
		st.assume(z3.ForAll([j], z3.Implies(z3.And(0 <= j, j < n), z3.And(0 <= r.at(j), r.at(j) < n, rk(r.at(j)) == j)), patterns=[r.at(j)]))
		st.assume(z3.ForAll([j], z3.Implies(z3.And(0 <= j, j < n), r.at(rk(j)) == j), patterns=[rk(j)]))
	elif kind in (None, 'quicksort', 'heapsort'):
		inv = z3.Function(fresh_name('rank'), I, I)
		st.assume(z3.ForAll([j], z3.Implies(z3.And(0 <= j, j < n), z3.And(0 <= r.at(j), r.at(j) < n, inv(r.at(j)) == j))))
		st.assume(z3.ForAll([j], z3.Implies(z3.And(0 <= j, j < n), z3.And(0 <= inv(j), inv(j) < n, r.at(inv(j)) == j))))
		st.assume(z3.ForAll([p, q], z3.Implies(z3.And(0 <= p, p < q, q < n), z3.Select(d.arr, r.at(p)) <= z3.Select(d.arr, r.at(q)))))
	else:
		raise Unsupported(f'argsort kind {kind!r}')
	ref = Ref('ndarray')
	st.heap[ref.addr] = r
	yield st, ref


# ---- index arrays (C20) ----------------------------------------------------------------------------------------------------

@lib('numpy.empty')
def _empty(eng, st, args, kwargs, node):
	"""uninitialised array (contents arbitrary)"""
	n = args[0]
	dt = as_dtype(_kw(args, kwargs, 1, 'dtype', DType('f', 8)))
	if isinstance(n, tuple):
		raise Unsupported('numpy.empty with a shape tuple')
	nt = int_term(n)
	if dt.kind == 'f' and dt.itemsize != 4:
		raise Unsupported('float64 numpy.empty')
	for s2, ok in eng.branch(st, nt >= 0):
		if not ok:
			yield s2, Raised('ValueError')
			continue
		if dt.kind == 'f':
			r = Ref('ndarray')
			s2.heap[r.addr] = SSeq(TF32, z3.Const(fresh_name('emptyf'), z3.ArraySort(I, F32)), nt)
			yield s2, r
		else:
			yield s2, mk_ndarray(s2, 'empty', dt, length=nt)


@lib('numpy.asarray')
def _asarray(eng, st, args, kwargs, node):
	"""asarray of an ndarray is that array; of a list of Python ints an int64 array with the same values"""
	v = args[0]
	c = st.deref(v)
	if isinstance(c, SArr) and c.kind == 'ndarray':
		yield st, v
		return
	if isinstance(c, SSeq) and c.T is TInt:
		r = mk_ndarray(st, 'asarray', DType('i', 8), length=c.length, ref=False, constrain=False)
		j = z3.Int(fresh_name('j'))
		big = z3.Exists([j], z3.And(0 <= j, j < c.length, z3.Or(z3.Select(c.arr, j) < -(1 << 63), z3.Select(c.arr, j) >= (1 << 63))))
		for s2, ovf in eng.branch(st, big):
			if ovf:
				yield s2, Raised('OverflowError')    # (becomes uint64/object/float in NumPy; outside the modelled range)
				continue
			s2.assume(z3.ForAll([j], z3.Implies(z3.And(0 <= j, j < c.length), r.at(j) == z3.Select(c.arr, j))))
			ref = Ref('ndarray')
			s2.heap[ref.addr] = r
			yield s2, ref
		return
	raise Unsupported(f'asarray({c!r})')


@lib('__compare__')
def _nd_compare(eng, st, op, a, b, node):
	"""array < scalar: element-wise boolean array"""
	av = st.deref(a) if isinstance(a, Ref) else a
	if isinstance(av, SArr) and av.kind == 'ndarray' and is_intlike(b) and op in (ast.Lt, ast.LtE, ast.Gt, ast.GtE):
		r = mk_ndarray(st, 'cmp', DType('b', 1), length=av.length, ref=False)
		j = z3.Int(fresh_name('j'))
		bt = int_term(b)
		x = av.at(j)
		c = {ast.Lt: x < bt, ast.LtE: x <= bt, ast.Gt: x > bt, ast.GtE: x >= bt}[op]
		st.assume(z3.ForAll([j], z3.Implies(z3.And(0 <= j, j < av.length), r.at(j) == z3.If(c, 1, 0))))
		ref = Ref('ndarray')
		st.heap[ref.addr] = r
		return ref
	return None


@lib('method:any')
def _any(eng, st, obj, args, kwargs, node, site):
	a = st.deref(obj)
	if isinstance(a, SArr):
		j = z3.Int(fresh_name('j'))
		yield st, SBool(z3.Exists([j], z3.And(0 <= j, j < a.length, a.at(j) != 0)))
		return
	raise Unsupported(f'any() on {a!r}')


@lib('method:copy')
def _copy(eng, st, obj, args, kwargs, node, site):
	a = st.deref(obj)
	if isinstance(a, SArr) and isinstance(obj, Ref):
		r = Ref(obj.kind)
		st.heap[r.addr] = a       # contents are immutable values: a new cell with the same contents is a copy
		yield st, r
		return
	raise Unsupported(f'copy() on {a!r}')


_astype0 = LIB['method:astype']


@lib('numpy.add')
def _np_add(eng, st, args, kwargs, node):
	"""np.add(a, s, out=a, where=mask): a[j] += s where mask[j], computed in the OUTPUT dtype's fixed width (C wrap-around)"""
	a, s = args[0], args[1]
	out, where = kwargs.get('out'), kwargs.get('where')
	if not (isinstance(a, Ref) and out is a and where is not None):
		raise Unsupported('numpy.add other than the in-place masked form')
	av, mv = st.heap[a.addr], st.deref(where)
	ct = av.elem
	bits = ct.bits
	sv = int_term(s)
	r = SArr(z3.Const(fresh_name('added'), IntArr), av.length, 0, av.elem, 'ndarray')
	j = z3.Int(fresh_name('j'))

	def wrap(x):
		m = x % (1 << bits)
		return z3.If(m >= (1 << (bits - 1)), m - (1 << bits), m) if ct.signed else m
	st.assume(z3.ForAll([j], z3.Implies(z3.And(0 <= j, j < av.length),
		r.at(j) == z3.If(mv.at(j) != 0, wrap(av.at(j) + sv), av.at(j)))))
	st.heap[a.addr] = r
	yield st, a


_np_add.writes = ('out',)


@lib('numpy.arange')
def _arange(eng, st, args, kwargs, node):
	if len(args) != 3:
		raise Unsupported('arange with other than (start, stop, step)')
	start, stop, step = [int_term(x) for x in args]
	cnt = z3.If(step > 0, z3.If(stop > start, (stop - start + step - 1) / step, 0), z3.If(start > stop, (start - stop + (-step) - 1) / (-step), 0))
	r = mk_ndarray(st, 'arange', DType('i', 8), length=None, ref=False, constrain=False)
	j = z3.Int(fresh_name('j'))
	st.assume(r.length == cnt)
	st.assume(z3.ForAll([j], z3.Implies(z3.And(0 <= j, j < r.length), r.at(j) == start + j * step)))
	ref = Ref('ndarray')
	st.heap[ref.addr] = r
	yield st, ref


@lib('method:indices')
def _slice_indices(eng, st, obj, args, kwargs, node, site):
	"""slice.indices(n): CPython's PySlice_AdjustIndices"""
	if not isinstance(obj, SSlice):
		raise Unsupported(f'indices on {obj!r}')
	n = int_term(args[0])
	step = z3.IntVal(1) if obj.step is None else int_term(obj.step)
	neg = step < 0

	def adj(v, dflt_pos, dflt_neg):
		if v is None:
			return z3.If(neg, dflt_neg, dflt_pos)
		t = int_term(v)
		t = z3.If(t < 0, t + n, t)
		return z3.If(neg, z3.If(t < -1, -1, z3.If(t > n - 1, n - 1, t)), z3.If(t < 0, 0, z3.If(t > n, n, t)))
	start = adj(obj.start, z3.IntVal(0), n - 1)
	stop = adj(obj.stop, n, z3.IntVal(-1))
	# a negative default for stop must not be re-adjusted: handled above (None case)
	if obj.stop is not None:
		t = int_term(obj.stop)
		t2 = z3.If(t < 0, t + n, t)
		stop = z3.If(neg, z3.If(t2 < -1, -1, z3.If(t2 > n - 1, n - 1, t2)), z3.If(t2 < 0, 0, z3.If(t2 > n, n, t2)))
	for s2, zero in eng.branch(st, step == 0):
		if zero:
			yield s2, Raised('ValueError')
		else:
			yield s2, (SInt(z3.simplify(start)), SInt(z3.simplify(stop)), SInt(step))



class F32Arr(TypeSpec):
	"""1-d float32 ndarray parameter"""

	def make(self, name, st, eng):
		r = Ref('ndarray')
		v = SSeq(TF32, z3.Const(fresh_name(name), z3.ArraySort(I, F32)), z3.Int(fresh_name(name + '_len')))
		st.assume(v.length >= 0)
		st.heap[r.addr] = v
		return r
