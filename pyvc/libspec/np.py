"""Assumed contracts of the NumPy calls that verified functions make.

Arrays: a 1-d integer ndarray is an SArr (kind 'ndarray') whose elem CType mirrors the dtype.
dtypes are concrete DType objects; functions are verified once per dtype instance."""
import ast
import z3
from ..values import *
from ..ops import *
from ..interp import *
from .core import lib, LIB


class DType:
	def __init__(self, kind, itemsize):
		self.kind, self.itemsize = kind, itemsize

	@property
	def str(self):
		return f'<{self.kind}{self.itemsize}'

	def __eq__(self, other):
		return isinstance(other, DType) and (self.kind, self.itemsize) == (other.kind, other.itemsize)

	def __hash__(self):
		return hash((self.kind, self.itemsize))

	def __repr__(self):
		return f'dtype({self.kind}{self.itemsize})'

	@property
	def ctype(self):
		return DT2C[(self.kind, self.itemsize)]


DT2C = {('u', 1): CTYPES['uint8_t'], ('u', 2): CTYPES['uint16_t'], ('u', 4): CTYPES['uint32_t'], ('u', 8): CTYPES['uint64_t'],
        ('i', 1): CType('int8_t', True, 8), ('i', 2): CTYPES['int16_t'], ('i', 4): CTYPES['int32_t'], ('i', 8): CTYPES['int64_t'],
        ('f', 4): CTYPES['float'], ('f', 8): CTYPES['double'], ('b', 1): CType('npy_bool', False, 8)}
DT2C[('b', 1)].hi = 1
C2DT = {}
for _k, _v in DT2C.items():
	C2DT[_v.name] = DType(*_k)
C2DT['intptr_t'] = DType('i', 8)
C2DT['Py_ssize_t'] = DType('i', 8)
C2DT['unsigned char'] = DType('u', 1)

NP_SCALAR = {'numpy.float32': DType('f', 4), 'numpy.float64': DType('f', 8), 'numpy.intp': DType('i', 8),
             'numpy.bool_': DType('b', 1), 'builtins.bool': DType('b', 1), 'builtins.int': DType('i', 8),
             'builtins.float': DType('f', 8), 'numpy.uint8': DType('u', 1), 'numpy.uint16': DType('u', 2),
             'numpy.uint32': DType('u', 4), 'numpy.uint64': DType('u', 8), 'numpy.int64': DType('i', 8)}


def as_dtype(v):
	if isinstance(v, DType):
		return v
	if isinstance(v, str):
		s = v.lstrip('<>=|')
		if s in ('bool',):
			return DType('b', 1)
		if s in ('int', 'intp'):
			return DType('i', 8)
		return DType(s[0], int(s[1:]))
	if isinstance(v, ExtRef) and v.qualname in NP_SCALAR:
		return NP_SCALAR[v.qualname]
	raise Unsupported(f'dtype({v!r})')


def dtype_of(arr):
	if arr.elem is None:
		raise Unsupported('ndarray without dtype')
	return C2DT[arr.elem.name]


def mk_ndarray(st, name, dt, length=None, ref=True, constrain=True):
	ct = dt.ctype
	v = SArr(z3.Const(fresh_name(name), IntArr), z3.Int(fresh_name(name + '_len')) if length is None else length, 0, ct, 'ndarray')
	if length is None:
		st.assume(v.length >= 0)
	if constrain and ct.kind == 'int':
		j = z3.Int(fresh_name('j'))
		st.assume(z3.ForAll([j], z3.And(z3.Select(v.arr, j) >= ct.lo, z3.Select(v.arr, j) <= ct.hi)))
	if ref:
		r = Ref('ndarray')
		st.heap[r.addr] = v
		return r
	return v


class NdArr(TypeSpec):
	"""1-d ndarray parameter of a fixed dtype."""

	def __init__(self, dt):
		self.dt = as_dtype(dt)

	def make(self, name, st, eng):
		return mk_ndarray(st, name, self.dt)

	@property
	def desc(self):
		return TArr(self.dt.ctype, 'ndarray')


@lib('numpy.dtype')
def _dtype(eng, st, args, kwargs, node):
	yield st, as_dtype(args[0])


@lib('attr:ndarray')
def _nd_attr(eng, st, obj, attr, node):
	c = st.heap[obj.addr]
	if attr == 'dtype':
		return iter([(st, dtype_of(c))])
	if attr == 'shape':
		return iter([(st, (SInt(c.length),))])
	if attr == 'ndim':
		return iter([(st, 1)])
	if attr == 'size':
		return iter([(st, SInt(c.length))])
	return None


@lib('attr:DType')
def _dt_attr(eng, st, obj, attr, node):
	if attr in ('kind', 'itemsize', 'str'):
		return iter([(st, getattr(obj, attr))])
	if attr == 'type':
		return iter([(st, ExtObj('nptype', dt=obj))])
	return None


@lib('method:view')
def _view(eng, st, obj, args, kwargs, node, site):
	c = st.deref(obj)
	if not (isinstance(c, SArr) and c.kind == 'ndarray'):
		raise Unsupported('view() of a non-array')
	new = as_dtype(args[0])
	old = dtype_of(c)
	if new.itemsize != old.itemsize or new.kind not in 'ui' or old.kind not in 'ui':
		raise Unsupported(f'view from {old} to {new}')
	if new == old:
		yield st, obj
		return
	bits = 8 * new.itemsize
	# two's-complement reinterpretation, element by element; the result shares memory with the
	# original (writes through the view are not modelled: the verified code only reads it)
	nv = SArr(z3.Const(fresh_name('view'), IntArr), c.length, c.off, new.ctype, 'ndarray')
	j = z3.Int(fresh_name('j'))
	if new.kind == 'u':
		st.assume(z3.ForAll([j], z3.Select(nv.arr, j) == z3.If(z3.Select(c.arr, j) < 0, z3.Select(c.arr, j) + (1 << bits), z3.Select(c.arr, j))))
	else:
		st.assume(z3.ForAll([j], z3.Select(nv.arr, j) == z3.If(z3.Select(c.arr, j) >= (1 << (bits - 1)), z3.Select(c.arr, j) - (1 << bits), z3.Select(c.arr, j))))
	r = Ref('ndarray')
	st.heap[r.addr] = nv
	yield st, r
