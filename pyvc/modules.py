"""Loading of the real source: Python modules through ast, Cython modules through cyfront."""
import ast
from pathlib import Path
from .cyfront import CyModule
from .ops import Unsupported


class FuncRef:
	def __init__(self, qualname):
		self.qualname = qualname

	def __repr__(self):
		return f'FuncRef({self.qualname})'


class ClassRef:
	def __init__(self, qualname):
		self.qualname = qualname

	def __repr__(self):
		return f'ClassRef({self.qualname})'


class ModRef:
	def __init__(self, qualname):
		self.qualname = qualname

	def __repr__(self):
		return f'ModRef({self.qualname})'


class ExtRef:
	"""Something outside the repository (library function, class, constant)."""

	def __init__(self, qualname):
		self.qualname = qualname

	def __repr__(self):
		return f'ExtRef({self.qualname})'


class FuncInfo:
	def __init__(self, qualname, node, module, cls=None):
		self.qualname, self.node, self.module, self.cls = qualname, node, module, cls
		self.cython = module.cython

	@property
	def params(self):
		a = self.node.args
		return [x.arg for x in a.posonlyargs + a.args] + [x.arg for x in a.kwonlyargs]

	@property
	def is_generator(self):
		for n in ast.walk(self.node):
			if isinstance(n, (ast.Yield, ast.YieldFrom)):
				return True
		return False


class ModuleInfo:
	def __init__(self, repo, qualname):
		self.repo, self.qualname = repo, qualname
		base = Path(repo.root) / 'src' / Path(*qualname.split('.'))
		self.cython = False
		self.cymod = None
		if base.with_suffix('.py').exists():
			self.path = base.with_suffix('.py')
			self.is_pkg = False
		elif (base / '__init__.py').exists():
			self.path = base / '__init__.py'
			self.is_pkg = True
		elif base.with_suffix('.pyx').exists():
			self.path = base.with_suffix('.pyx')
			self.cython = True
			self.is_pkg = False
		else:
			raise Unsupported(f'module {qualname} not found under {repo.root}/src')
		if self.cython:
			self.cymod = CyModule(self.path)
			self.tree = self.cymod.tree
		else:
			self.tree = ast.parse(self.path.read_text(), filename=str(self.path))
		self.functions, self.classes, self.imports, self.consts, self.const_nodes = {}, {}, {}, {}, {}
		self._scan()

	def _pkg(self):
		return self.qualname if self.is_pkg else self.qualname.rsplit('.', 1)[0]

	def _scan(self):
		for n in self.tree.body:
			if isinstance(n, ast.FunctionDef):
				self.functions[n.name] = n   # later definitions win (overloads)
			elif isinstance(n, ast.ClassDef):
				self.classes[n.name] = n
			elif isinstance(n, ast.Import):
				for a in n.names:
					if a.asname:
						self.imports[a.asname] = a.name
					else:
						self.imports[a.name.split('.')[0]] = a.name.split('.')[0]
			elif isinstance(n, ast.ImportFrom):
				mod = n.module or ''
				if n.level:
					pk = self._pkg().split('.')
					pk = pk[:len(pk) - (n.level - 1)]
					mod = '.'.join(pk + ([mod] if mod else []))
				for a in n.names:
					self.imports[a.asname or a.name] = f'{mod}.{a.name}'
			elif isinstance(n, ast.Assign) and len(n.targets) == 1 and isinstance(n.targets[0], ast.Name):
				self.const_nodes[n.targets[0].id] = n.value
			elif isinstance(n, ast.AnnAssign) and isinstance(n.target, ast.Name) and n.value is not None:
				self.const_nodes[n.target.id] = n.value

	def const(self, name):
		"""Value of a module-level constant, for the small class of expressions that is evaluated."""
		if name in self.consts:
			return self.consts[name]
		node = self.const_nodes[name]
		v = self._const_eval(node)
		self.consts[name] = v
		return v

	def _const_eval(self, node):
		try:
			return ast.literal_eval(node)
		except Exception:
			pass
		if isinstance(node, ast.Call) and isinstance(node.func, ast.Attribute) and not node.args \
				and node.func.attr in ('lower', 'upper'):
			return getattr(self._const_eval(node.func.value), node.func.attr)()
		if isinstance(node, ast.Name) and node.id in self.const_nodes:
			return self.const(node.id)
		if isinstance(node, ast.Tuple):
			return tuple(self._const_eval(e) for e in node.elts)
		if isinstance(node, ast.List):
			return [self._const_eval(e) for e in node.elts]
		raise Unsupported(f'module constant {self.qualname}: {ast.unparse(node)}')


class Repo:
	def __init__(self, root='/repo'):
		self.root = str(root)
		self._mods = {}

	def module(self, qualname):
		if qualname not in self._mods:
			self._mods[qualname] = ModuleInfo(self, qualname)
		return self._mods[qualname]

	def is_module(self, qualname):
		base = Path(self.root) / 'src' / Path(*qualname.split('.'))
		return base.with_suffix('.py').exists() or (base / '__init__.py').exists() or base.with_suffix('.pyx').exists()

	def resolve(self, qualname, _depth=0):
		"""Resolve a dotted name to FuncRef / ClassRef / ModRef / constant value / ExtRef."""
		if _depth > 10:
			raise Unsupported(f'import cycle resolving {qualname}')
		if not qualname.startswith('gambit'):
			return ExtRef(qualname)
		if self.is_module(qualname):
			return ModRef(qualname)
		if '.' not in qualname:
			return ExtRef(qualname)
		modname, attr = qualname.rsplit('.', 1)
		if not self.is_module(modname):
			# Class.method
			parent = self.resolve(modname, _depth + 1)
			if isinstance(parent, ClassRef):
				return FuncRef(qualname)
			raise Unsupported(f'cannot resolve {qualname}')
		mod = self.module(modname)
		if attr in mod.functions:
			return FuncRef(qualname)
		if attr in mod.classes:
			return ClassRef(qualname)
		if attr in mod.imports:
			return self.resolve(mod.imports[attr], _depth + 1)
		if attr in mod.const_nodes:
			try:
				return mod.const(attr)
			except Unsupported:
				return ExtRef(qualname)
		raise Unsupported(f'cannot resolve {qualname}')

	def funcinfo(self, qualname):
		parts = qualname.split('.')
		# module.func
		modname = '.'.join(parts[:-1])
		if self.is_module(modname):
			mod = self.module(modname)
			if parts[-1] not in mod.functions:
				raise Unsupported(f'function {qualname} not found in {mod.path}')
			return FuncInfo(qualname, mod.functions[parts[-1]], mod)
		modname = '.'.join(parts[:-2])
		if self.is_module(modname):
			mod = self.module(modname)
			cls = mod.classes.get(parts[-2])
			if cls is not None:
				for n in cls.body:
					if isinstance(n, ast.FunctionDef) and n.name == parts[-1]:
						return FuncInfo(qualname, n, mod, cls=cls)
				# inherited: search bases
				for b in cls.bases:
					bn = ast.unparse(b)
					try:
						r = self.resolve(f'{modname}.{bn}') if bn in mod.classes or bn in mod.imports else None
					except Unsupported:
						r = None
					if isinstance(r, ClassRef):
						try:
							return self.funcinfo(f'{r.qualname}.{parts[-1]}')
						except Unsupported:
							pass
		raise Unsupported(f'function {qualname} not found')

	def classinfo(self, qualname):
		modname, cname = qualname.rsplit('.', 1)
		mod = self.module(modname)
		if cname in mod.classes:
			return mod, mod.classes[cname]
		raise Unsupported(f'class {qualname} not found')
