"""Counter-model -> concrete Python inputs."""
import z3
from .values import *
from .interp import Ptr, SDict

MAXLEN = 200


class NoConcrete(Exception):
	pass


def _int(model, t):
	v = model.eval(t, model_completion=True)
	if z3.is_int_value(v):
		return v.as_long()
	raise NoConcrete(f'no integer value for {t}')


def concretize(model, v, heap):
	if isinstance(v, Ref):
		return concretize(model, heap[v.addr], heap)
	if isinstance(v, Ptr):
		return concretize(model, heap[v.ref.addr], heap)
	if isinstance(v, SInt):
		return _int(model, v.term)
	if isinstance(v, SBool):
		return z3.is_true(model.eval(v.term, model_completion=True))
	if isinstance(v, SArr):
		n = _int(model, v.length)
		if n < 0 or n > MAXLEN:
			raise NoConcrete(f'array length {n} in the model')
		off = _int(model, v.off)
		return [_int(model, z3.Select(v.arr, off + j)) for j in range(n)]
	if isinstance(v, SSeq):
		n = _int(model, v.length)
		if n < 0 or n > MAXLEN:
			raise NoConcrete(f'sequence length {n} in the model')
		return [concretize(model, v.at(z3.IntVal(j)), heap) for j in range(n)]
	if isinstance(v, SStr):
		s = model.eval(v.term, model_completion=True)
		return s.as_string()
	if isinstance(v, SReal):
		r = model.eval(v.term, model_completion=True)
		return float(r.as_fraction()) if z3.is_rational_value(r) else float(r.approx(20).as_fraction())
	if isinstance(v, Record):
		return {k: concretize(model, x, heap) for k, x in v.fields.items()}
	if isinstance(v, (int, str, bool, float, bytes, type(None))):
		return v
	if isinstance(v, (tuple, list)):
		return [concretize(model, x, heap) for x in v]
	raise NoConcrete(f'cannot concretise {v!r}')


def entry_inputs(model, ob):
	"""dict param -> concrete value at function entry, for an obligation of a verified function."""
	if ob is None or ob.entry is None or model is None:
		return None
	env, heap, label = ob.entry
	out = {}
	for k, v in env.items():
		try:
			out[k] = concretize(model, v, heap)
		except NoConcrete as e:
			out[k] = {'__unavailable__': str(e)}
	return out
