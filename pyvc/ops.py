"""Operator semantics shared by the code interpreter and the specification evaluator."""
import ast
import z3
from .values import *


class Unsupported(Exception):
	"""The construct is outside the verified subset: the run stops (exit 3), never guesses."""


def lit_to_c(v):
	"""Cython char-literal coercion: a one-character str/bytes constant used as a C integer."""
	if isinstance(v, str) and len(v) == 1:
		return ord(v)
	if isinstance(v, bytes) and len(v) == 1:
		return v[0]
	return v


def is_intlike(v):
	return isinstance(v, (int, SInt, SBool)) and not isinstance(v, float)


def int_term(v):
	if isinstance(v, bool):
		return z3.IntVal(int(v))
	if isinstance(v, int):
		return z3.IntVal(v)
	if isinstance(v, SInt):
		return v.term
	if isinstance(v, SBool):
		return z3.If(v.term, z3.IntVal(1), z3.IntVal(0))
	if z3.is_expr(v) and z3.is_int(v):
		return v
	raise Unsupported(f'not an integer: {v!r}')


def real_term(v):
	if isinstance(v, (bool, int)):
		return z3.RealVal(int(v))
	if isinstance(v, float):
		if v == float('inf'):
			raise Unsupported('infinity as a real term')
		return z3.RealVal(repr(v))
	if isinstance(v, SReal):
		return v.term
	if isinstance(v, SInt):
		return z3.ToReal(v.term)
	raise Unsupported(f'not a real: {v!r}')


def ctype_of(v):
	return v.ctype if isinstance(v, SInt) else None


def bool_term(v):
	if isinstance(v, bool):
		return z3.BoolVal(v)
	if isinstance(v, SBool):
		return v.term
	if z3.is_expr(v) and z3.is_bool(v):
		return v
	raise Unsupported(f'not a boolean: {v!r}')


def truth(v):
	"""Python truthiness -> bool or z3 Bool."""
	if isinstance(v, SBool):
		return v.term
	if isinstance(v, SInt):
		return v.term != 0
	if isinstance(v, SReal):
		return v.term != 0
	if isinstance(v, (SArr, SSeq)):
		return v.length != 0
	if isinstance(v, SStr):
		return z3.Length(v.term) != 0
	if isinstance(v, SObj):
		return v.term != v.T.none
	if isinstance(v, SOpt):
		inner = v.value()
		return z3.And(z3.Not(v.is_none()), bool_term(truth(inner)))   # None is falsy, so is 0 / 0.0 / ""
	if isinstance(v, SV):
		raise Unsupported(f'truthiness of {v!r}')
	if z3.is_expr(v):
		return v
	if isinstance(v, Ref):
		raise Unsupported('truthiness of a heap object must be resolved by the interpreter')
	return bool(v)


def simp(t):
	if z3.is_expr(t):
		t = z3.simplify(t)
		if z3.is_true(t):
			return True
		if z3.is_false(t):
			return False
	return t


def mk_and(*ts):
	out = []
	for t in ts:
		if t is True:
			continue
		if t is False:
			return False
		out.append(bool_term(t))
	if not out:
		return True
	return out[0] if len(out) == 1 else z3.And(*out)


def mk_or(*ts):
	out = []
	for t in ts:
		if t is False:
			continue
		if t is True:
			return True
		out.append(bool_term(t))
	if not out:
		return False
	return out[0] if len(out) == 1 else z3.Or(*out)


def mk_not(t):
	if isinstance(t, bool):
		return not t
	return z3.Not(bool_term(t))


def mk_implies(a, b):
	if a is True:
		return b
	if a is False or b is True:
		return True
	if b is False:
		return mk_not(a)
	return z3.Implies(bool_term(a), bool_term(b))


def wrap_bool(t):
	return t if isinstance(t, bool) else SBool(t)


def _and_const(x, c, bits):
	"""x & c for 0 <= x < 2^bits, expanded arithmetically."""
	c &= (1 << bits) - 1
	clear = [b for b in range(bits) if not (c >> b) & 1]
	setb = [b for b in range(bits) if (c >> b) & 1]
	if len(clear) <= len(setb):
		r = x
		for b in clear:
			r = r - (1 << b) * ((x / (1 << b)) % 2)
		return r
	r = z3.IntVal(0)
	for b in setb:
		r = r + (1 << b) * ((x / (1 << b)) % 2)
	return r


def binop(op, a, b, cmode=False):
	"""Returns (value, obligations) where obligations is a list of (kind, goal)."""
	obl = []
	if cmode:
		a, b = lit_to_c(a), lit_to_c(b)
	# concrete
	if not isinstance(a, (SV, Ref)) and not isinstance(b, (SV, Ref)):
		import operator as _o
		table = {ast.Add: _o.add, ast.Sub: _o.sub, ast.Mult: _o.mul, ast.FloorDiv: _o.floordiv,
		         ast.Mod: _o.mod, ast.Pow: _o.pow, ast.LShift: _o.lshift, ast.RShift: _o.rshift,
		         ast.BitAnd: _o.and_, ast.BitOr: _o.or_, ast.BitXor: _o.xor, ast.Div: _o.truediv}
		if isinstance(a, (int, float, str, bytes, tuple, list)) and isinstance(b, (int, float, str, bytes, tuple, list)):
			if cmode and op is ast.Div and isinstance(a, int) and isinstance(b, int):
				raise Unsupported('C integer division of constants')
			return table[op](a, b), obl
		if op is ast.Add and (type(a).__name__ == 'OpaqueStr' or type(b).__name__ == 'OpaqueStr') and isinstance(a if type(b).__name__ == 'OpaqueStr' else b, (str,)) | (type(a).__name__ == type(b).__name__):
			return (a if type(a).__name__ == 'OpaqueStr' else b), obl     # an error text stays an irrelevant error text
		raise Unsupported(f'binary operator on {a!r}, {b!r}')
	# binary32
	if isinstance(a, SF32) or isinstance(b, SF32):
		def f32(v):
			if isinstance(v, SF32):
				return v.term
			return i2f(int_term(v))
		if op is ast.Div:
			return SF32(fdiv(f32(a), f32(b))), obl
		if op is ast.Sub:
			return SF32(fsub(f32(a), f32(b))), obl
		raise Unsupported('binary32 operator other than / and -')
	# integers
	if is_intlike(a) and is_intlike(b):
		x, y = int_term(a), int_term(b)
		ta, tb = ctype_of(a), ctype_of(b)
		rt = c_common(ta, tb) if cmode else None
		if cmode and rt is not None and rt.kind == 'int':
			# operands are converted to rt: the conversion must preserve the value
			for v, t in ((x, ta), (y, tb)):
				if t is not None and t.kind == 'int' and t.signed and not rt.signed:
					obl.append(('conversion-preserves-value', v >= 0))
		if op is ast.Add:
			r = x + y
		elif op is ast.Sub:
			r = x - y
		elif op is ast.Mult:
			r = x * y
		elif op is ast.FloorDiv:
			if cmode:
				raise Unsupported('C integer division')
			obl.append(('ZeroDivisionError', y != 0))
			r = x / y   # z3 Int division is floor division for positive divisors
			if not (z3.is_int_value(y) and y.as_long() > 0):
				obl.append(('divisor-positive(engine limit)', y > 0))
		elif op is ast.Mod:
			if not (z3.is_int_value(y) and y.as_long() > 0):
				obl.append(('modulus-positive(engine limit)', y > 0))
			if cmode:
				obl.append(('dividend-nonnegative', x >= 0))
			r = x % y
		elif op is ast.LShift:
			if not z3.is_int_value(y):
				raise Unsupported('shift by a non-constant')
			r = x * (1 << y.as_long())
		elif op is ast.RShift:
			if not z3.is_int_value(y):
				raise Unsupported('shift by a non-constant')
			if cmode:
				obl.append(('shift-operand-nonnegative', x >= 0))
			r = x / (1 << y.as_long())
		elif op is ast.BitAnd:
			if z3.is_int_value(y) and (ta or tb):
				bits = (ta or tb).bits if (ta or tb).kind == 'int' else 32
				obl.append(('bitand-operand-nonnegative', x >= 0))
				r = _and_const(x, y.as_long(), bits)
			elif z3.is_int_value(x) and tb:
				obl.append(('bitand-operand-nonnegative', y >= 0))
				r = _and_const(y, x.as_long(), tb.bits)
			else:
				raise Unsupported('& of two symbolic integers')
		elif op is ast.Pow:
			if z3.is_int_value(x) and x.as_long() == 4:
				from .spec import pow4
				r = pow4(y)
			elif z3.is_int_value(y) and y.as_long() == 2:
				r = x * x
			else:
				raise Unsupported('** with symbolic operands other than 4**k')
		elif op is ast.Div:
			if cmode:
				raise Unsupported('C integer division')
			return SReal(z3.ToReal(x) / z3.ToReal(y)), obl + [('ZeroDivisionError', y != 0)]
		else:
			raise Unsupported(f'integer operator {op.__name__}')
		if cmode and rt is not None and rt.kind == 'int' and op in (ast.Add, ast.Sub, ast.Mult, ast.LShift):
			obl.append(('no-overflow[' + rt.name + ']', z3.And(r >= rt.lo, r <= rt.hi)))
		return SInt(r, rt), obl
	# reals
	if isinstance(a, (SReal, float)) or isinstance(b, (SReal, float)):
		x, y = real_term(a), real_term(b)
		if op is ast.Add:
			return SReal(x + y), obl
		if op is ast.Sub:
			return SReal(x - y), obl
		if op is ast.Mult:
			return SReal(x * y), obl
		if op is ast.Div:
			return SReal(x / y), obl + [('ZeroDivisionError', y != 0)]
		raise Unsupported(f'real operator {op.__name__}')
	# strings
	if isinstance(a, (SStr, str)) and isinstance(b, (SStr, str)) and op is ast.Add:
		return SStr(z3.Concat(to_term(a), to_term(b))), obl
	raise Unsupported(f'binary operator {op.__name__} on {a!r}, {b!r}')


def values_equal(a, b):
	"""a == b as bool / z3 Bool."""
	if a is None or b is None:
		return is_none(b if a is None else a)
	if isinstance(a, SF32) and isinstance(b, SF32):
		return a.term == b.term
	if isinstance(a, (SF32,)) or isinstance(b, (SF32,)):
		x = a.term if isinstance(a, SF32) else i2f(int_term(a))
		y = b.term if isinstance(b, SF32) else i2f(int_term(b))
		return x == y
	if is_intlike(a) and is_intlike(b):
		if not is_sym(a) and not is_sym(b):
			return a == b
		return int_term(a) == int_term(b)
	if isinstance(a, (SReal, float, SInt, int)) and isinstance(b, (SReal, float, SInt, int)):
		return real_term(a) == real_term(b)
	if isinstance(a, (SStr, str)) and isinstance(b, (SStr, str)):
		if not is_sym(a) and not is_sym(b):
			return a == b
		return to_term(a) == to_term(b)
	if isinstance(a, SObj) and isinstance(b, SObj):
		return a.term == b.term
	if isinstance(a, SOpt) and isinstance(b, SOpt) and a.T is not b.T:
		return z3.And(a.is_none(), b.is_none())      # optionals of different types are equal only when both are None
	if isinstance(a, SOpt) or isinstance(b, SOpt):
		T = (a if isinstance(a, SOpt) else b).T
		other = b if isinstance(a, SOpt) else a
		if not isinstance(other, SOpt) and other is not None:
			try:
				T.T.unwrap(other)
			except Exception:
				return False
			if isinstance(other, SV) and hasattr(other, 'term') and other.term.sort() != T.T.sort:
				return False
		return T.unwrap(a) == T.unwrap(b)
	if isinstance(a, SArr) and isinstance(b, (bytes, bytearray)):
		conj = [a.length == len(b)] + [a.at(i) == b[i] for i in range(len(b))]
		return z3.And(*conj)
	if isinstance(b, SArr) and isinstance(a, (bytes, bytearray)):
		return values_equal(b, a)
	if isinstance(a, Ref) and isinstance(b, Ref):
		return a.addr == b.addr
	if isinstance(a, (tuple, list)) and isinstance(b, (tuple, list)):
		if len(a) != len(b):
			return False
		return mk_and(*[values_equal(x, y) for x, y in zip(a, b)])
	if not is_sym(a) and not is_sym(b) and not isinstance(a, Ref) and not isinstance(b, Ref):
		return a == b
	if (isinstance(a, (SStr, str)) and is_intlike(b)) or (isinstance(b, (SStr, str)) and is_intlike(a)):
		return False
	raise Unsupported(f'== on {a!r}, {b!r}')


def is_none(v):
	if v is None:
		return True
	if isinstance(v, SObj):
		return v.term == v.T.none
	if isinstance(v, SOpt):
		return v.is_none()
	if isinstance(v, SMaybe):
		return v.none
	return False


def compare(op, a, b, cmode=False):
	"""Returns (bool | z3 Bool, obligations)."""
	obl = []
	if cmode:
		a, b = lit_to_c(a), lit_to_c(b)
	if op in (ast.Is, ast.IsNot):
		if a is None or b is None:
			r = is_none(b if a is None else a)
		elif isinstance(a, Ref) and isinstance(b, Ref):
			r = a.addr == b.addr
		elif isinstance(a, SObj) and isinstance(b, SObj):
			r = a.term == b.term
		elif isinstance(a, (bool, SBool)) and isinstance(b, (bool, SBool)):
			r = values_equal(a, b)
		elif not is_sym(a) and not is_sym(b) and not isinstance(a, Ref) and not isinstance(b, Ref):
			r = a is b
		elif isinstance(a, Ref) != isinstance(b, Ref):
			r = False
		else:
			raise Unsupported(f'is on {a!r}, {b!r}')
		return (r if op is ast.Is else mk_not(r)), obl
	if op in (ast.Eq, ast.NotEq):
		r = values_equal(a, b)
		return (r if op is ast.Eq else mk_not(r)), obl
	if op in (ast.Lt, ast.LtE, ast.Gt, ast.GtE):
		if isinstance(a, SOpt) or isinstance(b, SOpt):
			raise Unsupported('ordering comparison on an optional value (would raise TypeError for None)')
		if is_intlike(a) and is_intlike(b):
			if not is_sym(a) and not is_sym(b):
				x, y = a, b
			else:
				x, y = int_term(a), int_term(b)
				if cmode:
					ta, tb = ctype_of(a), ctype_of(b)
					rt = c_common(ta, tb)
					if rt is not None and rt.kind == 'int' and not rt.signed:
						for v, t in ((x, ta), (y, tb)):
							if t is not None and t.kind == 'int' and t.signed:
								obl.append(('comparison-conversion-preserves-value', v >= 0))
		elif isinstance(a, (SStr, str)) and isinstance(b, (SStr, str)):
			raise Unsupported('string ordering')
		else:
			x, y = real_term(a), real_term(b)
		if op is ast.Lt:
			return x < y, obl
		if op is ast.LtE:
			return x <= y, obl
		if op is ast.Gt:
			return x > y, obl
		return x >= y, obl
	raise Unsupported(f'comparison {op.__name__}')


def contains(item, container, cmode=False):
	"""item in container -> bool | z3 Bool"""
	if cmode:
		item = lit_to_c(item)
	if isinstance(container, (bytes, bytearray)):
		if isinstance(item, int) and not isinstance(item, bool):
			return item in container
		if isinstance(item, SInt):
			return mk_or(*[item.term == c for c in sorted(set(container))])
		raise Unsupported('bytes containment of a non-integer')
	if isinstance(container, str):
		if isinstance(item, str):
			return item in container
		if isinstance(item, SStr):
			return z3.Contains(z3.StringVal(container), item.term)
	if isinstance(container, SStr):
		return z3.Contains(container.term, to_term(item))
	if isinstance(container, (tuple, list, frozenset, set)):
		return mk_or(*[values_equal(item, c) for c in container])
	if isinstance(container, SSet):
		return container.has(int_term(item))
	if isinstance(container, SSetT):
		return container.has(item)
	if isinstance(container, EmptySet):
		return False
	if isinstance(container, SSeq):
		j = z3.Int(fresh_name('j'))
		return z3.Exists([j], z3.And(j >= 0, j < container.length, bool_term(values_equal(container.at(j), item))))
	if isinstance(container, SArr):
		j = z3.Int(fresh_name('j'))
		return z3.Exists([j], z3.And(j >= 0, j < container.length, container.at(j) == int_term(item)))
	raise Unsupported(f'in on {container!r}')
