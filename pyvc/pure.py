"""Evaluator for specification clauses (requires / ensures / invariants).

Clauses are Python expressions (strings) or callables taking the evaluator.  Evaluation is pure:
no forking, no obligations; `and`/`or`/`not`/conditional expressions become z3 connectives;
quantifiers are written forall(j, range_condition, body) / exists(j, range_condition, body)."""
import ast
import z3
from .values import *
from .ops import *
from . import spec as SPEC


class SpecFalse(Exception):
	"""a clause that refers to something that does not exist (e.g. a missing dict key) does not hold"""


class PureEval:
	def __init__(self, eng, st, entry=False, extra=None, env_override=None, old_heap=None):
		self.eng, self.st = eng, st
		self.extra = dict(extra or {})
		if env_override is not None:
			self.env = env_override
			self.old_env = env_override
		else:
			self.env = st.entry_env if entry else st.env
			self.old_env = st.entry_env
		self.heap = st.entry_heap if entry else st.heap
		self.old_heap = old_heap if old_heap is not None else st.entry_heap
		self.bound = {}
		self.in_old = False

	# -- public
	def eval_clause(self, c):
		if callable(c):
			return c(self)
		return self.eval_str(c)

	def eval_str(self, s):
		try:
			node = ast.parse(s.strip(), mode='eval').body
		except SyntaxError as e:
			raise Unsupported(f'contract clause does not parse: {s!r}: {e}')
		try:
			return self.ev(node)
		except SpecFalse:
			return False
		except Unsupported as e:
			raise Unsupported(f'in clause {s!r}: {e}')
		except (AttributeError, TypeError, KeyError, IndexError, z3.Z3Exception) as e:
			# the clause's vocabulary does not apply to the values the (changed) code produced here: undecided, not a crash
			raise Unsupported(f'in clause {s!r}: cannot be evaluated on these values ({type(e).__name__}: {e})')

	def get(self, name):
		"""Value of a name (dereferenced)."""
		return self.deref(self.lookup(name))

	def deref(self, v):
		if isinstance(v, Ref):
			if self.in_old and v.addr in self.old_heap:
				return self.old_heap[v.addr]
			return self.heap[v.addr]   # objects created after entry have no old state
		return v

	def lookup(self, name):
		if name in self.bound:
			return self.bound[name]
		if name in self.extra:
			return self.extra[name]
		env = self.old_env if self.in_old else self.env
		if name in env:
			return env[name]
		if name in self.st.ghosts:
			return self.st.ghosts[name]
		ns = self.eng.specns
		if name in ns:
			return ns[name]
		if name in ('True', 'False', 'None'):
			return {'True': True, 'False': False, 'None': None}[name]
		raise Unsupported(f'unknown name {name} in specification')

	# -- evaluation
	def ev(self, node):
		m = getattr(self, 'p_' + type(node).__name__, None)
		if m is None:
			raise Unsupported(f'specification expression {type(node).__name__}')
		return m(node)

	def p_Constant(self, node):
		return node.value

	def p_Name(self, node):
		v = self.lookup(node.id)
		if isinstance(v, Ref) and isinstance(self.deref(v), Record):
			return v          # records keep their identity (fields are read through attr())
		return self.deref(v)

	def p_Tuple(self, node):
		return tuple(self.ev(e) for e in node.elts)

	def p_List(self, node):
		return [self.ev(e) for e in node.elts]

	def tr(self, v):
		v = self.deref(v)
		if isinstance(v, Ref):
			raise Unsupported('truthiness of a reference in a specification')
		return truth(v)

	def p_BoolOp(self, node):
		vals = []
		is_and = isinstance(node.op, ast.And)
		for v in node.values:
			t = self.tr(self.ev(v))
			if isinstance(t, bool) and t is (not is_and):
				return t      # concrete short circuit (the rest may not even be well defined)
			vals.append(t)
		return wrap_bool(simp_keep(mk_and(*vals) if is_and else mk_or(*vals)))

	def p_UnaryOp(self, node):
		v = self.ev(node.operand)
		if isinstance(node.op, ast.Not):
			return wrap_bool(mk_not(self.tr(v)))
		if isinstance(node.op, ast.USub):
			if isinstance(v, (int, float)):
				return -v
			if isinstance(v, SInt):
				return SInt(-v.term)
			if isinstance(v, SReal):
				return SReal(-v.term)
		raise Unsupported('unary operator in specification')

	def p_BinOp(self, node):
		a, b = self.strip(self.ev(node.left)), self.strip(self.ev(node.right))
		v, _ = binop(type(node.op), a, b, False)
		return v

	def strip(self, v):
		if isinstance(v, SInt) and v.ctype is not None:
			return SInt(v.term)
		return v

	def p_Compare(self, node):
		if len(node.ops) == 1 and isinstance(node.ops[0], (ast.Is, ast.IsNot)):
			def raw(n):
				# operand of `is` without dereferencing (object identity)
				if isinstance(n, ast.Name):
					return self.lookup(n.id)
				if isinstance(n, ast.Attribute):
					o = self.deref(raw(n.value))
					if isinstance(o, Record) and n.attr in o.fields:
						return o.fields[n.attr]
				if isinstance(n, ast.Subscript) and isinstance(n.slice, ast.Constant):
					o = self.deref(raw(n.value))
					if isinstance(o, dict) and n.slice.value in o:
						return o[n.slice.value]
				return None
			a, b = raw(node.left), raw(node.comparators[0])
			if isinstance(a, Ref) and isinstance(b, Ref):
				r = a.addr == b.addr        # object identity of two heap objects
				return r if isinstance(node.ops[0], ast.Is) else (not r)
		left = self.strip(self.ev(node.left))
		out = []
		for op, c in zip(node.ops, node.comparators):
			right = self.strip(self.ev(c))
			if isinstance(op, (ast.In, ast.NotIn)):
				r = contains(left, right)
				r = r if isinstance(op, ast.In) else mk_not(r)
			else:
				r, _ = compare(type(op), left, right, False)
			out.append(r)
			left = right
		return wrap_bool(mk_and(*out))

	def p_IfExp(self, node):
		c = self.tr(self.ev(node.test))
		if isinstance(c, bool):
			return self.ev(node.body if c else node.orelse)
		a, b = self.ev(node.body), self.ev(node.orelse)
		return ite_values(c, a, b)

	def p_Attribute(self, node):
		obj = self.ev(node.value)
		return self.attr(obj, node.attr)

	def attr(self, obj, a):
		if isinstance(obj, SMaybe):
			obj = obj.ref      # meaningful only where the clause has established that it is not None
		obj = self.deref(obj)
		if isinstance(obj, Record):
			if a in obj.fields:
				v = obj.fields[a]
				if isinstance(v, Ref) and isinstance(self.deref(v), Record):
					return v        # keep object identity of nested records
				return self.deref(v)
			raise Unsupported(f'record has no field {a}')
		if isinstance(obj, SObj):
			return obj.getattr(a)
		if isinstance(obj, SRec):
			return self.deref(obj.getattr(a))
		if isinstance(obj, SSlice):
			return getattr(obj, a)
		if isinstance(obj, (SArr, SSeq)) and a == 'length':
			return SInt(obj.length)
		h = self.eng.lib.get('pure_attr:' + type(obj).__name__)
		if h is not None:
			return h(self, obj, a)
		raise Unsupported(f'attribute {a} of {obj!r} in specification')

	def p_Subscript(self, node):
		obj = self.deref(self.ev(node.value))
		if isinstance(node.slice, ast.Slice):
			lo = self.ev(node.slice.lower) if node.slice.lower is not None else 0
			hi = self.ev(node.slice.upper) if node.slice.upper is not None else None
			if isinstance(obj, SArr):
				hi_t = obj.length if hi is None else int_term(hi)
				return obj.sub(int_term(lo), hi_t)
			if isinstance(obj, (tuple, list)):
				return obj[lo:hi]
			raise Unsupported('slice in specification')
		idx = self.ev(node.slice)
		return self.index(obj, idx)

	def index(self, obj, idx):
		obj = self.deref(obj)
		if isinstance(obj, Ptr):
			return (self.old_heap if self.in_old else self.heap)[obj.ref.addr]
		if isinstance(obj, SArr):
			return SInt(obj.at(int_term(idx)))
		if isinstance(obj, SSeq):
			return obj.at(int_term(idx))
		if isinstance(obj, (tuple, list, str, bytes)) and isinstance(idx, int):
			return self.deref(obj[idx])
		if isinstance(obj, (tuple, list)) and isinstance(idx, SInt):
			r = None
			for k in reversed(range(len(obj))):
				r = obj[k] if r is None else ite_values(idx.term == k, obj[k], r)
			return r
		if isinstance(obj, dict) and not is_sym(idx) and not isinstance(idx, Ref) and idx in obj:
			v = obj[idx]
			if isinstance(v, Ref) and isinstance(self.deref(v), Record):
				return v
			return self.deref(v) if not isinstance(v, Ref) or not isinstance(self.deref(v), (SSeq, list)) else v
		if isinstance(obj, dict) and obj and not is_sym(idx) and not isinstance(idx, Ref) and idx not in obj:
			raise SpecFalse(f'key {idx!r} is missing')
		if isinstance(obj, dict) and not obj:
			# no key exists: the value is arbitrary (an obligation about it is proved for every value)
			return SInt(z3.Int(fresh_name('nokey')))
		from .interp import SDict
		if isinstance(obj, SDict):
			return obj.get(idx)
		h = self.eng.lib.get('pure_index:' + type(obj).__name__)
		if h is not None:
			return h(self, obj, idx)
		raise Unsupported(f'index of {obj!r} in specification')

	def p_Call(self, node):
		fn = node.func
		if isinstance(fn, ast.Name):
			name = fn.id
			if name in ('forall', 'exists'):
				return self.quant(name, node)
			if name == 'old':
				saved = self.in_old
				self.in_old = True
				try:
					return self.ev(node.args[0])
				finally:
					self.in_old = saved
			if name == 'implies':
				a = self.tr(self.ev(node.args[0]))
				if a is False:
					return True
				b = self.tr(self.ev(node.args[1]))
				return wrap_bool(mk_implies(a, b))
			if name == 'iff':
				a, b = [self.tr(self.ev(x)) for x in node.args]
				if isinstance(a, bool) and isinstance(b, bool):
					return a == b
				return SBool(bool_term(a) == bool_term(b))
			if name == 'ite':
				c = self.tr(self.ev(node.args[0]))
				a, b = self.ev(node.args[1]), self.ev(node.args[2])
				if isinstance(c, bool):
					return a if c else b
				return ite_values(c, a, b)
			if name == 'len':
				v = self.deref(self.ev(node.args[0]))
				if isinstance(v, (SArr, SSeq)):
					return SInt(v.length)
				if isinstance(v, SStr):
					return SInt(z3.Length(v.term))
				from .interp import SEnumerate, SZip
				if isinstance(v, SEnumerate):
					inner = self.deref(v.inner)
					if isinstance(inner, SZip):
						return SInt(inner.length)
					return SInt(inner.length) if isinstance(inner, (SArr, SSeq)) else len(inner)
				if isinstance(v, SZip):
					return SInt(v.length)
				h = self.eng.lib.get('pure_len:' + type(v).__name__)
				if h is not None:
					return h(self, v)
				return len(v)
			if name == 'isnone':
				return wrap_bool(is_none(self.ev(node.args[0])))
			if name in ('min', 'max'):
				a, b = [self.strip(self.ev(x)) for x in node.args]
				if not is_sym(a) and not is_sym(b):
					return min(a, b) if name == 'min' else max(a, b)
				x, y = int_term(a), int_term(b)
				return SInt(z3.If(x <= y, x, y) if name == 'min' else z3.If(x >= y, x, y))
		f = self.ev(fn)
		args = [self.ev(a) for a in node.args]
		kwargs = {k.arg: self.ev(k.value) for k in node.keywords}
		if callable(f):
			return f(self, *args, **kwargs)
		raise Unsupported(f'call of {ast.unparse(fn)} in specification')

	def quant(self, kind, node):
		vars_node = node.args[0]
		names = [vars_node.id] if isinstance(vars_node, ast.Name) else [e.id for e in vars_node.elts]
		saved = dict(self.bound)
		zs = []
		qtypes = self.eng.specns.get('__qtypes__', {})
		for n in names:
			if n in qtypes:
				v = qtypes[n].fresh(n)       # a bound variable of a declared non-integer sort
				zs.append(v.term)
				self.bound[n] = v
				continue
			z = z3.Int(fresh_name(n))
			zs.append(z)
			self.bound[n] = SInt(z)
		try:
			parts = []
			for a in node.args[1:-1]:
				pt = self.tr(self.ev(a))
				if pt is False:
					return True if kind == 'forall' else False     # empty range: later parts may not even be well defined
				parts.append(pt)
			rng = mk_and(*parts)
			empty = rng is False
			if not empty and not isinstance(rng, bool):
				sv = z3.Solver()
				sv.set('rlimit', 100000)
				sv.add(rng)
				empty = sv.check() == z3.unsat
			if empty:
				# the range is empty (e.g. an index below the length of an empty list): the body need not even be well defined
				return True if kind == 'forall' else False
			parts.append(self.tr(self.ev(node.args[-1])))
		finally:
			self.bound = saved
		if kind == 'forall':
			body = mk_implies(mk_and(*parts[:-1]), parts[-1])
			if isinstance(body, bool):
				return body
			return SBool(z3.ForAll(zs, body))
		body = mk_and(*parts)
		if isinstance(body, bool):
			return body
		return SBool(z3.Exists(zs, body))


def simp_keep(t):
	return t


def ite_values(c, a, b):
	if isinstance(a, (bool, SBool)) and isinstance(b, (bool, SBool)):
		return SBool(z3.If(c, bool_term(a), bool_term(b)))
	if is_intlike(a) and is_intlike(b):
		return SInt(z3.If(c, int_term(a), int_term(b)))
	if isinstance(a, (SReal, float)) or isinstance(b, (SReal, float)):
		return SReal(z3.If(c, real_term(a), real_term(b)))
	if isinstance(a, SObj) or isinstance(b, SObj):
		T = (a if isinstance(a, SObj) else b).T
		return SObj(T, z3.If(c, T.unwrap(a), T.unwrap(b)))
	if isinstance(a, SF32) and isinstance(b, SF32):
		return SF32(z3.If(c, a.term, b.term))
	if isinstance(a, (SStr, str)) and isinstance(b, (SStr, str)):
		return SStr(z3.If(c, to_term(a), to_term(b)))
	if isinstance(a, SOpt) or isinstance(b, SOpt):
		T = (a if isinstance(a, SOpt) else b).T
		return SOpt(T, z3.If(c, T.unwrap(a), T.unwrap(b)))
	raise Unsupported(f'conditional on {a!r} / {b!r} in specification')
