"""check driver: generate obligations from /repo's current source, discharge, replay, write evidence."""
import argparse
import importlib
import json
import os
import subprocess
import sys
import time
import traceback
from pathlib import Path

VERIF = Path(__file__).resolve().parent.parent
sys.path.insert(0, str(VERIF))

from pyvc.modules import Repo
from pyvc.contracts import Registry
from pyvc.interp import Engine, Obligation, PathLimit
from pyvc.ops import Unsupported
from pyvc.cyfront import CyFrontError
from pyvc import smt

VENV_PY = '/venv/bin/python'


def load_known():
	p = VERIF / 'known_findings.json'
	if p.exists():
		return json.loads(p.read_text())
	return []


def load_lock():
	p = VERIF / 'contracts' / 'OBLIGATIONS.lock'
	if p.exists():
		return json.loads(p.read_text())
	return {}


ORACLE_ERRORS = []     # crashes of the harness itself (not of a case): never turned into a verdict about the code


def run_oracle(prop, repo_root, request, timeout=None):
	"""Run the executable-spec harness of a property in the repository's interpreter."""
	if timeout is None:
		# a safety net against a hung harness, not a budget: the thorough sequences are ~10x the quick ones and must not
		# be cut off when all cores are busy
		timeout = 7200 if request.get('tier') == 'thorough' else 1800
	env = dict(os.environ)
	env['PYTHONPATH'] = f'{repo_root}/src:{VERIF}'
	env.setdefault('OMP_NUM_THREADS', '4')
	p = subprocess.run([VENV_PY, str(VERIF / 'specs' / 'run_oracle.py'), prop], input=json.dumps(request),
	                   capture_output=True, text=True, timeout=timeout, env=env)
	if p.returncode != 0:
		ORACLE_ERRORS.append((p.stderr or p.stdout)[-600:])
		return {'error': (p.stderr or p.stdout)[-2000:]}
	try:
		return json.loads(p.stdout.strip().split('\n')[-1])
	except Exception:
		return {'error': 'unparsable oracle output: ' + p.stdout[-500:]}


class Run:
	def __init__(self, prop_id, tier, repo_root, jobs, seed):
		self.id, self.tier, self.repo_root, self.jobs, self.seed = prop_id, tier, repo_root, jobs, seed
		self.t0 = time.time()
		self.messages = []
		self.violations = []      # (obligation name or 'bounded', replay path, suffix)
		self.undecided = []
		self.machinery_errors = []
		self.known_hits = []

	def log(self, *a):
		print(*a, flush=True)


def main(argv=None):
	ap = argparse.ArgumentParser()
	ap.add_argument('prop')
	ap.add_argument('--tier', default=os.environ.get('VERIF_TIER', 'quick'))
	ap.add_argument('--repo', default='/repo')
	ap.add_argument('--jobs', type=int, default=int(os.environ.get('VERIF_JOBS', '16')))
	ap.add_argument('--replay')
	ap.add_argument('--write-lock', action='store_true')
	ap.add_argument('--no-bounded', action='store_true')
	ap.add_argument('--evidence-dir', default=str(VERIF / 'evidence'))
	ap.add_argument('-v', action='store_true')
	args = ap.parse_args(argv)
	seed = int(os.environ.get('VERIF_SEED', '0') or 0)
	pid = args.prop
	if os.environ.get('PYVC_CHILD') != '1' and not args.replay:
		return supervise(argv if argv is not None else sys.argv[1:])
	mod = importlib.import_module(f'props.{pid}')
	if args.replay:
		return do_replay(mod, pid, args)
	run = Run(pid, args.tier, args.repo, args.jobs, seed)
	code = 3
	try:
		code = check(run, mod, args)
	except Exception:
		traceback.print_exc()
		run.machinery_errors.append(traceback.format_exc()[-1500:])
		try:
			write_evidence(run, mod, args, {}, [], None, fatal=True)
		except Exception:
			traceback.print_exc()
		code = 3
	return code


def supervise(argv):
	"""The check proper runs in a child process.  The in-process SMT library can crash the interpreter (a segmentation fault inside
	z3 was observed on changed code); such a crash must not take the check down: the child is started again with the target it was
	working on skipped (that target becomes a machinery error, the other targets and the bounded run still take place)."""
	import tempfile
	fd, progress = tempfile.mkstemp(prefix='pyvc_progress_')
	os.close(fd)
	skip, nomodel = [], False
	try:
		for attempt in range(8):
			env = dict(os.environ, PYVC_CHILD='1', PYVC_SKIP=json.dumps(skip), PYVC_PROGRESS=progress, PYVC_NO_MODEL='1' if nomodel else '')
			open(progress, 'w').close()
			p = subprocess.run([sys.executable, '-m', 'pyvc.driver'] + list(argv), env=env)
			if 0 <= p.returncode < 128:
				return p.returncode
			cur = open(progress).read().strip()
			print(f'[supervisor] the checking process died (status {p.returncode}) while working on: {cur or "start-up"}; restarting without it', flush=True)
			if cur == '@post' and not nomodel:
				nomodel = True
			elif cur and cur != '@post' and cur not in skip:
				skip.append(cur)
			else:
				break
		print('MACHINERY-ERROR: the checking process keeps crashing')
		return 3
	finally:
		try:
			os.unlink(progress)
		except OSError:
			pass


def _progress(label):
	pth = os.environ.get('PYVC_PROGRESS')
	if pth:
		try:
			with open(pth, 'w') as f:
				f.write(label)
		except OSError:
			pass


def do_replay(mod, pid, args):
	data = json.loads(Path(args.replay).read_text())
	print(f'replaying {args.replay}: obligation {data.get("obligation")}')
	case = data.get('case')
	if case is None:
		print('no concrete input stored (no-failing-input-found); solver output:')
		print(data.get('solver_output', '')[:2000])
		return 1
	res = run_oracle(pid, args.repo, {'op': 'case', 'case': case})
	print(json.dumps(res, indent=1)[:4000])
	if res.get('ok') is False:
		print(f'VIOLATION property={pid} replay={args.replay}')
		return 1
	if data.get('obligation') == 'bounded-conformance' and data.get('seed') is not None:
		# the case passes in a fresh process: the failure depended on what the same process did before it (a history).
		# Re-run the bounded sequence it was part of.
		print('the single case passes in a fresh process; re-running the bounded sequence it failed in (history-dependent failure)')
		res = run_oracle(pid, args.repo, {'op': 'bounded', 'tier': data.get('tier', 'quick'), 'seed': data['seed']})
		fails = res.get('failures', [])
		print(json.dumps(fails[:2], indent=1, default=str)[:3000])
		if fails:
			print(f'VIOLATION property={pid} replay={args.replay}')
			return 1
	return 0


def check(run, mod, args):
	pid = run.id
	repo = Repo(args.repo)
	reg = Registry()
	lib = dict(getattr(mod, 'LIB', {}))
	eng = Engine(repo, reg, lib, pid)
	base_specns = dict(getattr(mod, 'SPECNS', {}))
	eng.specns = base_specns
	mod.register(reg)
	unsupported = []
	targets = mod.targets(run.tier) if callable(getattr(mod, 'targets', None)) else mod.TARGETS
	for t in targets:
		qual, inst, override = (t + (None, None))[:3] if isinstance(t, tuple) else (t, None, None)
		regfn = t[3] if isinstance(t, tuple) and len(t) > 3 else None
		if regfn is not None:
			# this target is verified against its own set of contracts (e.g. a function that other targets only see through a ghost contract)
			eng.registry = Registry()
			regfn(eng.registry)
			eng.specns = dict(base_specns)
			eng.specns.update(getattr(regfn, 'specns', {}))      # e.g. a spec function kept opaque for this target
			eng.lib = dict(lib)
			eng.lib.update(getattr(regfn, 'lib', {}))            # a target-specific library model
		else:
			eng.registry = reg
			eng.specns = base_specns
			eng.lib = lib
		n_before = len(eng.obligations)
		label_ = eng.label_of(qual, inst)
		if label_ in json.loads(os.environ.get('PYVC_SKIP') or '[]'):
			run.machinery_errors.append(f'the checking process crashed (signal) while generating the obligations of {label_}; target skipped')
			continue
		_progress(label_)
		try:
			eng.verify_function(qual, inst, override)
		except (Unsupported, CyFrontError, PathLimit) as e:
			# the obligations generated for this target so far come from an incomplete set of paths: they say nothing
			del eng.obligations[n_before:]
			unsupported.append((eng.label_of(qual, inst), str(e)))
			if args.v:
				traceback.print_exc()
		except Exception as e:
			del eng.obligations[n_before:]
			# a crash of the engine on this function (typically on changed code it was never run on): a machinery error for this
			# target, but the remaining targets and the bounded run still take place (a replayed failing input is still a verdict)
			run.machinery_errors.append(f'engine crashed on {eng.label_of(qual, inst)}: {type(e).__name__}: {e}')
			traceback.print_exc()
	_progress('@post')
	obligations = list(eng.obligations)
	lemma_obs = []
	if hasattr(mod, 'lemmas'):
		lemma_obs = mod.lemmas(run.tier)
		for ob in lemma_obs:
			ob.name = f'{pid}/{ob.name}' if not ob.name.startswith(pid + '/') else ob.name
		obligations += lemma_obs
	run.log(f'[{pid}] {len(eng.functions_verified)} functions under contract, {len(obligations)} obligation instances generated '
	        f'({time.time() - run.t0:.1f}s); discharging with {run.jobs} solver processes')
	results = smt.discharge(obligations, jobs=run.jobs, both=(run.tier == 'thorough'))
	lock = load_lock().get(pid, [])
	known = [k for k in load_known() if k.get('property') == pid]
	failed = [r for r in results.values() if r.verdict == 'failed']
	unknown = [r for r in results.values() if r.verdict == 'unknown']
	# ---- bounded conformance / oracle run on the real code
	bounded = None
	if hasattr(mod, 'bounded') and not args.no_bounded:
		try:
			bounded = mod.bounded(run, run_oracle)
		except Exception as e:
			run.machinery_errors.append(f'bounded run crashed: {e}')
			traceback.print_exc()
	# ---- decide
	scratch = VERIF / 'evidence' / 'replay'
	scratch.mkdir(parents=True, exist_ok=True)
	reported_cases = []

	def is_known(kind, name, witness_text):
		for k in known:
			if k.get('status') != 'known':
				continue
			if k.get('obligation') and k['obligation'] != name:
				continue
			return k
		return None

	for r in failed:
		if r.expect in ('sat', 'sat-any'):
			run.machinery_errors.append(f'vacuity guard failed: {r.name}: {r.detail}')
			continue
		k = is_known('obligation', r.name, '')
		rep = None
		model = None
		try:
			model = None if os.environ.get('PYVC_NO_MODEL') else smt.model_of(r.failed_instance)
		except Exception:
			model = None
		if hasattr(mod, 'replay'):
			try:
				rep = mod.replay(run, r, model, run_oracle)
			except Exception as e:
				traceback.print_exc()
				rep = {'error': f'replay harness crashed: {e}'}
		path = scratch / f'{pid}_{abs(hash(r.name)) % 10**8}.json'
		payload = {'property': pid, 'obligation': r.name, 'repo': args.repo,
		           'solver_output': ('sat; model:\n' + str(model)[:6000]) if model is not None else 'sat (no model extracted)'}
		if k is not None:
			# a listed finding: it must still be THE listed one (same obligation and, where the entry names a
			# witness class, a replayed witness of that class); anything else is reported as a violation
			if not k.get('class') or (rep and rep.get('reproduced') and rep.get('class') == k['class']):
				run.known_hits.append((k, r.name))
				continue
		if rep and rep.get('reproduced'):
			payload.update({'case': rep['case'], 'expected': rep.get('expected'), 'actual': rep.get('actual'), 'how': rep.get('how', 'model')})
			path.write_text(json.dumps(payload, indent=1, default=str))
			run.violations.append((r.name, str(path), ''))
		else:
			payload['replay_attempt'] = rep
			path.write_text(json.dumps(payload, indent=1, default=str))
			if r.name in lock or not lock:
				run.violations.append((r.name, str(path), ' no-failing-input-found'))
			else:
				run.undecided.append((r.name, 'sat, not in OBLIGATIONS.lock and no failing input found'))
	if bounded:
		for f in bounded.get('failures', []):
			k = None
			for kk in known:
				if kk.get('status') == 'known' and kk.get('bounded_class') and kk['bounded_class'] == f.get('class'):
					k = kk
			if k is not None:
				run.known_hits.append((k, 'bounded:' + str(f.get('class'))))
				continue
			# already reported through an obligation replay?
			path = scratch / f'{pid}_bounded_{len(reported_cases)}.json'
			path.write_text(json.dumps({'property': pid, 'obligation': 'bounded-conformance', 'case': f['case'],
			                            'expected': f.get('expected'), 'actual': f.get('actual'), 'repo': args.repo, 'seed': run.seed, 'tier': run.tier,
			                            'note': 'failed inside the bounded sequence of this seed/tier; if the case passes alone the failure is history-dependent and --replay re-runs the sequence'}, indent=1, default=str))
			reported_cases.append(f)
			if not any(v[2] == '' for v in run.violations):
				run.violations.append(('bounded-conformance', str(path), ''))
			break
		if bounded.get('error'):
			run.machinery_errors.append('bounded run: ' + str(bounded['error'])[:500])
	for r in unknown:
		run.undecided.append((r.name, r.detail or 'unknown'))
	for lab, msg in unsupported:
		run.undecided.append((lab, 'outside the verified subset: ' + msg))
	generated = set(results)
	missing = [n for n in lock if n not in generated]
	if missing and not run.violations:
		run.undecided.append((missing[0], f'{len(missing)} obligation(s) of OBLIGATIONS.lock were not generated'))
	if not obligations:
		run.machinery_errors.append('zero obligations generated')
	if args.write_lock:
		lk = load_lock()
		lk[pid] = sorted(n for n, r in results.items() if r.verdict in ('discharged', 'trivial'))
		(VERIF / 'contracts' / 'OBLIGATIONS.lock').write_text(json.dumps(lk, indent=0, sort_keys=True))
	write_evidence(run, mod, args, results, unsupported, bounded, eng=eng, missing=missing)
	# ---- report
	seen_known = set()
	for k, name in run.known_hits:
		line = f'KNOWN-FINDING: property={pid} {k.get("what", name)}'
		if line not in seen_known:
			seen_known.add(line)
			print(line)
	for e in ORACLE_ERRORS:
		run.machinery_errors.append('oracle harness crashed: ' + e.strip().splitlines()[-1][:300])
	if run.machinery_errors and not any(v[2] == '' for v in run.violations):
		# without a replayed failing input a verdict would rest on broken machinery
		for m in run.machinery_errors:
			print(f'MACHINERY-ERROR: {m}')
		return 3
	for name, path, suffix in run.violations:
		print(f'  failed obligation: {name}')
	if run.violations:
		name, path, suffix = run.violations[0]
		# prefer a replayed one
		for v in run.violations:
			if v[2] == '':
				name, path, suffix = v
				break
		print(f'VIOLATION property={pid} replay={path}{suffix}')
		return 1
	if run.machinery_errors:
		for m in run.machinery_errors:
			print(f'MACHINERY-ERROR: {m}')
		return 3
	if run.undecided:
		for n, why in run.undecided[:20]:
			print(f'UNDECIDED obligation={n}: {why}')
		return 2
	nd = sum(1 for r in results.values() if r.verdict in ('discharged', 'trivial'))
	print(f'[{pid}] OK: {nd}/{len(results)} obligations discharged, {time.time() - run.t0:.1f}s')
	return 0


def write_evidence(run, mod, args, results, unsupported, bounded, eng=None, missing=(), fatal=False):
	pid = run.id
	counted = {n: r for n, r in results.items() if r.expect not in ('sat', 'sat-any')}
	known_names = {name for k, name in run.known_hits}
	claimed = {n: r for n, r in counted.items() if n not in known_names}
	discharged = sum(1 for r in claimed.values() if r.verdict in ('discharged', 'trivial'))
	backends = {}
	for r in results.values():
		for b in r.backend:
			backends[b] = backends.get(b, 0) + 1
	samples = []
	for n, r in list(claimed.items()):
		if r.verdict == 'discharged' and len(samples) < 4 and ('post' in n or 'inv-preserved' in n or 'lemma' in n):
			samples.append({'obligation': n, 'verdict': r.verdict, 'instances': r.instances, 'solver_s': round(r.seconds, 3), 'backend': sorted(r.backend)})
	for name, path, suffix in run.violations[:3]:
		samples.append({'violation': name, 'replay': path, 'suffix': suffix.strip()})
	if not samples:
		samples = [{'obligation': n, 'verdict': r.verdict} for n, r in list(claimed.items())[:3]] or [{'note': 'no obligations'}]
	cov = {
		'obligations': len(claimed),
		'discharged': discharged,
		'trivially_true': sum(1 for r in claimed.values() if r.verdict == 'trivial'),
		'obligation_instances': sum(r.instances for r in results.values()),
		'checker_cmd': f'./check {pid} --tier {run.tier}',
		'trusted_base': list(getattr(mod, 'TRUSTED', [])),
		'samples': samples,
		'functions_under_contract': list(eng.functions_verified) if eng else [],
		'backends': backends,
		'solver_seconds': round(sum(r.seconds for r in results.values()), 2),
		'slowest': sorted(((round(r.seconds, 2), n) for n, r in results.items()), reverse=True)[:5],
		'vacuity_guards': {n: r.detail for n, r in results.items() if r.expect in ('sat', 'sat-any')},
		'failed': [n for n, r in claimed.items() if r.verdict == 'failed'],
		'undecided': [list(u) for u in run.undecided][:50],
		'known_failing': [{'obligation': name, 'finding': k.get('what')} for k, name in run.known_hits],
		'outside_subset': [list(u) for u in unsupported],
		'missing_from_lock': list(missing)[:50],
		'library_contracts_used': sorted(eng.assumptions_used) if eng else [],
		'inlined_without_contract': sorted(eng.inlined_without_contract) if eng else [],
		'machinery_errors': run.machinery_errors,
		'repo': args.repo,
	}
	if bounded is not None:
		cov['bounded'] = {k: v for k, v in bounded.items() if k != 'failures'}
		cov['bounded']['failures'] = len(bounded.get('failures', []))
		cov['bounded']['label'] = 'bounded stand-in / conformance run on the real code; never counted in discharged'
	ev = {
		'property_id': pid,
		'tier': run.tier if run.tier in ('quick', 'thorough') else 'quick',
		'seed': run.seed,
		'level': 'proof',
		'coverage': cov,
		'assumptions': list(getattr(mod, 'ASSUMPTIONS', [])),
		'wall_s': round(time.time() - run.t0, 2),
		'violations': len(run.violations),
	}
	out = Path(args.evidence_dir)
	out.mkdir(parents=True, exist_ok=True)
	(out / f'{pid}.json').write_text(json.dumps(ev, indent=1, default=str))


if __name__ == '__main__':
	sys.exit(main())
